// instr rewrites the files the scheduler must own (from /repo's CURRENT working tree and a
// few third-party files) so that every goroutine, channel operation, lock, timer, random
// number and map iteration goes through anndbverif/vrt, and writes a go build overlay.
//
// Rewrites are text splices at AST positions that keep every original line on its line.
// Any construct in an owned file that the rewriter does not recognise is a hard error.
package main

import (
	"bytes"
	"encoding/json"
	"flag"
	"fmt"
	"go/ast"
	"go/importer"
	"go/parser"
	"go/token"
	"go/types"
	"io"
	"os"
	"os/exec"
	"path/filepath"
	"sort"
	"strings"
)

type pkgSpec struct {
	Import  string   `json:"import"` // import path
	Files   []string `json:"files"`  // base names to own ("*" = all non-test files)
	Typed   bool     `json:"typed"`  // needs type info (map ranges, durable calls)
	Replace []struct {
		File string `json:"file"`
		Old  string `json:"old"`
		New  string `json:"new"`
	} `json:"replace"`
	Tunables []string `json:"tunables"`
	Durable  bool     `json:"durable"` // wrap mutating Badger calls
	Fakes    bool     `json:"fakes"`   // redirect pb.New*Client constructors
}

type listPkg struct {
	ImportPath string
	Dir        string
	GoFiles    []string
	CgoFiles   []string
	Export     string
	Imports    []string
	ImportMap  map[string]string
	Error      *struct{ Err string }
}

var shimImports = map[string]string{
	"sync":        "anndbverif/vrt/sync",
	"sync/atomic": "anndbverif/vrt/atomic",
	"time":        "anndbverif/vrt/time",
	"context":     "anndbverif/vrt/context",
	"math/rand":   "anndbverif/vrt/rand",
	"crypto/rand": "anndbverif/vrt/crand",
}

var pbClientCtors = map[string]bool{
	"NewRaftTransportClient": true, "NewSearchClient": true, "NewDataManagerClient": true,
	"NewNodesManagerClient": true, "NewDatasetManagerClient": true,
}

// Badger methods by classification.
var badgerMutating = map[string]bool{"Flush": true, "Update": true, "Commit": true, "CommitWith": true, "DropAll": true, "DropPrefix": true}
var badgerBenign = map[string]bool{"View": true, "NewWriteBatch": true, "Set": true, "Delete": true, "Cancel": true, "NewIterator": true,
	"Get": true, "NewTransaction": true, "Discard": true, "Close": true, "SetEntry": true, "Error": true, "Seek": true, "Valid": true,
	"Item": true, "Next": true, "Key": true, "Value": true, "Rewind": true, "ValueCopy": true, "KeyCopy": true, "Opts": true, "Sync": true,
	"SetMaxPendingTxns": true, "IsClosed": true, "ValidForPrefix": true}

// wireOnly: see the -wire-only flag.
var wireOnly bool

func die(format string, a ...interface{}) {
	fmt.Fprintf(os.Stderr, "instr: "+format+"\n", a...)
	os.Exit(2)
}

func main() {
	cfgPath := flag.String("config", "instr/owned.json", "owned-files config")
	out := flag.String("out", "", "output dir for generated files")
	overlayPath := flag.String("overlay", "", "overlay json to write")
	tags := flag.String("tags", "verif", "build tags")
	only := flag.String("only", "", "comma-separated import paths to restrict to")
	flag.BoolVar(&wireOnly, "wire-only", false, "only redirect the pb.New*Client constructors to the in-memory wire (for free-running -race twins): no scheduler hooks")
	flag.Parse()
	if *out == "" || *overlayPath == "" {
		die("need -out and -overlay")
	}
	var specs []pkgSpec
	b, err := os.ReadFile(*cfgPath)
	if err != nil {
		die("%v", err)
	}
	if err := json.Unmarshal(b, &specs); err != nil {
		die("config: %v", err)
	}
	if wireOnly {
		var f []pkgSpec
		for _, s := range specs {
			if s.Fakes {
				s.Replace, s.Tunables, s.Durable, s.Typed = nil, nil, false, false
				f = append(f, s)
			}
		}
		specs = f
	}
	if *only != "" {
		keep := map[string]bool{}
		for _, p := range strings.Split(*only, ",") {
			keep[p] = true
		}
		var f []pkgSpec
		for _, s := range specs {
			if keep[s.Import] {
				f = append(f, s)
			}
		}
		specs = f
	}
	os.MkdirAll(*out, 0o755)

	// one go list for everything (export data for type checking)
	args := []string{"list", "-tags", *tags, "-export", "-deps", "-json=ImportPath,Dir,GoFiles,CgoFiles,Export,Imports,ImportMap,Error"}
	for _, s := range specs {
		args = append(args, s.Import)
	}
	cmd := exec.Command("go", args...)
	cmd.Dir = "/repo"
	cmd.Stderr = os.Stderr
	outb, err := cmd.Output()
	if err != nil {
		die("go list failed: %v", err)
	}
	pkgs := map[string]*listPkg{}
	dec := json.NewDecoder(bytes.NewReader(outb))
	for dec.More() {
		var p listPkg
		if err := dec.Decode(&p); err != nil {
			die("go list json: %v", err)
		}
		pp := p
		pkgs[p.ImportPath] = &pp
	}

	overlay := map[string]string{}
	for _, spec := range specs {
		lp := pkgs[spec.Import]
		if lp == nil {
			die("package %s not listed", spec.Import)
		}
		instrumentPackage(spec, lp, pkgs, *out, overlay)
	}
	ob, _ := json.MarshalIndent(map[string]interface{}{"Replace": overlay}, "", " ")
	if err := os.WriteFile(*overlayPath, ob, 0o644); err != nil {
		die("%v", err)
	}
}

type edit struct {
	start, end int
	text       string
}

type rewriter struct {
	fset   *token.FileSet
	file   *ast.File
	src    []byte
	base   int // file base offset
	edits  []edit
	info   *types.Info
	spec   pkgSpec
	name   string
	n      int
	used   bool
	pbName string
	errs   []string
}

func (r *rewriter) off(p token.Pos) int { return r.fset.Position(p).Offset }
func (r *rewriter) pos(p token.Pos) string {
	ps := r.fset.Position(p)
	return fmt.Sprintf("%s:%d", filepath.Base(ps.Filename), ps.Line)
}
func (r *rewriter) errf(p token.Pos, format string, a ...interface{}) {
	r.errs = append(r.errs, r.pos(p)+": "+fmt.Sprintf(format, a...))
}

// render returns the source text of [start,end) with the edits inside applied and absorbed.
func (r *rewriter) render(start, end int) string {
	var inner, rest []edit
	for _, e := range r.edits {
		if e.start >= start && e.end <= end {
			inner = append(inner, e)
		} else {
			if e.start < end && e.end > start {
				die("%s: overlapping edits [%d,%d) vs [%d,%d)", r.name, e.start, e.end, start, end)
			}
			rest = append(rest, e)
		}
	}
	r.edits = rest
	sort.Slice(inner, func(i, j int) bool { return inner[i].start < inner[j].start })
	var sb strings.Builder
	cur := start
	for _, e := range inner {
		if e.start < cur {
			die("%s: nested edit overlap", r.name)
		}
		sb.Write(r.src[cur:e.start])
		sb.WriteString(e.text)
		cur = e.end
	}
	sb.Write(r.src[cur:end])
	return sb.String()
}

func (r *rewriter) renderNode(n ast.Node) string { return r.render(r.off(n.Pos()), r.off(n.End())) }

// add registers an edit; the replacement is padded so that it has at least as many
// newlines as the text it replaces (keeps later lines on their lines).
func (r *rewriter) add(start, end int, text string) {
	old := bytes.Count(r.src[start:end], []byte("\n"))
	neu := strings.Count(text, "\n")
	for ; neu < old; neu++ {
		text += "\n"
	}
	r.edits = append(r.edits, edit{start, end, text})
	r.used = true
}

func (r *rewriter) fresh(prefix string) string {
	r.n++
	return fmt.Sprintf("%s%d__", prefix, r.n)
}

func isRecv(e ast.Expr) (*ast.UnaryExpr, bool) {
	for {
		if p, ok := e.(*ast.ParenExpr); ok {
			e = p.X
			continue
		}
		break
	}
	u, ok := e.(*ast.UnaryExpr)
	return u, ok && u.Op == token.ARROW
}

func (r *rewriter) walkStmts(list []ast.Stmt) {
	for _, s := range list {
		r.walk(s)
	}
}

// walk rewrites node n (children first).
func (r *rewriter) walk(n ast.Node) {
	if n == nil {
		return
	}
	switch x := n.(type) {
	case *ast.LabeledStmt:
		if _, ok := x.Stmt.(*ast.SelectStmt); ok {
			r.errf(x.Pos(), "labelled select statement (the rewrite wraps the select in a block)")
		}
	case *ast.SelectStmt:
		r.rewriteSelect(x)
		return
	case *ast.SendStmt:
		r.walk(x.Chan)
		r.walk(x.Value)
		tk := r.fresh("t")
		// operands are evaluated once, before the send blocks (a value without a call cannot have a side effect
		// and stays in place so that untyped constants keep their conversion to the element type)
		cv := r.fresh("c")
		pre := fmt.Sprintf("%s := %s; ", cv, r.renderNode(x.Chan))
		val := r.renderNode(x.Value)
		callInValue := false
		ast.Inspect(x.Value, func(n ast.Node) bool {
			if _, ok := n.(*ast.CallExpr); ok {
				callInValue = true
			}
			return !callInValue
		})
		if callInValue {
			vv := r.fresh("c")
			pre += fmt.Sprintf("%s := %s; ", vv, val)
			val = vv
		}
		r.add(r.off(x.Pos()), r.off(x.End()), fmt.Sprintf("{ %s%s := vrt__.BeforeSend(%s); %s <- %s; vrt__.After(%s) }", pre, tk, cv, cv, val, tk))
		return
	case *ast.AssignStmt:
		if len(x.Lhs) == 2 && len(x.Rhs) == 1 {
			if u, ok := isRecv(x.Rhs[0]); ok {
				for _, l := range x.Lhs {
					r.walk(l)
				}
				r.walk(u.X)
				r.add(r.off(x.Rhs[0].Pos()), r.off(x.Rhs[0].End()), fmt.Sprintf("vrt__.Recv2(%s)", r.renderNode(u.X)))
				return
			}
		}
	case *ast.ValueSpec:
		if len(x.Names) == 2 && len(x.Values) == 1 {
			if u, ok := isRecv(x.Values[0]); ok {
				r.walk(u.X)
				r.add(r.off(x.Values[0].Pos()), r.off(x.Values[0].End()), fmt.Sprintf("vrt__.Recv2(%s)", r.renderNode(u.X)))
				return
			}
		}
	case *ast.UnaryExpr:
		if x.Op == token.ARROW {
			r.walk(x.X)
			r.add(r.off(x.Pos()), r.off(x.End()), fmt.Sprintf("vrt__.Recv(%s)", r.renderNode(x.X)))
			return
		}
	case *ast.GoStmt:
		r.rewriteGo(x)
		return
	case *ast.RangeStmt:
		r.rewriteRange(x)
		return
	case *ast.CallExpr:
		if id, ok := x.Fun.(*ast.Ident); ok && id.Name == "make" && len(x.Args) >= 1 {
			isChan := false
			if _, ok := x.Args[0].(*ast.ChanType); ok {
				isChan = true
			} else if r.info != nil {
				if tv, ok := r.info.Types[x.Args[0]]; ok && tv.IsType() {
					_, isChan = tv.Type.Underlying().(*types.Chan)
				}
			}
			if isChan {
				for _, a := range x.Args[1:] {
					r.walk(a)
				}
				r.add(r.off(x.Pos()), r.off(x.End()), "vrt__.NewChan("+r.renderNode(x)+")")
				return
			}
		}
		if id, ok := x.Fun.(*ast.Ident); ok && id.Name == "close" && len(x.Args) == 1 {
			if r.info != nil {
				if _, isBuiltin := r.info.Uses[id].(*types.Builtin); !isBuiltin {
					break
				}
			}
			r.walk(x.Args[0])
			r.add(r.off(id.Pos()), r.off(id.End()), "vrt__.Close")
			return
		}
		if sel, ok := x.Fun.(*ast.SelectorExpr); ok {
			if id, ok := sel.X.(*ast.Ident); ok && r.spec.Fakes && r.pbName != "" && id.Name == r.pbName && pbClientCtors[sel.Sel.Name] {
				for _, a := range x.Args {
					r.walk(a)
				}
				r.add(r.off(sel.Pos()), r.off(sel.End()), "vrtfakes__."+sel.Sel.Name)
				return
			}
			if r.spec.Durable && r.info != nil {
				if r.rewriteDurable(x, sel) {
					return
				}
			}
		}
	case *ast.GenDecl:
		if x.Tok == token.CONST && len(r.spec.Tunables) > 0 {
			if r.rewriteTunable(x) {
				return
			}
		}
	}
	// generic descent
	ast.Inspect(n, func(c ast.Node) bool {
		if c == n || c == nil {
			return true
		}
		r.walk(c)
		return false
	})
}

func (r *rewriter) rewriteSelect(s *ast.SelectStmt) {
	name := r.fresh("s")
	hasDefault := false
	var caseArgs []string
	// channel operands (and send values that contain a call) are evaluated exactly once, in source order, on
	// entering the select - as the language says - into temporaries declared in a block around the switch
	var hoisted []string
	hoist := func(expr string) string {
		t := r.fresh("c")
		hoisted = append(hoisted, fmt.Sprintf("%s := %s; ", t, expr))
		return t
	}
	hasCall := func(e ast.Expr) bool {
		found := false
		ast.Inspect(e, func(n ast.Node) bool {
			if _, ok := n.(*ast.CallExpr); ok {
				found = true
			}
			return !found
		})
		return found
	}
	idx := 0
	for _, c := range s.Body.List {
		cc := c.(*ast.CommClause)
		if cc.Comm == nil {
			hasDefault = true
			// "default" keyword: from cc.Pos() to cc.Colon
			r.walkStmts(cc.Body)
			r.add(r.off(cc.Pos()), r.off(cc.Colon)+1, "case -1:")
			continue
		}
		var header string
		switch st := cc.Comm.(type) {
		case *ast.SendStmt:
			r.walk(st.Chan)
			r.walk(st.Value)
			ch := hoist(r.renderNode(st.Chan))
			val := r.renderNode(st.Value)
			if hasCall(st.Value) {
				val = hoist(val)
			}
			caseArgs = append(caseArgs, fmt.Sprintf("vrt__.SendOf(%s)", ch))
			header = fmt.Sprintf("case %d: %s <- %s; %s.After();", idx, ch, val, name)
		case *ast.ExprStmt:
			u, ok := isRecv(st.X)
			if !ok {
				r.errf(st.Pos(), "select case is not a receive")
				return
			}
			r.walk(u.X)
			ch := hoist(r.renderNode(u.X))
			caseArgs = append(caseArgs, fmt.Sprintf("vrt__.RecvOf(%s)", ch))
			header = fmt.Sprintf("case %d: vrt__.SelRecv(%s, %s);", idx, name, ch)
		case *ast.AssignStmt:
			if len(st.Rhs) != 1 {
				r.errf(st.Pos(), "unsupported select receive form")
				return
			}
			u, ok := isRecv(st.Rhs[0])
			if !ok {
				r.errf(st.Pos(), "select case is not a receive")
				return
			}
			r.walk(u.X)
			ch := hoist(r.renderNode(u.X))
			caseArgs = append(caseArgs, fmt.Sprintf("vrt__.RecvOf(%s)", ch))
			var lhs []string
			for _, l := range st.Lhs {
				r.walk(l)
				lhs = append(lhs, r.renderNode(l))
			}
			fn := "SelRecv"
			if len(st.Lhs) == 2 {
				fn = "SelRecv2"
			}
			header = fmt.Sprintf("case %d: %s %s vrt__.%s(%s, %s);", idx, strings.Join(lhs, ", "), st.Tok.String(), fn, name, ch)
			// a defined-but-unused variable was legal?? no: Go rejects it as well, keep as is
		default:
			r.errf(cc.Pos(), "unsupported select comm clause")
			return
		}
		r.walkStmts(cc.Body)
		r.add(r.off(cc.Pos()), r.off(cc.Colon)+1, header)
		idx++
	}
	hd := "false"
	if hasDefault {
		hd = "true"
	}
	// keep the statement terminating when the select was (all clauses return)
	r.add(r.off(s.Body.Rbrace), r.off(s.Body.Rbrace), "default: panic(\"vrt: bad select index\"); ")
	r.add(r.off(s.Body.Rbrace)+1, r.off(s.Body.Rbrace)+1, " }")
	r.add(r.off(s.Pos()), r.off(s.Body.Lbrace)+1,
		fmt.Sprintf("{ %sswitch %s := vrt__.Select(%q, %s%s); %s.Idx {", strings.Join(hoisted, ""), name, r.pos(s.Pos()), hd, prefixEach(caseArgs), name))
}

func prefixEach(a []string) string {
	s := ""
	for _, x := range a {
		s += ", " + x
	}
	return s
}

func (r *rewriter) rewriteGo(g *ast.GoStmt) {
	call := g.Call
	r.walk(call.Fun)
	for _, a := range call.Args {
		r.walk(a)
	}
	f := r.fresh("f")
	var names, vals, use []string
	for i, a := range call.Args {
		txt := r.renderNode(a)
		if lit, ok := a.(*ast.BasicLit); ok {
			use = append(use, lit.Value)
			continue
		}
		if id, ok := a.(*ast.Ident); ok && (id.Name == "nil" || id.Name == "true" || id.Name == "false") {
			use = append(use, id.Name)
			continue
		}
		nm := r.fresh("a")
		names = append(names, nm)
		vals = append(vals, txt)
		u := nm
		if call.Ellipsis.IsValid() && i == len(call.Args)-1 {
			u += "..."
		}
		use = append(use, u)
	}
	// receivers of method values are evaluated at the go statement: `_f := x.m` does that
	// [go, Fun) -> "{ f := "
	r.add(r.off(g.Pos()), r.off(call.Fun.Pos()), "{ "+f+" := ")
	tail := "; "
	if len(names) > 0 {
		tail += strings.Join(names, ", ") + " := " + strings.Join(vals, ", ") + "; "
	}
	tail += fmt.Sprintf("vrt__.Go(%q, func() { %s(%s) }) }", r.pos(g.Pos()), f, strings.Join(use, ", "))
	// keep the newlines of the replaced argument list
	r.add(r.off(call.Fun.End()), r.off(g.End()), tail)
}

func (r *rewriter) rewriteRange(x *ast.RangeStmt) {
	r.walk(x.X)
	r.walk(x.Body)
	if r.info == nil {
		r.errf(x.Pos(), "range statement in an untyped owned file: cannot tell whether it ranges over a map")
		return
	}
	tv, ok := r.info.Types[x.X]
	if !ok {
		r.errf(x.Pos(), "no type for range operand")
		return
	}
	switch tv.Type.Underlying().(type) {
	case *types.Chan:
		r.errf(x.Pos(), "range over channel is not supported by the instrumenter")
		return
	case *types.Map:
	default:
		return
	}
	m := r.fresh("m")
	keyName, valName := "", ""
	if x.Key != nil {
		if id, ok := x.Key.(*ast.Ident); ok {
			keyName = id.Name
		} else {
			r.errf(x.Pos(), "range key is not an identifier")
			return
		}
	}
	if x.Value != nil {
		if id, ok := x.Value.(*ast.Ident); ok {
			valName = id.Name
		} else {
			r.errf(x.Pos(), "range value is not an identifier")
			return
		}
	}
	k := keyName
	if k == "" || k == "_" {
		k = r.fresh("k")
	}
	v := valName
	hasV := v != "" && v != "_"
	define := x.Tok == token.DEFINE
	mexpr := r.renderNode(x.X)
	var pre, head strings.Builder
	fmt.Fprintf(&pre, "{ %s := %s; ", m, mexpr)
	if define || keyName == "" || keyName == "_" {
		// per-loop variables, as in go <= 1.21
		zk, zv := k, "_"
		if hasV && define {
			zv = v
		}
		if define || zk != keyName {
			fmt.Fprintf(&pre, "%s, %s := vrt__.ZeroKV(%s); _ = %s; ", zk, zv, m, zk)
		}
	}
	ek := r.fresh("e")
	ok2 := r.fresh("ok")
	fmt.Fprintf(&head, "for _, %s := range vrt__.Keys(%s) { %s = %s; ", ek, m, k, ek)
	if hasV {
		fmt.Fprintf(&head, "var %s bool; %s, %s = %s[%s]; if !%s { continue }; ", ok2, v, ok2, m, k, ok2)
	} else {
		fmt.Fprintf(&head, "if _, %s := %s[%s]; !%s { continue }; ", ok2, m, k, ok2)
	}
	// [for ... {] replaced
	r.add(r.off(x.Pos()), r.off(x.Body.Lbrace)+1, pre.String()+head.String())
	r.add(r.off(x.End()), r.off(x.End()), " }")
}

func (r *rewriter) rewriteDurable(call *ast.CallExpr, sel *ast.SelectorExpr) bool {
	tv, ok := r.info.Types[sel.X]
	if !ok {
		return false
	}
	t := tv.Type
	if p, ok := t.(*types.Pointer); ok {
		t = p.Elem()
	}
	named, ok := t.(*types.Named)
	if !ok || named.Obj().Pkg() == nil || !strings.HasPrefix(named.Obj().Pkg().Path(), "github.com/dgraph-io/badger") {
		return false
	}
	tn := named.Obj().Name()
	if tn != "DB" && tn != "Txn" && tn != "WriteBatch" {
		return false
	}
	m := sel.Sel.Name
	if badgerBenign[m] {
		return false
	}
	if !badgerMutating[m] {
		r.errf(call.Pos(), "unclassified badger method %s.%s: classify it as mutating or benign in instr", tn, m)
		return false
	}
	// result must be a single error
	for _, a := range call.Args {
		r.walk(a)
	}
	r.walk(sel.X)
	txt := r.renderNode(call)
	r.add(r.off(call.Pos()), r.off(call.End()), fmt.Sprintf("vrt__.Durable(%q, func() error { return %s })", r.pos(call.Pos())+":"+tn+"."+m, txt))
	return true
}

func (r *rewriter) rewriteTunable(d *ast.GenDecl) bool {
	if len(d.Specs) != 1 {
		return false
	}
	vs := d.Specs[0].(*ast.ValueSpec)
	if len(vs.Names) != 1 || len(vs.Values) != 1 {
		return false
	}
	name := vs.Names[0].Name
	found := false
	for _, t := range r.spec.Tunables {
		if t == name {
			found = true
		}
	}
	if !found {
		return false
	}
	typ := "uint64"
	if vs.Type != nil {
		typ = r.renderNode(vs.Type)
	}
	r.add(r.off(d.Pos()), r.off(d.End()), fmt.Sprintf("var %s %s = %s(vrt__.Tunable(%q, uint64(%s)))", name, typ, typ, name, r.renderNode(vs.Values[0])))
	tunablesSeen[name] = true
	return true
}

var tunablesSeen = map[string]bool{}

func instrumentPackage(spec pkgSpec, lp *listPkg, pkgs map[string]*listPkg, out string, overlay map[string]string) {
	fset := token.NewFileSet()
	var files []*ast.File
	srcs := map[string][]byte{}
	names := append([]string{}, lp.GoFiles...)
	names = append(names, lp.CgoFiles...)
	for _, f := range names {
		p := filepath.Join(lp.Dir, f)
		b, err := os.ReadFile(p)
		if err != nil {
			die("%v", err)
		}
		// apply textual replacement rules first
		for _, rp := range spec.Replace {
			if rp.File == f {
				if bytes.Count(b, []byte(rp.Old)) != 1 {
					die("%s: replacement anchor %q found %d times (expected exactly 1)", p, rp.Old, bytes.Count(b, []byte(rp.Old)))
				}
				b = bytes.Replace(b, []byte(rp.Old), []byte(rp.New), 1)
			}
		}
		srcs[f] = b
		af, err := parser.ParseFile(fset, p, b, parser.ParseComments)
		if err != nil {
			die("parse %s: %v", p, err)
		}
		files = append(files, af)
	}
	var info *types.Info
	if spec.Typed {
		info = &types.Info{Types: map[ast.Expr]types.TypeAndValue{}, Uses: map[*ast.Ident]types.Object{}}
		lookup := func(path string) (io.ReadCloser, error) {
			if mp, ok := lp.ImportMap[path]; ok {
				path = mp
			}
			p := pkgs[path]
			if p == nil || p.Export == "" {
				return nil, fmt.Errorf("no export data for %s", path)
			}
			return os.Open(p.Export)
		}
		imp := importer.ForCompiler(fset, "gc", lookup)
		conf := types.Config{Importer: imp, GoVersion: "go1.14", FakeImportC: true, Error: func(err error) {}}
		var tfiles []*ast.File
		for i, f := range names {
			cg := false
			for _, c := range lp.CgoFiles {
				if c == f {
					cg = true
				}
			}
			_ = cg
			tfiles = append(tfiles, files[i])
		}
		if _, err := conf.Check(lp.ImportPath, fset, tfiles, info); err != nil {
			// type errors are tolerated as long as the facts we need are present; report softly
			fmt.Fprintf(os.Stderr, "instr: note: type-check of %s: %v\n", lp.ImportPath, err)
		}
	}
	owned := map[string]bool{}
	for _, f := range spec.Files {
		owned[f] = true
	}
	for i, f := range names {
		if !(owned["*"] || owned[f]) {
			continue
		}
		delete(owned, f)
		r := &rewriter{fset: fset, file: files[i], src: srcs[f], info: info, spec: spec, name: f}
		var text string
		if wireOnly {
			if text = r.rewriteWireOnly(); text == "" {
				delete(owned, f)
				continue
			}
		} else {
			text = r.rewriteFile()
		}
		if len(r.errs) > 0 {
			for _, e := range r.errs {
				fmt.Fprintln(os.Stderr, "instr: unsupported construct: "+e)
			}
			os.Exit(2)
		}
		dst := filepath.Join(out, strings.ReplaceAll(strings.Trim(lp.ImportPath, "/"), "/", "_")+"__"+f)
		if err := os.WriteFile(dst, []byte(text), 0o644); err != nil {
			die("%v", err)
		}
		overlay[filepath.Join(lp.Dir, f)] = dst
	}
	delete(owned, "*")
	for f := range owned {
		die("owned file %s not found in package %s (files: %v)", f, lp.ImportPath, names)
	}
	for _, t := range spec.Tunables {
		if !tunablesSeen[t] {
			die("tunable constant %s not found in %s", t, lp.ImportPath)
		}
	}
}

// rewriteWireOnly redirects the protobuf client constructors and nothing else; "" if the file has none.
func (r *rewriter) rewriteWireOnly() string {
	f := r.file
	for _, im := range f.Imports {
		if strings.Trim(im.Path.Value, `"`) == "github.com/marekgalovic/anndb/protobuf" {
			r.pbName = "protobuf"
			if im.Name != nil {
				r.pbName = im.Name.Name
			}
		}
	}
	if r.pbName == "" {
		return ""
	}
	ast.Inspect(f, func(n ast.Node) bool {
		if call, ok := n.(*ast.CallExpr); ok {
			if sel, ok := call.Fun.(*ast.SelectorExpr); ok {
				if id, ok := sel.X.(*ast.Ident); ok && id.Name == r.pbName && pbClientCtors[sel.Sel.Name] {
					r.add(r.off(sel.Pos()), r.off(sel.End()), "vrtfakes__."+sel.Sel.Name)
				}
			}
		}
		return true
	})
	if len(r.edits) == 0 {
		return ""
	}
	r.add(r.off(f.Name.End()), r.off(f.Name.End()), `; import vrtfakes__ "anndbverif/vrt/fakes"`)
	return r.render(0, len(r.src))
}

func (r *rewriter) rewriteFile() string {
	f := r.file
	// find the local name of the protobuf package
	for _, im := range f.Imports {
		p := strings.Trim(im.Path.Value, `"`)
		if p == "github.com/marekgalovic/anndb/protobuf" {
			r.pbName = "protobuf"
			if im.Name != nil {
				r.pbName = im.Name.Name
			}
		}
	}
	for _, d := range f.Decls {
		r.walk(d)
	}
	usedBody := false
	usesFakes := false
	for _, e := range r.edits {
		if strings.Contains(e.text, "vrtfakes__.") {
			usesFakes = true
		}
		if strings.Contains(e.text, "vrt__.") {
			usedBody = true
		}
	}
	// imports
	for _, im := range f.Imports {
		p := strings.Trim(im.Path.Value, `"`)
		if shim, ok := shimImports[p]; ok {
			name := p[strings.LastIndex(p, "/")+1:]
			if im.Name != nil {
				r.add(r.off(im.Path.Pos()), r.off(im.Path.End()), fmt.Sprintf("%q", shim))
			} else {
				r.add(r.off(im.Path.Pos()), r.off(im.Path.End()), fmt.Sprintf("%s %q", name, shim))
			}
		}
	}
	extra := `; import vrt__ "anndbverif/vrt"`
	_ = usedBody
	if usesFakes {
		extra += `; import vrtfakes__ "anndbverif/vrt/fakes"`
	}
	if extra != "" {
		// right after the package clause, same line
		r.add(r.off(f.Name.End()), r.off(f.Name.End()), extra)
	}
	body := r.render(0, len(r.src))
	// build constraint + line directive so that positions refer to the original file
	constraint := "go1.21"
	var hdr strings.Builder
	for _, cg := range f.Comments {
		if cg.Pos() > f.Package {
			break
		}
		for _, c := range cg.List {
			if strings.HasPrefix(c.Text, "//go:build ") {
				constraint = "(" + strings.TrimPrefix(c.Text, "//go:build ") + ") && go1.21"
			}
		}
	}
	// drop existing constraint lines from the body (replace by blank comment lines)
	lines := strings.Split(body, "\n")
	for i, l := range lines {
		if strings.HasPrefix(l, "package ") {
			break
		}
		if strings.HasPrefix(l, "//go:build ") || strings.HasPrefix(l, "// +build ") {
			lines[i] = "//"
		}
	}
	body = strings.Join(lines, "\n")
	// NOTE: no //line directive: with one, cmd/compile (1.23) no longer finds the file's language
	// version for loop statements and silently switches to per-iteration loop variables.
	// The two header lines are accounted for by vrt.Instrumented(2).
	fmt.Fprintf(&hdr, "//go:build %s\n\n", constraint)
	if !strings.HasSuffix(body, "\n") {
		body += "\n"
	}
	return hdr.String() + body + "\nfunc init() { vrt__.Instrumented(2) }\n"
}
