// Package sim is E2: a small simulated cluster made of the REAL RaftGroup + badgerWAL + etcd
// node on a per-node in-memory Badger ("the disk", which survives crashes of its node), run
// under the vrt scheduler. A transition is one event from a finite menu followed by running
// the real handlers to quiescence under the default schedule. States are explored breadth
// first by the harness (replay from scratch + one event, canonical state digest).
package sim

import (
	"bytes"
	"context"
	"crypto/sha1"
	"encoding/hex"
	"errors"
	"fmt"
	"runtime"
	"sort"
	"strings"
	"time"

	"anndbverif/vrt"
	vctx "anndbverif/vrt/context"
	"anndbverif/vrt/fakes"
	"anndbverif/world"

	etcdRaft "github.com/coreos/etcd/raft"
	"github.com/coreos/etcd/raft/raftpb"
	badger "github.com/dgraph-io/badger/v2"
	"github.com/golang/protobuf/proto"
	"github.com/marekgalovic/anndb/cluster"
	pb "github.com/marekgalovic/anndb/protobuf"
	"github.com/marekgalovic/anndb/storage/raft"
	"github.com/marekgalovic/anndb/storage/wal"
	uuid "github.com/satori/go.uuid"
)

// Msg is one raft message in flight.
type Msg struct {
	From, To uint64
	Raw      *pb.RaftMessage
	M        raftpb.Message
}

func (m *Msg) Key() string {
	return fmt.Sprintf("%d>%d %s t%d i%d lt%d c%d rej%v n%d h%x", m.From, m.To, m.M.Type, m.M.Term, m.M.Index, m.M.LogTerm, m.M.Commit, m.M.Reject, len(m.M.Entries), sha1.Sum(m.Raw.Message))
}

// App is the replicated application of one node (the apply / snapshot / restore functions).
type App interface {
	Process(data []byte) error
	Snapshot() ([]byte, error)
	Restore(data []byte) error
	Digest() string
}

// Node is one simulated node.
type Node struct {
	ID          uint64
	DB          *badger.DB
	Conn        *cluster.Conn
	Transport   *raft.RaftTransport
	Group       *raft.RaftGroup
	App         App
	Crashed     bool
	Incarnation int
}

// World is the simulated cluster.
type World struct {
	S       *vrt.Sched
	GroupID uuid.UUID
	Peers   []uint64
	// Strangers are members of the cluster every node knows the address of but that are NOT replicas of this group (a
	// partition group is usually smaller than the cluster)
	Strangers []uint64
	Nodes     []*Node
	Net       []*Msg
	NewApp    func(n *Node) App
	// Violations found by monitors during transitions.
	Violations    []Violation
	seq           int
	crashArmed    map[uint64]crashSpec
	failArmed     map[uint64]int
	LeadersByTerm map[uint64]uint64
	Cut           map[[2]uint64]bool
	// Durable counts the durable writes each node has started so far.
	Durable map[uint64]int
	// Opposite: transitions run under the opposite of the default schedule (see oppositePick).
	Opposite bool
}

type Violation struct{ Key, Desc string }

type crashSpec struct {
	count int  // crash at the count-th durable call from now
	after bool // after the call returned (else before it)
}

type defaultPick struct{}

// oppositePick is the opposite of the default schedule inside a transition: the LAST enabled alternative first (threads
// started later run earlier, the thread that just ran is continued last). A second, equally arbitrary member of the family
// of schedules a transition stands for - whatever depends on who gets there first comes out the other way round.
type oppositePick struct{}

func (oppositePick) Pick(s *vrt.Sched, alts []vrt.Alt, costs []int) int { return len(alts) - 1 }

func (defaultPick) Pick(s *vrt.Sched, alts []vrt.Alt, costs []int) int { return 0 }

func (w *World) violate(key, format string, a ...interface{}) {
	for _, v := range w.Violations {
		if v.Key == key {
			return
		}
	}
	w.Violations = append(w.Violations, Violation{key, fmt.Sprintf(format, a...)})
}

// NewWorld creates n nodes (not yet started).
func NewWorld(n int, newApp func(*Node) App) *World {
	world.Quiet()
	fakes.Reset()
	vrt.ResetContexts()
	w := &World{S: vrt.New(), GroupID: world.ID(0x61, 0x62), NewApp: newApp, crashArmed: map[uint64]crashSpec{}, LeadersByTerm: map[uint64]uint64{}, Cut: map[[2]uint64]bool{}, Durable: map[uint64]int{}}
	w.S.Horizon = 5000000
	for i := 1; i <= n; i++ {
		w.Peers = append(w.Peers, uint64(i))
		w.Nodes = append(w.Nodes, &Node{ID: uint64(i), DB: world.MemDB()})
	}
	w.S.OnDurable = func(t *vrt.Thread, site string, after bool) bool {
		id := nodeOf(t.Name)
		if !after {
			w.Durable[id]++
		}
		c, ok := w.crashArmed[id]
		if !ok || c.after != after {
			return false
		}
		c.count--
		if c.count > 0 {
			w.crashArmed[id] = c
			return false
		}
		delete(w.crashArmed, id)
		w.node(id).Crashed = true
		return true
	}
	w.failArmed = map[uint64]int{}
	w.S.FailDurable = func(t *vrt.Thread, site string) error {
		id := nodeOf(t.Name)
		c, ok := w.failArmed[id]
		if !ok {
			return nil
		}
		if c > 1 {
			w.failArmed[id] = c - 1
			return nil
		}
		delete(w.failArmed, id)
		return ErrStoreRefuses
	}
	fakes.Intercept = w.intercept
	w.S.Begin()
	return w
}

func nodeOf(thread string) uint64 {
	var id uint64
	fmt.Sscanf(thread, "n%d/", &id)
	return id
}

func (w *World) node(id uint64) *Node { return w.Nodes[id-1] }

// Close ends the execution and releases the disks.
func (w *World) Close() {
	defer collect()
	w.S.End()
	for _, n := range w.Nodes {
		if n.Conn != nil {
			n.Conn.Close()
		}
		n.DB.Close()
	}
}

// run spawns f as a thread of node id and runs to quiescence.
func (w *World) run(id uint64, what string, f func()) {
	w.seq++
	w.S.Spawn(fmt.Sprintf("n%d/%s#%d", id, what, w.seq), false, f)
	w.Quiesce()
}

// Quiesce runs the default schedule until nothing is enabled.
func (w *World) Quiesce() {
	var strat vrt.Strategy = defaultPick{}
	if w.Opposite {
		strat = oppositePick{}
	}
	r := w.S.Run(strat, nil)
	if t := w.S.Panicked(); t != nil {
		w.violate("panic:"+panicSite(t.Stack), "thread %s panicked: %v\n%s", t.Name, t.Panic, trim(t.Stack))
		t.Panic = nil
		w.node(nodeOf(t.Name)).Crashed = true
		w.S.KillPrefix(fmt.Sprintf("n%d/", nodeOf(t.Name)))
		return
	}
	if w.S.Fatal != "" {
		w.violate("fatal", "log.Fatal inside owned code: %s", w.S.Fatal)
		w.S.Fatal = ""
	}
	if r == vrt.HorizonHit {
		w.violate("horizon", "execution did not become quiescent")
	}
}

func panicSite(stack string) string {
	for _, l := range strings.Split(stack, "\n") {
		l = strings.TrimSpace(l)
		if strings.HasPrefix(l, "/repo/") {
			if i := strings.Index(l, " "); i > 0 {
				l = l[:i]
			}
			return strings.TrimPrefix(l, "/repo/")
		}
	}
	return "?"
}

func trim(s string) string {
	if len(s) > 1500 {
		return s[:1500]
	}
	return s
}

// Start builds node id's objects on its surviving disk exactly as the production callers do
// (cluster.NewConn, raft.NewTransport, raft.NewRaftGroup with the group's peer list, Register*,
// Start). The same function is start and restart: the production restart path passes the peer
// list again, so does this.
func (w *World) Start(id uint64) {
	n := w.node(id)
	n.Crashed = false
	n.Incarnation++
	w.run(id, "start", func() {
		conn, err := cluster.NewConn(id, world.Addr(id), "")
		if err != nil {
			panic(err)
		}
		for _, p := range w.Peers {
			if p != id {
				conn.AddNode(p, world.Addr(p))
			}
		}
		for _, p := range w.Strangers {
			conn.AddNode(p, world.Addr(p))
		}
		n.Conn = conn
		n.Transport = raft.NewTransport(id, world.Addr(id), conn)
		fakes.Registry[world.Addr(id)] = &fakes.Node{Raft: n.Transport}
		n.App = w.NewApp(n)
		g, err := raft.NewRaftGroup(w.GroupID, w.Peers, wal.NewBadgerWAL(n.DB, w.GroupID), n.Transport)
		if err != nil {
			panic(err)
		}
		g.RegisterProcessFn(n.App.Process)
		g.RegisterProcessSnapshotFn(n.App.Restore)
		g.RegisterSnapshotFn(n.App.Snapshot)
		if err := g.Start(); err != nil {
			panic(fmt.Sprintf("RaftGroup.Start: %v", err))
		}
		n.Group = g
	})
}

// Crash kills every thread of node id (its disk survives).
func (w *World) Crash(id uint64) {
	n := w.node(id)
	n.Crashed = true
	w.Disarm(id)
	w.S.KillPrefix(fmt.Sprintf("n%d/", id))
	delete(fakes.Registry, world.Addr(id))
}

// Disarm removes pending crash orders (all nodes when id == 0).
func (w *World) Disarm(id uint64) {
	for k := range w.crashArmed {
		if id == 0 || k == id {
			delete(w.crashArmed, k)
		}
	}
	for k := range w.failArmed {
		if id == 0 || k == id {
			delete(w.failArmed, k)
		}
	}
}

// ErrStoreRefuses is what an armed write failure returns.
var ErrStoreRefuses = errors.New("simulated: the store refuses the write (no space left on device)")

// ArmFail makes the count-th durable write of node id from now fail: it returns an error and writes nothing.
func (w *World) ArmFail(id uint64, count int) { w.failArmed[id] = count }

// ArmCrash makes node id crash at its count-th durable write from now, before or after it.
func (w *World) ArmCrash(id uint64, count int, after bool) {
	w.crashArmed[id] = crashSpec{count, after}
}

// intercept is the wire: raft messages are queued, not delivered.
func (w *World) intercept(target, method string, ctx context.Context, req interface{}) (bool, interface{}, error) {
	if method != "Receive" {
		return false, nil, nil
	}
	r := req.(*pb.RaftMessage)
	var m raftpb.Message
	if err := proto.Unmarshal(r.Message, &m); err != nil {
		return true, nil, err
	}
	from := nodeOf(vrt.CurrentName())
	w.monitorSend(from, m)
	if w.Cut[[2]uint64{from, m.To}] {
		return true, nil, fakes.ErrUnavailable
	}
	w.Net = append(w.Net, &Msg{From: from, To: m.To, Raw: r, M: m})
	return true, &pb.EmptyMessage{}, nil
}

// monitorSend: durability before disclosure. Evaluated at the instant the message leaves.
func (w *World) monitorSend(from uint64, m raftpb.Message) {
	n := w.node(from)
	store := wal.NewBadgerWAL(n.DB, w.GroupID) // a fresh view of the disk
	hs, _, _ := store.InitialState()
	switch m.Type {
	case raftpb.MsgVote, raftpb.MsgVoteResp, raftpb.MsgAppResp, raftpb.MsgHeartbeatResp:
		if hs.Term < m.Term {
			w.violate("term-disclosed-before-durable:"+m.Type.String(), "node %d sends %s at term %d but its durable hard state has term %d", from, m.Type, m.Term, hs.Term)
		}
	}
	if m.Type == raftpb.MsgVoteResp && !m.Reject {
		if hs.Term == m.Term && hs.Vote != m.To {
			w.violate("vote-granted-before-durable", "node %d grants its vote to %d for term %d but the durable vote is %d", from, m.To, m.Term, hs.Vote)
		}
	}
	if m.Type == raftpb.MsgAppResp && !m.Reject {
		last, _ := store.LastIndex()
		if last < m.Index {
			w.violate("append-acknowledged-before-durable", "node %d acknowledges entries up to %d but its durable log ends at %d", from, m.Index, last)
		}
	}
}

// Deliver hands message i of the sorted network to its target.
func (w *World) Deliver(m *Msg, keep bool) {
	if !keep {
		w.remove(m)
	}
	if m.To == 0 || int(m.To) > len(w.Nodes) {
		// addressed to a node that is no replica of this group (a stranger): the group's membership has grown by itself
		w.violate("message-to-a-node-outside-the-group", "a raft message %s of this group is addressed to node %d; the group's replicas are %v", m.M.Type, m.To, w.Peers)
		return
	}
	n := w.node(m.To)
	if n.Crashed || n.Transport == nil {
		return // lost
	}
	w.run(m.To, "deliver", func() {
		ctx, cancel := vctx.WithCancel(context.Background())
		defer cancel()
		n.Transport.Receive(ctx, m.Raw)
	})
}

// starveReadyLoop is a schedule in which the group's ready loop (RaftGroup.run) runs only when nothing else can: messages
// handed to the raft node pile up there before the loop takes the next Ready.
type starveReadyLoop struct{}

func (starveReadyLoop) Pick(s *vrt.Sched, alts []vrt.Alt, costs []int) int {
	for i, a := range alts {
		if a.T != nil && !strings.Contains(a.T.Name, "/group.go:") {
			return i
		}
	}
	return 0
}

// DeliverBurst hands several messages to one target back to back, the target's ready loop being the slow one: the raft
// node has stepped all of them before the loop consumes the next Ready (a snapshot and the appends that follow it can
// then arrive in ONE Ready).
func (w *World) DeliverBurst(ms []*Msg) {
	if len(ms) == 0 {
		return
	}
	to := ms[0].To
	for _, m := range ms {
		w.remove(m)
	}
	n := w.node(to)
	if n.Crashed || n.Transport == nil {
		return
	}
	w.seq++
	w.S.Spawn(fmt.Sprintf("n%d/deliver-burst#%d", to, w.seq), false, func() {
		ctx, cancel := vctx.WithCancel(context.Background())
		defer cancel()
		for _, m := range ms {
			n.Transport.Receive(ctx, m.Raw)
		}
	})
	w.S.Run(starveReadyLoop{}, nil)
	w.Quiesce()
}

func (w *World) remove(m *Msg) {
	for i, x := range w.Net {
		if x == m {
			w.Net = append(w.Net[:i], w.Net[i+1:]...)
			return
		}
	}
}

// Drop loses a message.
func (w *World) Drop(m *Msg) { w.remove(m) }

// SortedNet returns the in-flight messages in canonical order.
func (w *World) SortedNet() []*Msg {
	out := append([]*Msg{}, w.Net...)
	sort.SliceStable(out, func(i, j int) bool { return out[i].Key() < out[j].Key() })
	return out
}

// Tick fires node id's raft tick ticker k times.
func (w *World) Tick(id uint64, k int) {
	for i := 0; i < k; i++ {
		fired := false
		for _, t := range w.S.Timers() {
			if t.Kind == "ticker" && t.D == 100*time.Millisecond && t.Armed() && nodeOf(t.Creator) == id {
				w.S.Fire(t)
				fired = true
			}
		}
		if !fired {
			return
		}
		w.Quiesce()
	}
}

// SnapshotTick fires node id's snapshot ticker.
func (w *World) SnapshotTick(id uint64) {
	for _, t := range w.S.Timers() {
		if t.Kind == "ticker" && t.D == 10*time.Second && t.Armed() && nodeOf(t.Creator) == id {
			w.S.Fire(t)
		}
	}
	w.Quiesce()
}

// SnapshotTickWith fires the snapshot tickers of all live nodes while the given proposals (on node id) are still on
// their way into the group: tick and writes reach the ready loop in the same burst of activity.
func (w *World) SnapshotTickWith(id uint64, datas [][]byte) {
	for _, t := range w.S.Timers() {
		if t.Kind == "ticker" && t.D == 10*time.Second && t.Armed() && !w.node(nodeOf(t.Creator)).Crashed {
			w.S.Fire(t)
		}
	}
	n := w.node(id)
	ctx, cancel := vctx.WithCancel(context.Background())
	for _, data := range datas {
		data := data
		w.seq++
		w.S.Spawn(fmt.Sprintf("n%d/propose#%d", id, w.seq), false, func() { n.Group.Propose(ctx, data) })
	}
	w.Quiesce()
	cancel()
	w.Quiesce()
}

// Propose proposes data on node id; returns false if the proposal could not be handed to raft
// (no leader known: the call is cancelled rather than left hanging).
func (w *World) Propose(id uint64, data []byte) bool {
	n := w.node(id)
	ok := false
	ctx, cancel := vctx.WithCancel(context.Background())
	w.seq++
	w.S.Spawn(fmt.Sprintf("n%d/propose#%d", id, w.seq), false, func() {
		if err := n.Group.Propose(ctx, data); err == nil {
			ok = true
		}
	})
	w.Quiesce()
	cancel()
	w.Quiesce()
	return ok
}

// Status returns node id's raft status (through the real status channel).
func (w *World) Status(id uint64) (st etcdRaft.Status, ok bool) {
	n := w.node(id)
	if n.Crashed || n.Group == nil {
		return st, false
	}
	got := false
	w.seq++
	w.S.Spawn(fmt.Sprintf("n%d/status#%d", id, w.seq), false, func() {
		st = n.Group.VerifStatus()
		got = true
	})
	w.Quiesce()
	return st, got
}

// Disk is the durable raft state of a node, read through a fresh store.
type Disk struct {
	HS      raftpb.HardState
	Snap    raftpb.SnapshotMetadata
	SnapSum string
	First   uint64
	Last    uint64
	Entries []raftpb.Entry
}

func (w *World) Disk(id uint64) Disk {
	var d Disk
	w.run(0, "disk", func() { d = w.readDisk(id) })
	return d
}

func (w *World) readDisk(id uint64) Disk {
	var d Disk
	store := wal.NewBadgerWAL(w.node(id).DB, w.GroupID)
	d.HS, _, _ = store.InitialState()
	snap, _ := store.Snapshot()
	d.Snap = snap.Metadata
	d.SnapSum = sum(snap.Data)
	d.First, _ = store.FirstIndex()
	d.Last, _ = store.LastIndex()
	if d.Last >= d.First {
		d.Entries, _ = store.Entries(d.First, d.Last+1, ^uint64(0))
	}
	return d
}

func sum(b []byte) string {
	if len(b) == 0 {
		return "-"
	}
	h := sha1.Sum(b)
	return hex.EncodeToString(h[:4])
}

func (d Disk) String() string {
	var sb strings.Builder
	fmt.Fprintf(&sb, "hs(t%d v%d c%d) snap(i%d t%d %s) log[", d.HS.Term, d.HS.Vote, d.HS.Commit, d.Snap.Index, d.Snap.Term, d.SnapSum)
	for _, e := range d.Entries {
		fmt.Fprintf(&sb, "%d@%d:%d:%s ", e.Index, e.Term, e.Type, sum(e.Data))
	}
	sb.WriteString("]")
	return sb.String()
}

// Canon is the canonical state digest of the whole world.
func (w *World) Canon() string {
	var sb strings.Builder
	for _, n := range w.Nodes {
		fmt.Fprintf(&sb, "|n%d crashed=%v ", n.ID, n.Crashed)
		sb.WriteString(w.Disk(n.ID).String())
		if st, ok := w.Status(n.ID); ok {
			fmt.Fprintf(&sb, " st(t%d v%d c%d lead%d %s app%d)", st.Term, st.Vote, st.Commit, st.Lead, st.RaftState, st.Applied)
			ids := make([]uint64, 0, len(st.Progress))
			for id := range st.Progress {
				ids = append(ids, id)
			}
			sort.Slice(ids, func(i, j int) bool { return ids[i] < ids[j] })
			for _, id := range ids {
				p := st.Progress[id]
				fmt.Fprintf(&sb, " p%d(m%d n%d %s)", id, p.Match, p.Next, p.State)
			}
		}
		if n.App != nil {
			sb.WriteString(" app=" + n.App.Digest())
		}
		if c, ok := w.crashArmed[n.ID]; ok {
			fmt.Fprintf(&sb, " armed(%d,%v)", c.count, c.after)
		}
	}
	sb.WriteString("|net:")
	for _, m := range w.SortedNet() {
		sb.WriteString(m.Key() + ";")
	}
	var cuts []string
	for c := range w.Cut {
		cuts = append(cuts, fmt.Sprint(c))
	}
	sort.Strings(cuts)
	sb.WriteString("|cut:" + strings.Join(cuts, ","))
	return sb.String()
}

// CheckLeaders: at most one leader per term over everything seen so far.
func (w *World) CheckLeaders() {
	for _, n := range w.Nodes {
		st, ok := w.Status(n.ID)
		if !ok || st.RaftState != etcdRaft.StateLeader {
			continue
		}
		if prev, seen := w.LeadersByTerm[st.Term]; seen && prev != n.ID {
			w.violate("two-leaders-in-one-term", "term %d: nodes %d and %d both became leader", st.Term, prev, n.ID)
		}
		w.LeadersByTerm[st.Term] = n.ID
	}
}

// CheckLogMatching: entries at the same index below both commit points are identical.
func (w *World) CheckLogMatching() {
	disks := map[uint64]Disk{}
	for _, n := range w.Nodes {
		disks[n.ID] = w.Disk(n.ID)
	}
	for _, a := range w.Nodes {
		for _, b := range w.Nodes {
			if a.ID >= b.ID {
				continue
			}
			da, db := disks[a.ID], disks[b.ID]
			for _, ea := range da.Entries {
				if ea.Index > da.HS.Commit {
					continue
				}
				for _, eb := range db.Entries {
					if eb.Index == ea.Index && eb.Index <= db.HS.Commit {
						if ea.Term != eb.Term || !bytes.Equal(ea.Data, eb.Data) {
							w.violate("committed-entries-differ", "index %d is committed on node %d as term %d/%s and on node %d as term %d/%s", ea.Index, a.ID, ea.Term, sum(ea.Data), b.ID, eb.Term, sum(eb.Data))
						}
					}
				}
			}
		}
	}
}

// collect runs a garbage collection after every 16th world: a world is megabytes of Badger arenas and table buffers
// that die with it, thousands of worlds per minute; on a loaded machine the concurrent collector fell gigabytes behind
// (workers at 1.7 GB resident with a live heap of 50 MB, some dying at their address-space limit).
var closes int

func collect() {
	closes++
	if closes%16 == 0 {
		runtime.GC()
	}
}
