package sim

import (
	"context"
	"fmt"
	"os"
	"sort"
	"time"

	"anndbverif/vrt"
	"anndbverif/vrt/fakes"
	"anndbverif/world"

	etcdRaft "github.com/coreos/etcd/raft"
	"github.com/coreos/etcd/raft/raftpb"
	"github.com/golang/protobuf/proto"
	pb "github.com/marekgalovic/anndb/protobuf"
)

// Servers is a simulated cluster of REAL anndb servers (real Server.setup(): zero group, shared
// group, nodes manager, dataset manager, allocator; partitions with real raft groups).
var debugNet = os.Getenv("VERIF_DEBUG_NET") != ""

type Servers struct {
	S          *vrt.Sched
	Nodes      []*world.SNode
	Net        []*Msg
	Violations []Violation
	seq        int
	// Durable counts the durable writes each node has started so far; crashArmed holds pending crash orders.
	Durable    map[uint64]int
	crashArmed map[uint64]crashSpec
	// Opposite: transitions run under the opposite of the default schedule (see oppositePick).
	Opposite bool
	// Deaf members lose the appends and snapshots addressed to them (they lag behind; heartbeats and votes still arrive).
	Deaf map[uint64]bool
	// FailSend, when set, decides that the RPC carrying a raft message fails at the sender.
	FailSend func(from uint64, m raftpb.Message) bool
}

// NewServers creates the world (no node started yet).
func NewServers() *Servers {
	world.Quiet()
	fakes.Reset()
	vrt.ResetContexts()
	w := &Servers{S: vrt.New(), Deaf: map[uint64]bool{}, Durable: map[uint64]int{}, crashArmed: map[uint64]crashSpec{}}
	w.S.Horizon = 20000000
	w.S.CrashGrace = true // an armed crash strikes once the node's other threads have run as far as they can
	w.S.OnDurable = func(t *vrt.Thread, site string, after bool) bool {
		id := nodeOf(t.Name)
		if !after {
			w.Durable[id]++
		}
		c, ok := w.crashArmed[id]
		if !ok || c.after != after {
			return false
		}
		c.count--
		if c.count > 0 {
			w.crashArmed[id] = c
			return false
		}
		delete(w.crashArmed, id)
		if n := w.Node(id); n != nil {
			n.Crashed = true
		}
		delete(fakes.Registry, world.ServerAddr(id))
		return true
	}
	fakes.Intercept = w.intercept
	w.S.Begin()
	return w
}

func (w *Servers) violate(key, format string, a ...interface{}) {
	for _, v := range w.Violations {
		if v.Key == key {
			return
		}
	}
	w.Violations = append(w.Violations, Violation{key, fmt.Sprintf(format, a...)})
}

// Add allocates node id (bootstrap node when join is empty).
func (w *Servers) Add(id uint64, join []string) *world.SNode {
	n := world.NewSNode(id, join)
	w.Nodes = append(w.Nodes, n)
	return n
}

func (w *Servers) Node(id uint64) *world.SNode {
	for _, n := range w.Nodes {
		if n.ID == id {
			return n
		}
	}
	return nil
}

// Close ends the execution and releases the disks.
func (w *Servers) Close() {
	defer collect()
	w.S.End()
	for _, n := range w.Nodes {
		n.Close()
	}
}

// Quiesce runs the default schedule until nothing is enabled; panics / Fatal inside a node are
// recorded and crash that node.
func (w *Servers) Quiesce() {
	var strat vrt.Strategy = defaultPick{}
	if w.Opposite {
		strat = oppositePick{}
	}
	r := w.S.Run(strat, nil)
	if t := w.S.Panicked(); t != nil {
		id := nodeOf(t.Name)
		w.violate("panic:"+panicSite(t.Stack), "thread %s panicked: %v\n%s", t.Name, t.Panic, trim(t.Stack))
		t.Panic = nil
		if n := w.Node(id); n != nil {
			n.Crashed = true
		}
		w.S.KillPrefix(fmt.Sprintf("n%d/", id))
		w.Quiesce()
		return
	}
	if w.S.Fatal != "" {
		w.violate("fatal", "log.Fatal inside a node: %s", w.S.Fatal)
		w.S.Fatal = ""
	}
	if r == vrt.HorizonHit {
		w.violate("horizon", "execution did not become quiescent")
	}
}

// Call runs f as a thread of node id and runs to quiescence; reports whether f returned.
func (w *Servers) Call(id uint64, what string, f func()) bool {
	w.seq++
	done := false
	w.S.Spawn(fmt.Sprintf("n%d/%s#%d", id, what, w.seq), false, func() { f(); done = true })
	w.Quiesce()
	return done
}

// Boot starts (or restarts) node id through the real Server.setup().
func (w *Servers) Boot(id uint64) error {
	n := w.Node(id)
	var err error
	if !w.Call(id, "setup", func() { err = n.Setup() }) && err == nil {
		err = fmt.Errorf("setup did not return")
	}
	return err
}

// Crash kills every thread of node id; its disk survives.
func (w *Servers) Crash(id uint64) {
	n := w.Node(id)
	n.Crashed = true
	w.S.KillPrefix(fmt.Sprintf("n%d/", id))
	delete(fakes.Registry, world.ServerAddr(id))
	// messages to a dead node are lost when delivered; messages from it stay in flight
}

// ArmCrash makes node id crash at its count-th durable write from now, before or after it.
func (w *Servers) ArmCrash(id uint64, count int, after bool) {
	w.crashArmed[id] = crashSpec{count, after}
}

// Disarm removes every pending crash order.
func (w *Servers) Disarm() { w.crashArmed = map[uint64]crashSpec{} }

func (w *Servers) intercept(target, method string, ctx context.Context, req interface{}) (bool, interface{}, error) {
	if method != "Receive" {
		return false, nil, nil
	}
	r := req.(*pb.RaftMessage)
	var m raftpb.Message
	if err := proto.Unmarshal(r.Message, &m); err != nil {
		return true, nil, err
	}
	from := nodeOf(vrt.CurrentName())
	if debugNet {
		fmt.Fprintf(os.Stderr, "    send %d>%d %s t%d i%d c%d n%d rej=%v\n", from, m.To, m.Type, m.Term, m.Index, m.Commit, len(m.Entries), m.Reject)
	}
	if w.FailSend != nil && w.FailSend(from, m) {
		// the RPC that carries this message fails (the sender is told so)
		return true, nil, fakes.ErrUnavailable
	}
	w.Net = append(w.Net, &Msg{From: from, To: m.To, Raw: r, M: m})
	return true, &pb.EmptyMessage{}, nil
}

// SortedNet returns the in-flight messages in canonical order.
func (w *Servers) SortedNet() []*Msg {
	out := append([]*Msg{}, w.Net...)
	sort.SliceStable(out, func(i, j int) bool { return out[i].Key() < out[j].Key() })
	return out
}

// Deliver hands m to its target (lost if the target is down).
func (w *Servers) Deliver(m *Msg) {
	for i, x := range w.Net {
		if x == m {
			w.Net = append(w.Net[:i], w.Net[i+1:]...)
			break
		}
	}
	n := w.Node(m.To)
	if n == nil || n.Crashed {
		return
	}
	if w.Deaf[m.To] && (m.M.Type == raftpb.MsgApp || m.M.Type == raftpb.MsgSnap) {
		return // a lagging member: appends and snapshots addressed to it are lost, heartbeats and votes arrive
	}
	reg := fakes.Registry[world.ServerAddr(m.To)]
	if reg == nil || reg.Raft == nil {
		return
	}
	w.Call(m.To, "deliver", func() {
		ctx, cancel := vrt.WithCancel(context.Background())
		defer cancel()
		_, err := reg.Raft.Receive(ctx, m.Raw)
		if debugNet {
			fmt.Fprintf(os.Stderr, "    deliver %d>%d %s t%d i%d c%d n%d rej=%v -> %v\n", m.From, m.To, m.M.Type, m.M.Term, m.M.Index, m.M.Commit, len(m.M.Entries), m.M.Reject, err)
		}
	})
}

// Drain delivers messages until none is in flight (bounded).
func (w *Servers) Drain() {
	for i := 0; i < 2000 && len(w.Net) > 0; i++ {
		w.Deliver(w.SortedNet()[0])
	}
	if len(w.Net) > 0 {
		w.violate("network-never-drains", "%d messages still in flight after 2000 deliveries", len(w.Net))
	}
}

// Tick fires every raft tick ticker of node id k times (zero group and partition groups).
func (w *Servers) Tick(id uint64, k int) {
	for i := 0; i < k; i++ {
		for _, t := range w.S.Timers() {
			if t.Kind == "ticker" && t.D == 100*time.Millisecond && t.Armed() && nodeOf(t.Creator) == id {
				w.S.Fire(t)
			}
		}
		w.Quiesce()
	}
}

// SnapshotTick fires every snapshot ticker of node id.
func (w *Servers) SnapshotTick(id uint64) {
	for _, t := range w.S.Timers() {
		if t.Kind == "ticker" && t.D == 10*time.Second && t.Armed() && nodeOf(t.Creator) == id {
			w.S.Fire(t)
		}
	}
	w.Quiesce()
}

// FireDeadlines fires every armed proposal / request deadline created by threads of node id
// (time passes for a blocked caller).
func (w *Servers) FireDeadlines(id uint64) int {
	n := 0
	for _, t := range w.S.Timers() {
		if t.Kind == "deadline" && t.Armed() && nodeOf(t.Creator) == id {
			w.S.Fire(t)
			n++
		}
	}
	w.Quiesce()
	return n
}

// ZeroLeader returns the id of the live node that leads the zero group (0 if none).
func (w *Servers) ZeroLeader() uint64 {
	for _, n := range w.Nodes {
		if n.Crashed || n.Srv == nil {
			continue
		}
		var st etcdRaft.Status
		ok := w.Call(n.ID, "status", func() { st = n.Srv.VerifZeroGroup().VerifStatus() })
		if ok && st.RaftState == etcdRaft.StateLeader {
			return n.ID
		}
	}
	return 0
}

// Settle lets the cluster make progress until it is stable: deliver everything, one heartbeat
// from every node (leaders broadcast, followers count towards their election timeout but far
// below it), a few rounds.
func (w *Servers) Settle(rounds int) {
	for r := 0; r < rounds; r++ {
		w.Drain()
		for _, n := range w.Nodes {
			if !n.Crashed {
				w.Tick(n.ID, 1)
			}
		}
	}
	w.Drain()
}
