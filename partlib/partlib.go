// Package partlib drives the real partition state machine (storage.partition through the
// verif hooks) one replicated log entry at a time and mirrors it with a Go map.
// Requires the instrumented build (deterministic uuid stream).
package partlib

import (
	"fmt"
	"reflect"
	"sort"
	"strings"
	"sync"

	"anndbverif/idxlib"
	"anndbverif/vrt"
	"anndbverif/world"

	"github.com/golang/protobuf/proto"
	"github.com/marekgalovic/anndb/index"
	pb "github.com/marekgalovic/anndb/protobuf"
	"github.com/marekgalovic/anndb/storage"
	uuid "github.com/satori/go.uuid"
)

// ItemSpec is one item of an operation.
type ItemSpec struct {
	ID   int `json:"id"`
	Vec  int `json:"vec"`
	Meta int `json:"meta"`
}

// Op is one log entry.
type Op struct {
	// ins upd rem bins bupd brem; "restore-fresh" / "restore-used" are not log entries: snapshot the replica, restore
	// the bytes into a fresh / a used replica and continue on that one - what a lagging or re-used replica does;
	// the contents must not change
	Kind  string     `json:"op"`
	Items []ItemSpec `json:"items"`
}

func (o Op) String() string {
	if IsRestore(o) {
		return "snapshot->" + o.Kind
	}
	var s []string
	for _, it := range o.Items {
		s = append(s, fmt.Sprintf("%s/v%d/m%d", string(rune('a'+it.ID)), it.Vec, it.Meta))
	}
	return o.Kind + "(" + strings.Join(s, ",") + ")"
}

// Metas: what protobuf can deliver. 0 = absent (nil map; an empty map is indistinguishable on the wire).
var Metas = []map[string]string{
	nil,
	{"k": "v1"},
	{"k": "", "j": "xx"},  // empty value overriding
	{"k": "longer-value"}, // changes byte size on update
	{"n": "1"},            // disjoint key: merge keeps old keys
}

// BigMetas appends three large shapes used by the directed merge-boundary sequences (not by the BFS alphabet):
// 5 = 32768 keys a*, 6 = 32768 keys b* (union with 5: 65536 entries, one more than the snapshot format can count),
// 7 = 32767 keys c* (union with 5: exactly 65535).
func BigMetas() {
	if len(Metas) > 5 {
		return
	}
	for _, sh := range []struct {
		p string
		n int
	}{{"a", 32768}, {"b", 32768}, {"c", 32767}} {
		m := make(map[string]string, sh.n)
		for i := 0; i < sh.n; i++ {
			m[fmt.Sprintf("%s%05d", sh.p, i)] = ""
		}
		Metas = append(Metas, m)
	}
}

// MBMetas appends (after the BigMetas shapes) four shapes on both sides of the byte limits of the snapshot format,
// made of multi-byte characters so that a character count and a byte count disagree:
// 8 = key of 86 three-byte characters (258 bytes: one byte field cannot hold it - must be refused),
// 9 = key of 85 such characters (255 bytes: the longest storable key) with a two-byte value,
// 10 = value of 21846 three-byte characters (65538 bytes: must be refused), 11 = value of 21845 (65535 bytes: storable).
func MBMetas() {
	BigMetas()
	if len(Metas) > 8 {
		return
	}
	Metas = append(Metas,
		map[string]string{strings.Repeat("\u9375", 86): "v"},
		map[string]string{strings.Repeat("\u9375", 85): "\u00e9"},
		map[string]string{"k": strings.Repeat("\u5024", 21846)},
		map[string]string{"k": strings.Repeat("\u5024", 21845)},
	)
}

// WSMetas appends (after the MBMetas shapes) keys that differ only in surrounding white space - different keys:
// 12 = {"k ": w1}, 13 = {" k": w2, "k": w3, "k\n": w4}.
func WSMetas() {
	MBMetas()
	if len(Metas) > 12 {
		return
	}
	Metas = append(Metas,
		map[string]string{"k ": "w1"},
		map[string]string{" k": "w2", "k": "w3", "k\n": "w4"},
	)
}

// Storable is the reference's own statement of what the snapshot format can represent (a two-byte entry count, a
// one-byte key length, a two-byte value length - all in BYTES); deliberately not the repository's Validate.
func Storable(m map[string]string) bool {
	if len(m) > 65535 {
		return false
	}
	for k, v := range m {
		if len(k) > 255 || len(v) > 65535 {
			return false
		}
	}
	return true
}

// index 3 has the wrong dimension (only used by dataset-level checks); index 4 differs from index 0 by a few units in the
// last place of one component (an update by a tiny step is still an update)
var Vecs = [][]float32{{1, 1}, {2, 1}, {3, 3}, {1}, {1.0000005, 1}}

// LevelOf fixes the level an id is proposed with (drawn by the proposer, part of the entry).
func LevelOf(id int) int32 { return int32([]int{0, 1, 0, 2}[id%4]) }

func cloneMeta(m map[string]string) map[string]string {
	if m == nil {
		return nil
	}
	o := map[string]string{}
	for k, v := range m {
		o[k] = v
	}
	return o
}

// Entry builds the marshalled PartitionChange for op with notification id nid.
func Entry(o Op, nid uuid.UUID) []byte {
	ch := &pb.PartitionChange{NotificationId: nid.Bytes()}
	item := func(it ItemSpec) *pb.BatchItem {
		return &pb.BatchItem{Id: idxlib.IDs[it.ID].Bytes(), Value: append([]float32{}, Vecs[it.Vec]...), Metadata: cloneMeta(Metas[it.Meta]), Level: LevelOf(it.ID)}
	}
	switch o.Kind {
	case "ins":
		ch.Type = pb.PartitionChangeType_PartitionChangeInsertValue
		b := item(o.Items[0])
		ch.Id, ch.Value, ch.Metadata, ch.Level = b.Id, b.Value, b.Metadata, b.Level
	case "upd":
		ch.Type = pb.PartitionChangeType_PartitionChangeUpdateValue
		b := item(o.Items[0])
		ch.Id, ch.Value, ch.Metadata = b.Id, b.Value, b.Metadata
	case "rem":
		ch.Type = pb.PartitionChangeType_PartitionChangeDeleteValue
		ch.Id = idxlib.IDs[o.Items[0].ID].Bytes()
	case "bins", "bupd", "brem":
		ch.Type = map[string]pb.PartitionChangeType{"bins": pb.PartitionChangeType_PartitionChangeBatchInsertValue, "bupd": pb.PartitionChangeType_PartitionChangeBatchUpdateValue, "brem": pb.PartitionChangeType_PartitionChangeBatchDeleteValue}[o.Kind]
		for _, it := range o.Items {
			b := item(it)
			if o.Kind == "brem" {
				b.Value, b.Metadata, b.Level = nil, nil, 0
			}
			if o.Kind == "bupd" {
				b.Level = 0
			}
			ch.BatchItems = append(ch.BatchItems, b)
		}
	}
	data, err := proto.Marshal(ch)
	if err != nil {
		panic(err)
	}
	return data
}

// Outcome is the canonical form of what an entry reports: "" = ok, else per-id errors.
type Outcome string

// RefApply applies o to the reference map and returns the expected outcome.
func RefApply(ref idxlib.Ref, o Op) Outcome {
	errs := map[string]string{}
	one := func(kind string, it ItemSpec) string {
		id := idxlib.IDs[it.ID]
		cur, exists := ref[id]
		switch kind {
		case "ins":
			if !Storable(Metas[it.Meta]) {
				// what the snapshot format cannot represent is refused (before anything else is looked at)
				return index.MetadataTooLargeError.Error()
			}
			if exists {
				return index.ItemAlreadyExistsError.Error()
			}
			ref[id] = &idxlib.Item{Vec: Vecs[it.Vec], Meta: cloneMeta(Metas[it.Meta]), Level: int(LevelOf(it.ID))}
		case "upd":
			if !exists {
				return index.ItemNotFoundError.Error()
			}
			m := cloneMeta(Metas[it.Meta])
			if m == nil {
				m = map[string]string{}
			}
			for k, v := range cur.Meta {
				if _, has := m[k]; !has {
					m[k] = v
				}
			}
			if !Storable(m) {
				// what the update would store cannot be stored: refused, nothing changes
				return index.MetadataTooLargeError.Error()
			}
			ref[id] = &idxlib.Item{Vec: Vecs[it.Vec], Meta: m, Level: cur.Level}
		case "rem":
			if !exists {
				return index.ItemNotFoundError.Error()
			}
			delete(ref, id)
		}
		return ""
	}
	switch o.Kind {
	case "ins", "upd", "rem":
		return Outcome(one(o.Kind, o.Items[0]))
	}
	for _, it := range o.Items {
		if e := one(o.Kind[1:], it); e != "" {
			errs[idxlib.Name(idxlib.IDs[it.ID])] = e
		}
	}
	return canonErrs(errs)
}

func canonErrs(errs map[string]string) Outcome {
	if len(errs) == 0 {
		return "batch-ok"
	}
	var ks []string
	for k := range errs {
		ks = append(ks, k)
	}
	sort.Strings(ks)
	var sb strings.Builder
	sb.WriteString("batch:")
	for _, k := range ks {
		fmt.Fprintf(&sb, "%s=%s;", k, errs[k])
	}
	return Outcome(sb.String())
}

// Replica is one real partition state machine.
type Replica struct {
	P *storage.VerifPartition
}

var uuidMu sync.Mutex

func NewReplica() *Replica {
	uuidMu.Lock()
	defer uuidMu.Unlock()
	saved := vrt.UUIDCounter()
	defer vrt.SetInactiveUUIDCounter(saved)
	vrt.SetInactiveUUIDCounter(7) // always the same dataset/partition ids: the shared DB is written once
	p, err := storage.VerifStandalonePartition(pb.Dataset{Dimension: 2, Space: pb.Space_Euclidean, ReplicationFactor: 1}, world.SharedDB())
	if err != nil {
		panic(err)
	}
	return &Replica{P: p}
}

// NotifID is the deterministic notification id of log position i.
func NotifID(i int) uuid.UUID {
	uuidMu.Lock()
	defer uuidMu.Unlock()
	saved := vrt.UUIDCounter()
	defer vrt.SetInactiveUUIDCounter(saved)
	vrt.SetInactiveUUIDCounter(uint64(1000 + i))
	return uuid.NewV4()
}

// ExpectAt registers the notification channel of log position i on the replica (so that an
// entry applied through raft reports its outcome there).
func (r *Replica) ExpectAt(i int) (<-chan interface{}, uuid.UUID) {
	uuidMu.Lock()
	defer uuidMu.Unlock()
	saved := vrt.UUIDCounter()
	defer vrt.SetInactiveUUIDCounter(saved)
	vrt.SetInactiveUUIDCounter(uint64(1000 + i))
	return r.P.Expect()
}

// Canon converts a raw notification value into an Outcome.
func Canon(res interface{}, batch bool) Outcome { return canonOutcome(res, batch) }

// Apply feeds the entry of log position i to the replica and returns the outcome it reports.
// applyErr is the error process() itself returned (a non-nil value makes the raft loop Fatal).
func (r *Replica) Apply(i int, data []byte, batch bool) (out Outcome, applyErr error, panicked interface{}) {
	defer func() {
		if x := recover(); x != nil {
			panicked = x
		}
	}()
	uuidMu.Lock()
	saved := vrt.UUIDCounter()
	vrt.SetInactiveUUIDCounter(uint64(1000 + i))
	ch, nid := r.P.Expect()
	vrt.SetInactiveUUIDCounter(saved)
	uuidMu.Unlock()
	defer r.P.Unexpect(nid)
	if nid != NotifID(i) {
		panic("partlib: notification id stream out of step")
	}
	if err := r.P.Apply(data); err != nil {
		return "", err, nil
	}
	select {
	case res := <-ch:
		return canonOutcome(res, batch), nil, nil
	default:
		return "no-outcome-reported", nil, nil
	}
}

func canonOutcome(res interface{}, batch bool) Outcome {
	if res == nil {
		if batch {
			return "batch-nil"
		}
		return ""
	}
	if e, ok := res.(error); ok {
		return Outcome(e.Error())
	}
	v := reflect.ValueOf(res)
	if v.Kind() == reflect.Map {
		errs := map[string]string{}
		it := v.MapRange()
		for it.Next() {
			id := it.Key().Interface().(uuid.UUID)
			errs[idxlib.Name(id)] = fmt.Sprint(it.Value().Interface())
		}
		return canonErrs(errs)
	}
	return Outcome(fmt.Sprintf("unexpected:%v", res))
}

// DataBytes is the exact byte count of the live items' data in ref (id + vector + metadata).
func DataBytes(ref idxlib.Ref) uint64 {
	var n uint64
	for _, it := range ref {
		n += 16 + 4*uint64(len(it.Vec))
		for k, v := range it.Meta {
			n += uint64(len(k) + len(v))
		}
	}
	return n
}

// CheckCounters checks the byte-size clauses of C02 on a replica against ref.
func CheckCounters(r *Replica, ref idxlib.Ref) (string, string) {
	d := r.P.Index().VerifDump()
	want := DataBytes(ref)
	if d.DataBytes != want {
		k := "data-bytes-drift"
		if d.DataBytes > 1<<62 {
			k = "data-bytes-wrapped"
		}
		return k, fmt.Sprintf("data byte counter = %d, live items hold exactly %d bytes", d.DataBytes, want)
	}
	bs := r.P.BytesSize()
	if bs < want || bs > want+uint64(len(ref))*4096 {
		return "bytes-size-out-of-range", fmt.Sprintf("BytesSize()=%d, data bytes %d, %d items", bs, want, len(ref))
	}
	if r.P.Len() != len(ref) {
		return "len-mismatch", fmt.Sprintf("len()=%d, %d live ids", r.P.Len(), len(ref))
	}
	return "", ""
}

// Alphabet returns the operations enabled in every state (the partition accepts everything).
func Alphabet(thorough bool) []Op {
	var out []Op
	ids := []int{0, 1, 2}
	for _, id := range ids {
		for _, v := range []int{0, 1} {
			for _, m := range []int{0, 1, 2} {
				out = append(out, Op{"ins", []ItemSpec{{id, v, m}}})
			}
			for _, m := range []int{0, 2, 3, 4} {
				if !thorough && id == 2 && v == 1 {
					continue
				}
				out = append(out, Op{"upd", []ItemSpec{{id, v, m}}})
			}
		}
		out = append(out, Op{"rem", []ItemSpec{{id, 0, 0}}})
	}
	// a vector a hair's breadth from another one, with metadata that changes nothing
	out = append(out, Op{"upd", []ItemSpec{{0, 4, 0}}}, Op{"upd", []ItemSpec{{1, 4, 1}}}, Op{"ins", []ItemSpec{{2, 4, 0}}})
	out = append(out,
		Op{"bins", []ItemSpec{{0, 0, 1}, {1, 1, 0}}},
		Op{"bins", []ItemSpec{{2, 2, 2}, {2, 0, 0}}}, // duplicate inside the batch
		Op{"bins", []ItemSpec{{1, 0, 3}, {2, 1, 1}, {0, 2, 0}}},
		Op{"bupd", []ItemSpec{{0, 1, 2}, {1, 0, 0}}},
		Op{"bupd", []ItemSpec{{2, 2, 4}, {2, 0, 3}}},
		Op{"bupd", []ItemSpec{{0, 0, 0}, {1, 1, 3}, {2, 0, 2}}},
		Op{"bupd", []ItemSpec{{1, 1, 0}, {0, 1, 0}, {2, 0, 0}}}, // several items that bring no metadata of their own
		Op{"brem", []ItemSpec{{0, 0, 0}, {1, 0, 0}}},
		Op{"brem", []ItemSpec{{2, 0, 0}, {2, 0, 0}}},
		Op{"brem", []ItemSpec{{1, 0, 0}}},
	)
	return out
}

func IsBatch(o Op) bool { return len(o.Kind) == 4 }

// RestoreOps are the two snapshot->restore steps (into a fresh and into a used replica).
func RestoreOps() []Op {
	return []Op{{Kind: "restore-fresh"}, {Kind: "restore-used"}}
}

func IsRestore(o Op) bool { return strings.HasPrefix(o.Kind, "restore-") }

// DoRestore performs a restore step and returns the replica to continue on.
func DoRestore(r *Replica, o Op) (*Replica, error) {
	snap, err := r.P.Snapshot()
	if err != nil {
		return nil, fmt.Errorf("snapshot: %v", err)
	}
	nr := NewReplica()
	if o.Kind == "restore-used" {
		nr = UsedReplica()
	}
	if err := nr.P.Restore(snap); err != nil {
		return nil, fmt.Errorf("restoring the %d-byte snapshot: %v", len(snap), err)
	}
	return nr, nil
}

// UsedReplica is a replica that holds the contents of another log (a lagging or re-used replica about to
// restore a snapshot): items a (other vector, other metadata), d, and a removed b.
func UsedReplica() *Replica {
	d := NewReplica()
	other := []Op{
		{Kind: "ins", Items: []ItemSpec{{ID: 0, Vec: 2, Meta: 4}}},
		{Kind: "ins", Items: []ItemSpec{{ID: 3, Vec: 1, Meta: 1}}},
		{Kind: "ins", Items: []ItemSpec{{ID: 1, Vec: 0, Meta: 0}}},
		{Kind: "rem", Items: []ItemSpec{{ID: 1}}},
	}
	for i, o := range other {
		d.Apply(500+i, Entry(o, NotifID(500+i)), false)
	}
	return d
}
