// Package explore is E1: a stateless, deviation-bounded depth-first explorer over the real
// code running under the vrt scheduler (iterative context bounding: preemptions and
// environment deviations share one budget).
package explore

import (
	"bufio"
	"crypto/sha1"
	"encoding/hex"
	"encoding/json"
	"fmt"
	"os"
	"os/exec"
	"regexp"
	"runtime"
	"runtime/pprof"
	"sort"
	"strconv"
	"strings"
	"sync"
	"time"

	"anndbverif/lib/ev"
	"anndbverif/vrt"
)

// Violation is what a scenario's check returns for a violating execution.
type Violation struct {
	Key  string // structural witness class
	Desc string
}

// Exec is one execution of a scenario.
type Exec struct {
	S        *vrt.Sched
	prefix   []int
	Choices  []int
	nAlts    []int
	costs    [][]int
	diverged string
	Outcome  string // scenario-defined observable outcome (for distinct-outcome counting)
	cleanup  []func()
}

// Pick implements vrt.Strategy: replay the prefix, then the default.
func (x *Exec) Pick(s *vrt.Sched, alts []vrt.Alt, costs []int) int {
	i := len(x.Choices)
	c := 0
	if i < len(x.prefix) {
		c = x.prefix[i]
		if c >= len(alts) {
			x.diverged = fmt.Sprintf("choice %d of prefix is %d but only %d alternatives are enabled (%v)", i, c, len(alts), alts)
			return -1
		}
	}
	if debugAlts {
		fmt.Fprintf(os.Stderr, "choice %d: take %d of", i, c)
		for k, a := range alts {
			fmt.Fprintf(os.Stderr, " [%d c%d %s]", k, costs[k], a.String())
		}
		fmt.Fprintln(os.Stderr)
	}
	x.Choices = append(x.Choices, c)
	x.nAlts = append(x.nAlts, len(alts))
	x.costs = append(x.costs, append([]int{}, costs...))
	return c
}

// Quiesce runs the default schedule until nothing is enabled, without recording choices
// (set-up phases). It is a tool error if it does not become quiescent within the horizon.
func (x *Exec) Quiesce() {
	if r := x.S.Run(defaultStrategy{}, nil); r != vrt.Quiescent {
		if t := x.S.Panicked(); t != nil {
			ev.Tool("set-up phase panicked in %s: %v\n%s", t.Name, t.Panic, t.Stack)
		}
		ev.Tool("set-up phase did not become quiescent (reason %d): %v", r, x.S.Blocked())
	}
}

// OnCleanup registers a function run after the execution ended (close DBs, conns).
func (x *Exec) OnCleanup(f func()) { x.cleanup = append(x.cleanup, f) }

var debugAlts = os.Getenv("VERIF_DEBUG_ALTS") != ""

type defaultStrategy struct{}

func (defaultStrategy) Pick(s *vrt.Sched, alts []vrt.Alt, costs []int) int { return 0 }

// Scenario is one closed system: Build constructs a fresh world inside the active execution,
// spawns its threads and returns the oracle, evaluated when the execution has ended.
type Scenario struct {
	Name   string
	Params map[string]interface{}
	// Configure may adjust the scheduler before Build (AtomicPoints, OfferTimers, MapPolicy, ...).
	Configure func(s *vrt.Sched)
	Build     func(x *Exec) func(end vrt.EndReason) *Violation
	// StopWhenMainDone ends the execution as soon as every main thread has finished (leftover
	// background threads are not run to quiescence).
	StopWhenMainDone bool
	// PostCheck, when set, is evaluated in the parent on the merged outcome counts of this scenario
	// (properties about the SET of reachable outcomes, e.g. independence).
	PostCheck func(outcomes map[string]int) *Violation
	// KeyNamesBound: a violation's key gets the suffix ":first-seen-with-<b>-deviations" - the smallest deviation bound at
	// which the scenario shows it (bounds are explored in ascending order). A known finding recorded that way does not
	// hide the same damage arriving with fewer deviations.
	KeyNamesBound bool
	// MaxBound / MaxBoundQuick cap the deviation bound for this scenario (0 = use the run's bound).
	MaxBound      int
	MaxBoundQuick int
}

type execResult struct {
	choices []int
	nAlts   []int
	costs   [][]int
	viol    *Violation
	outcome string
	points  int
	horizon bool
	trace   []string
}

func runOnce(sc *Scenario, prefix []int, keepTrace bool) execResult {
	s := vrt.New()
	s.KeepTrace = keepTrace
	if sc.Configure != nil {
		sc.Configure(s)
	}
	x := &Exec{S: s, prefix: prefix}
	vrt.ResetContexts()
	s.Begin()
	check := sc.Build(x)
	var stop func() bool
	if sc.StopWhenMainDone {
		stop = func() bool { return len(s.MainUnfinished()) == 0 }
	}
	end := s.Run(x, stop)
	var v *Violation
	if x.diverged != "" {
		ev.Tool("scenario %s: nondeterministic replay: %s\nprefix=%v", sc.Name, x.diverged, prefix)
	}
	if len(x.Choices) < len(prefix) {
		ev.Tool("scenario %s: nondeterministic replay: execution ended after %d choice points, prefix has %d", sc.Name, len(x.Choices), len(prefix))
	}
	if t := s.Panicked(); t != nil {
		v = &Violation{Key: "panic:" + panicSite(t.Stack), Desc: fmt.Sprintf("thread %s panicked: %v\n%s", t.Name, t.Panic, trimStack(t.Stack))}
	} else {
		v = check(end)
	}
	res := execResult{choices: x.Choices, nAlts: x.nAlts, costs: x.costs, viol: v, outcome: x.Outcome, points: s.Points, horizon: s.HitHorizon, trace: s.Trace}
	s.End()
	for _, f := range x.cleanup {
		func() {
			// a killed thread may have died holding a (shim) lock that a Close wants: releasing
			// resources is best effort
			defer func() { recover() }()
			f()
		}()
	}
	return res
}

func panicSite(stack string) string {
	// first frame inside /repo
	for _, l := range strings.Split(stack, "\n") {
		l = strings.TrimSpace(l)
		if strings.HasPrefix(l, "/repo/") {
			if i := strings.Index(l, " "); i > 0 {
				l = l[:i]
			}
			if j := strings.LastIndex(l, ":"); j > 0 {
				var n int
				fmt.Sscanf(l[j+1:], "%d", &n)
				l = fmt.Sprintf("%s:%d", l[:j], n-vrt.LineOffset(l[:j]))
			}
			return strings.TrimPrefix(l, "/repo/")
		}
	}
	return "?"
}

func trimStack(s string) string {
	lines := strings.Split(s, "\n")
	var out []string
	for _, l := range lines {
		if strings.Contains(l, "/repo/") || strings.Contains(l, "anndb") {
			out = append(out, l)
		}
		if len(out) > 24 {
			break
		}
	}
	return strings.Join(out, "\n")
}

// Stats of one (scenario, bound) exploration.
type Stats struct {
	Scenario   string           `json:"scenario"`
	Bound      int              `json:"bound"`
	Executions int              `json:"executions"`
	Points     int              `json:"points"`
	MaxChoices int              `json:"max_choice_points"`
	Horizon    int              `json:"horizon_hits"`
	Outcomes   map[string]int   `json:"outcomes"`
	Complete   bool             `json:"complete"`
	Violations []FoundViolation `json:"violations"`
	Sample     []string         `json:"sample_schedule,omitempty"`
	WallS      float64          `json:"wall_s"`
}

type FoundViolation struct {
	Key     string `json:"key"`
	Desc    string `json:"desc"`
	Choices []int  `json:"choices"`
	Count   int    `json:"count"`
}

type dfs struct {
	sc            *Scenario
	bound         int
	deadline      time.Time
	st            *Stats
	viol          map[string]*FoundViolation
	shard, nshard int
	rootChild     int
}

func (d *dfs) explore(prefix []int, depth int) bool {
	if !d.deadline.IsZero() && time.Now().After(d.deadline) {
		d.st.Complete = false
		return false
	}
	r := runOnce(d.sc, prefix, false)
	d.st.Executions++
	d.st.Points += r.points
	if len(r.choices) > d.st.MaxChoices {
		d.st.MaxChoices = len(r.choices)
	}
	if r.horizon {
		d.st.Horizon++
	}
	d.st.Outcomes[r.outcome]++
	if r.viol != nil {
		fv := d.viol[r.viol.Key]
		if fv == nil {
			fv = &FoundViolation{Key: r.viol.Key, Desc: r.viol.Desc, Choices: append([]int{}, r.choices...)}
			d.viol[r.viol.Key] = fv
		}
		fv.Count++
	}
	// children
	cum := 0
	for i := 0; i < len(r.choices); i++ {
		if i >= len(prefix) {
			for alt := 1; alt < r.nAlts[i]; alt++ {
				if cum+r.costs[i][alt] > d.bound {
					continue
				}
				if depth == 0 && d.nshard > 1 {
					d.rootChild++
					if d.rootChild%d.nshard != d.shard {
						continue
					}
				}
				child := append(append([]int{}, r.choices[:i]...), alt)
				if !d.explore(child, depth+1) {
					return false
				}
			}
		}
		cum += r.costs[i][r.choices[i]]
	}
	return true
}

// ExploreShard explores one shard of (scenario, bound) in this process.
func ExploreShard(sc *Scenario, bound, shard, nshard int, budget time.Duration) *Stats {
	st := &Stats{Scenario: sc.Name, Bound: bound, Outcomes: map[string]int{}, Complete: true}
	d := &dfs{sc: sc, bound: bound, st: st, viol: map[string]*FoundViolation{}, shard: shard, nshard: nshard}
	if budget > 0 {
		d.deadline = time.Now().Add(budget)
	}
	start := time.Now()
	if pf := os.Getenv("VERIF_CPUPROFILE"); pf != "" {
		f, _ := os.Create(pf)
		pprof.StartCPUProfile(f)
		defer pprof.StopCPUProfile()
	}
	if shard == 0 {
		// determinism self-check: the default schedule twice
		a := runOnce(sc, nil, true)
		b := runOnce(sc, nil, true)
		if strings.Join(a.trace, "\n") != strings.Join(b.trace, "\n") || a.outcome != b.outcome {
			ev.Tool("scenario %s is not deterministic: two runs of the default schedule differ\nA(%s): %v\nB(%s): %v", sc.Name, a.outcome, firstDiff(a.trace, b.trace), b.outcome, "")
		}
		st.Sample = a.trace
		if len(st.Sample) > 60 {
			st.Sample = st.Sample[:60]
		}
	}
	d.explore(nil, 0)
	if shard != 0 && nshard > 1 {
		// the root execution itself is counted by shard 0 only
		st.Executions--
	}
	keys := make([]string, 0, len(d.viol))
	for k := range d.viol {
		keys = append(keys, k)
	}
	sort.Strings(keys)
	for _, k := range keys {
		st.Violations = append(st.Violations, *d.viol[k])
	}
	st.WallS = time.Since(start).Seconds()
	return st
}

func firstDiff(a, b []string) string {
	for i := 0; i < len(a) && i < len(b); i++ {
		if a[i] != b[i] {
			return fmt.Sprintf("step %d: %q vs %q", i, a[i], b[i])
		}
	}
	return fmt.Sprintf("lengths %d vs %d", len(a), len(b))
}

// Replay runs one recorded schedule and returns its trace and violation.
func Replay(sc *Scenario, choices []int) ([]string, *Violation, string) {
	r := runOnce(sc, choices, true)
	return r.trace, r.viol, r.outcome
}

// ---- multi-process driver -----------------------------------------------------------------

type job struct {
	Scenario int
	Bound    int
	Shard    int
	NShard   int
}

// Plan says which bounds to run per tier.
type Plan struct {
	QuickBound, ThoroughBound   int
	QuickBudget, ThoroughBudget time.Duration // per process
	Shards                      int           // processes per (scenario,bound) at the top bound
	// Before runs in the parent before the exploration; it may report violations and returns extra
	// coverage keys (evaluations / distinct_nontrivial are added to the totals).
	Before func(run *ev.Run) ev.Coverage
}

// Main is the entry point of an E1 harness binary.
func Main(id string, scenarios []*Scenario, plan Plan, level string, assumptions []string) {
	args := os.Args[1:]
	if len(args) >= 1 && args[0] == "--child" {
		var j job
		if err := json.Unmarshal([]byte(args[1]), &j); err != nil {
			ev.Tool("bad child job: %v", err)
		}
		runtime.GOMAXPROCS(1)
		budget := plan.QuickBudget
		if os.Getenv("VERIF_TIER") == "thorough" {
			budget = plan.ThoroughBudget
		}
		st := ExploreShard(scenarios[j.Scenario], j.Bound, j.Shard, j.NShard, budget)
		b, _ := json.Marshal(st)
		fmt.Printf("RESULT %s\n", b)
		return
	}
	if len(args) >= 2 && args[0] == "--replay" {
		replayFile(id, scenarios, args[1])
		return
	}
	run := ev.Start(id, level)
	run.Assumptions = assumptions
	maxBound := plan.QuickBound
	if run.Thorough() {
		maxBound = plan.ThoroughBound
	}
	// borrowed phase (ev.RunPart): the borrowing check may cap the bound and select scenarios
	var onlyRx *regexp.Regexp
	if os.Getenv("VERIF_AS") != "" {
		if mb := os.Getenv("VERIF_PART_MAXBOUND"); mb != "" {
			n, err := strconv.Atoi(mb)
			if err != nil {
				ev.Tool("VERIF_PART_MAXBOUND: %v", err)
			}
			if n < maxBound {
				maxBound = n
			}
		}
		if rx := os.Getenv("VERIF_PART_SCENARIOS"); rx != "" {
			var err error
			if onlyRx, err = regexp.Compile(rx); err != nil {
				ev.Tool("VERIF_PART_SCENARIOS: %v", err)
			}
		}
	}
	var extra ev.Coverage
	if plan.Before != nil && os.Getenv("VERIF_PART_SKIP_BEFORE") == "" {
		extra = plan.Before(run)
	}
	var jobs []job
	for b := 0; b <= maxBound; b++ {
		for i, sc := range scenarios {
			if onlyRx != nil && !onlyRx.MatchString(sc.Name) {
				continue
			}
			if sc.MaxBound > 0 && b > sc.MaxBound {
				continue
			}
			if !run.Thorough() && sc.MaxBoundQuick > 0 && b > sc.MaxBoundQuick {
				continue
			}
			n := 1
			if b == maxBound && plan.Shards > 1 && b >= 2 {
				n = plan.Shards
			}
			for s := 0; s < n; s++ {
				jobs = append(jobs, job{i, b, s, n})
			}
		}
	}
	results := make([]*Stats, len(jobs))
	var wg sync.WaitGroup
	sem := make(chan struct{}, runtime.NumCPU())
	self, _ := os.Executable()
	var failMu sync.Mutex
	var toolFail string
	for ji := range jobs {
		wg.Add(1)
		go func(ji int) {
			defer wg.Done()
			sem <- struct{}{}
			defer func() { <-sem }()
			jb, _ := json.Marshal(jobs[ji])
			cmd := exec.Command(self, "--child", string(jb))
			cmd.Env = append(os.Environ(), "GOMAXPROCS=1")
			cmd.Stderr = os.Stderr
			out, err := cmd.StdoutPipe()
			if err != nil {
				ev.Tool("%v", err)
			}
			if err := cmd.Start(); err != nil {
				ev.Tool("%v", err)
			}
			sc := bufio.NewScanner(out)
			sc.Buffer(make([]byte, 1<<20), 1<<26)
			for sc.Scan() {
				l := sc.Text()
				if strings.HasPrefix(l, "RESULT ") {
					var st Stats
					if err := json.Unmarshal([]byte(l[7:]), &st); err == nil {
						results[ji] = &st
					}
				}
			}
			if err := cmd.Wait(); err != nil || results[ji] == nil {
				failMu.Lock()
				toolFail = fmt.Sprintf("worker for job %v failed: %v", jobs[ji], err)
				failMu.Unlock()
			}
		}(ji)
	}
	wg.Wait()
	if toolFail != "" {
		ev.Tool("%s", toolFail)
	}
	// merge
	type agg struct {
		Execs, Points, Horizon int
		Complete               bool
		Outcomes               map[string]int
	}
	perBound := map[int]*agg{}
	perScenario := map[string]map[string]interface{}{}
	totalExec, totalPoints, totalHorizon := 0, 0, 0
	outcomes := map[string]int{}
	samples := &ev.Samples{N: 4}
	firstBound := map[string]int{}
	for ji, st := range results {
		j := jobs[ji]
		a := perBound[j.Bound]
		if a == nil {
			a = &agg{Complete: true, Outcomes: map[string]int{}}
			perBound[j.Bound] = a
		}
		a.Execs += st.Executions
		a.Points += st.Points
		a.Horizon += st.Horizon
		a.Complete = a.Complete && st.Complete
		totalExec += st.Executions
		totalPoints += st.Points
		totalHorizon += st.Horizon
		for k, v := range st.Outcomes {
			outcomes[scenarios[j.Scenario].Name+": "+k] += v
		}
		ps := perScenario[st.Scenario]
		if ps == nil {
			ps = map[string]interface{}{"executions": 0, "max_choice_points": 0}
			perScenario[st.Scenario] = ps
		}
		ps["executions"] = ps["executions"].(int) + st.Executions
		if st.MaxChoices > ps["max_choice_points"].(int) {
			ps["max_choice_points"] = st.MaxChoices
		}
		if len(st.Sample) > 0 && j.Bound == 0 {
			samples.Add(map[string]interface{}{"scenario": st.Scenario, "default_schedule": st.Sample})
		}
		for _, v := range st.Violations {
			// confirm by replaying 3x in this process before believing it
			sc := scenarios[j.Scenario]
			if sc.KeyNamesBound {
				if b, seen := firstBound[sc.Name+"\x00"+v.Key]; seen && b < j.Bound {
					continue // reported at the smaller bound already
				}
				firstBound[sc.Name+"\x00"+v.Key] = j.Bound
			}
			for k := 0; k < 3; k++ {
				_, rv, _ := Replay(sc, v.Choices)
				if rv == nil || rv.Key != v.Key {
					ev.Tool("violation %s in %s did not reproduce on replay %d (got %v): nondeterminism in the harness", v.Key, sc.Name, k, rv)
				}
			}
			key := v.Key
			if sc.KeyNamesBound {
				key = fmt.Sprintf("%s:first-seen-with-%d-deviations", v.Key, j.Bound)
			}
			run.Violation(key, fmt.Sprintf("[%s, bound %d, %d executions] %s", sc.Name, j.Bound, v.Count, v.Desc),
				map[string]interface{}{"scenario": sc.Name, "choices": v.Choices})
		}
	}
	for _, sc := range scenarios {
		if sc.PostCheck == nil {
			continue
		}
		own := map[string]int{}
		for k, v := range outcomes {
			if strings.HasPrefix(k, sc.Name+": ") {
				own[strings.TrimPrefix(k, sc.Name+": ")] = v
			}
		}
		if v := sc.PostCheck(own); v != nil {
			run.Violation(v.Key, fmt.Sprintf("[%s, all executions] %s", sc.Name, v.Desc), map[string]interface{}{"scenario": sc.Name, "choices": []int{}, "post_check": true})
		}
	}
	completed := -1
	for b := 0; b <= maxBound; b++ {
		if a := perBound[b]; a != nil && a.Complete && a.Horizon == 0 {
			completed = b
		} else {
			break
		}
	}
	bounds := map[string]interface{}{}
	for b, a := range perBound {
		bounds[fmt.Sprint(b)] = map[string]interface{}{"executions": a.Execs, "complete": a.Complete, "horizon_hits": a.Horizon}
	}
	distinct := len(outcomes)
	cov := ev.Coverage{
		"evaluations":                   totalExec,
		"distinct_nontrivial":           distinct,
		"rule":                          "every schedule (thread interleaving + environment answers) of each scenario with at most B deviations, B iterated from 0; one evaluation = one complete execution of the real code under the controlled scheduler; distinct = distinct (scenario, observable outcome) pairs",
		"states":                        totalPoints,
		"transitions":                   totalPoints,
		"traces_validated_against_impl": totalExec,
		"scheduling_points":             totalPoints,
		"max_bound_completed":           completed,
		"max_bound_attempted":           maxBound,
		"per_bound":                     bounds,
		"per_scenario":                  perScenario,
		"outcomes":                      outcomes,
		"horizon_hits":                  totalHorizon,
		"samples":                       samples.List(),
		"exhaustive":                    completed == maxBound,
		"explanation":                   "stateless DFS on the implementation itself; there is no separate model",
	}
	for k, v := range extra {
		switch k {
		case "evaluations", "distinct_nontrivial", "states", "transitions", "traces_validated_against_impl":
			cov[k] = cov[k].(int) + v.(int)
		case "rule":
			cov[k] = v.(string) + " | " + cov[k].(string)
		case "samples":
			cov[k] = append(v.([]interface{}), cov[k].([]interface{})...)
		default:
			cov[k] = v
		}
	}
	run.Finish(cov)
}

func replayFile(id string, scenarios []*Scenario, path string) {
	b, err := os.ReadFile(path)
	if err != nil {
		ev.Tool("%v", err)
	}
	var f struct {
		Replay struct {
			Scenario string `json:"scenario"`
			Choices  []int  `json:"choices"`
		} `json:"replay"`
	}
	if err := json.Unmarshal(b, &f); err != nil {
		ev.Tool("%v", err)
	}
	for _, sc := range scenarios {
		if sc.Name == f.Replay.Scenario {
			tr, v, out := Replay(sc, f.Replay.Choices)
			for i, t := range tr {
				fmt.Printf("%4d %s\n", i, t)
			}
			fmt.Printf("outcome: %s\n", out)
			if v != nil && ev.Counts(v.Key) {
				fmt.Printf("VIOLATION property=%s replay=%s\n  %s: %s\n", ev.As(id), path, v.Key, v.Desc)
				os.Exit(1)
			}
			fmt.Println("replay: property held")
			return
		}
	}
	ev.Tool("unknown scenario %q", f.Replay.Scenario)
}

// Hash is a short stable hash for outcome strings.
func Hash(s string) string {
	h := sha1.Sum([]byte(s))
	return hex.EncodeToString(h[:5])
}
