// Package idxlib is the shared reference model and oracle for the HNSW index checks
// (C01, C02, C04, C07, C08, C13).
package idxlib

import (
	"context"
	"fmt"
	"sort"
	"strings"

	"github.com/marekgalovic/anndb/index"
	"github.com/marekgalovic/anndb/index/space"
	uuid "github.com/satori/go.uuid"
)

// Item is the reference model's view of one stored item.
type Item struct {
	Vec   []float32
	Meta  map[string]string
	Level int
}

// Ref is the boring reference: a Go map.
type Ref map[uuid.UUID]*Item

func (r Ref) Clone() Ref {
	o := Ref{}
	for k, v := range r {
		m := map[string]string(nil)
		if v.Meta != nil {
			m = map[string]string{}
			for a, b := range v.Meta {
				m[a] = b
			}
		}
		o[k] = &Item{Vec: append([]float32{}, v.Vec...), Meta: m, Level: v.Level}
	}
	return o
}

// IDs: four ids that land in different shards of the 16-way vertex map and two that collide.
var IDs = func() []uuid.UUID {
	var out []uuid.UUID
	for i := 0; i < 6; i++ {
		var u uuid.UUID
		u[0] = byte(0xa0 + i)
		u[8] = byte(i % 4) // UuidMod(id,16) = (lo%16 + hi%16)%16
		u[15] = 0x01
		out = append(out, u)
	}
	return out
}()

func Name(id uuid.UUID) string { return string('a' + rune(id[0]-0xa0)) }

// Grid: points in R^2 with colliding and differing distances (ties included), off the origin.
var Grid = [][]float32{{1, 1}, {2, 1}, {1, 2}, {3, 3}, {2, 2}, {4, 1}}

// Queries: one equal to a stored grid point, two off-grid.
var Queries = [][]float32{{1, 1}, {2.5, 1.5}, {4, 4}}

func Space(name string) space.Space {
	switch name {
	case "euclidean":
		return space.NewEuclidean()
	case "manhattan":
		return space.NewManhattan()
	case "cosine":
		return space.NewCosine()
	}
	panic("unknown space " + name)
}

func metaEqual(a index.Metadata, b map[string]string) bool {
	if len(a) != len(b) {
		return false
	}
	for k, v := range a {
		if w, ok := b[k]; !ok || w != v {
			return false
		}
	}
	return true
}

// CheckSearch runs Search for every query and k and checks the C01 clauses against ref.
// It returns the violated clause (key) and a description, or "".
func CheckSearch(ix *index.Hnsw, ref Ref, sp space.Space, queries [][]float32, ks []uint) (key, desc string) {
	defer func() {
		if r := recover(); r != nil {
			key, desc = "search-panic", fmt.Sprintf("Search panicked: %v", r)
		}
	}()
	for _, q := range queries {
		for _, k := range ks {
			res, err := ix.Search(context.Background(), q, k)
			if err != nil {
				return "search-error", fmt.Sprintf("Search(%v,%d) error %v", q, k, err)
			}
			if uint(len(res)) > k {
				return "more-than-k", fmt.Sprintf("Search(%v,%d) returned %d items", q, k, len(res))
			}
			if len(res) == 0 && k >= 1 && len(ref) > 0 {
				return "empty-result-nonempty-index", fmt.Sprintf("Search(%v,%d) returned nothing, index holds %d items", q, k, len(ref))
			}
			seen := map[uuid.UUID]bool{}
			for i, it := range res {
				r, live := ref[it.Id]
				if !live {
					return "returned-removed-item", fmt.Sprintf("Search(%v,%d) returned %s which is not stored", q, k, Name(it.Id))
				}
				if seen[it.Id] {
					return "duplicate-id", fmt.Sprintf("Search(%v,%d) returned %s twice", q, k, Name(it.Id))
				}
				seen[it.Id] = true
				if want := sp.Distance(q, r.Vec); it.Score != want {
					return "stale-score", fmt.Sprintf("Search(%v,%d): %s score %v, distance to its current vector %v is %v", q, k, Name(it.Id), it.Score, r.Vec, want)
				}
				if !metaEqual(it.Metadata, r.Meta) {
					return "wrong-metadata", fmt.Sprintf("Search(%v,%d): %s metadata %v, current %v", q, k, Name(it.Id), it.Metadata, r.Meta)
				}
				if i > 0 && res[i-1].Score > it.Score {
					return "unsorted", fmt.Sprintf("Search(%v,%d): scores not ascending: %v then %v", q, k, res[i-1].Score, it.Score)
				}
			}
		}
	}
	return "", ""
}

// Cause classifies the structural cause of a search failure from the dump (used only to key
// findings, never as an extra demand).
func Cause(d index.VerifDumpT) string {
	switch {
	case d.EntrypointNil && d.Len > 0:
		return "entrypoint-nil"
	case !d.EntrypointNil && d.EntrypointDel:
		return "entrypoint-tombstoned"
	case !d.EntrypointNil && !d.EntrypointLive:
		return "entrypoint-stale-object"
	}
	return "graph"
}

// DumpKey is the canonical state string of an index.
func DumpKey(d index.VerifDumpT) string {
	var sb strings.Builder
	fmt.Fprintf(&sb, "len%d bytes%d ", d.Len, d.DataBytes)
	if d.EntrypointNil {
		sb.WriteString("ep=nil ")
	} else {
		fmt.Fprintf(&sb, "ep=%s del%v live%v lvl%d ", Name(d.Entrypoint), d.EntrypointDel, d.EntrypointLive, d.EntrypointLevel)
		writeEdges(&sb, d.EntrypointEdges)
	}
	for _, v := range d.Vertices {
		fmt.Fprintf(&sb, "|%s v%v l%d d%v m%s ", Name(v.Id), v.Vector, v.Level, v.Deleted, metaStr(v.Metadata))
		writeEdges(&sb, v.Edges)
	}
	return sb.String()
}

func writeEdges(sb *strings.Builder, edges [][]index.VerifEdge) {
	for l, es := range edges {
		fmt.Fprintf(sb, "L%d[", l)
		for _, e := range es {
			fmt.Fprintf(sb, "%s:%d:%v:%v ", Name(e.To), e.ToPtrIdx, e.Deleted, e.Distance)
		}
		sb.WriteString("]")
	}
}

func metaStr(m map[string]string) string {
	if m == nil {
		return "nil"
	}
	ks := make([]string, 0, len(m))
	for k := range m {
		ks = append(ks, k)
	}
	sort.Strings(ks)
	var sb strings.Builder
	sb.WriteString("{")
	for _, k := range ks {
		fmt.Fprintf(&sb, "%s=%s,", k, m[k])
	}
	sb.WriteString("}")
	return sb.String()
}

// CheckContents compares Get / Len / metadata for the whole id universe with ref.
func CheckContents(ix *index.Hnsw, ref Ref, universe []uuid.UUID) (key, desc string) {
	if ix.Len() != len(ref) {
		return "len-mismatch", fmt.Sprintf("Len()=%d, %d live ids", ix.Len(), len(ref))
	}
	for _, id := range universe {
		vec, err := ix.Get(id)
		r, live := ref[id]
		if !live {
			if err == nil {
				return "removed-item-retrievable", fmt.Sprintf("Get(%s) succeeds for an id that is not stored", Name(id))
			}
			if err != index.ItemNotFoundError {
				return "wrong-error", fmt.Sprintf("Get(%s) error %v, want ItemNotFound", Name(id), err)
			}
			continue
		}
		if err != nil {
			return "stored-item-unretrievable", fmt.Sprintf("Get(%s) = %v for a stored id", Name(id), err)
		}
		if fmt.Sprint([]float32(vec)) != fmt.Sprint(r.Vec) {
			return "wrong-vector", fmt.Sprintf("Get(%s) = %v, stored %v", Name(id), vec, r.Vec)
		}
		m, _ := ix.VerifGetMetadata(id)
		if !metaEqual(m, r.Meta) {
			return "wrong-metadata", fmt.Sprintf("metadata of %s = %v, want %v", Name(id), m, r.Meta)
		}
	}
	return "", ""
}
