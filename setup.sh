#!/bin/bash
# Offline setup: pre-build every harness so quick checks pay link time only.
set -u
cd "$(dirname "$0")"
export GOFLAGS=-mod=mod GOPROXY=off GOSUMDB=off GOTOOLCHAIN=local
mkdir -p evidence .work
go build -tags verif -o /dev/null ./lib/... || exit 1
for d in harness/*/; do
  if [ -x "$d/run.sh" ]; then VERIF_WARM=1 "$d/run.sh" --warm >/dev/null 2>&1 || true
  else go build -tags verif -o /dev/null "./$d" || exit 1; fi
done
echo setup ok
