#!/bin/bash
# Runs every registered quick (or thorough) check once and prints a summary table.
cd "$(dirname "$0")"
tier="${1:-quick}"
for id in $(python3 -c "import json; print(' '.join(c['property_id'] for c in json.load(open('MANIFEST.json'))['checks']))"); do
  s=$(date +%s)
  ./check "$id" --tier "$tier" > ".work/runall.$tier.$id.out" 2>&1; rc=$?
  e=$(date +%s)
  kf=$(grep -c "^KNOWN-FINDING" ".work/runall.$tier.$id.out")
  echo "$id exit=$rc wall=$((e-s))s known_findings=$kf $(grep -E '^(VIOLATION|TOOL-ERROR)' .work/runall.$tier.$id.out | head -2 | tr '\n' ' ')"
done
