// Package seq is E3: explicit-state breadth-first search over operation sequences on the real
// (sequential) code. Real objects cannot be cloned, so a successor is computed by replaying
// the shortest path on a fresh instance plus one operation; states are deduplicated on a
// canonical string supplied by the harness.
package seq

import (
	"fmt"
	"math"
	"runtime/debug"
	"runtime/metrics"
	"sort"
	"sync"

	"anndbverif/lib/hang"
	"time"
)

type Stats struct {
	States, Transitions, DepthCompleted int
	Outcomes                            map[string]int
	Complete                            bool // false if the deadline stopped the search
	Hung                                bool // a Build did not return (HangCPU): reported, search abandoned
	FrontierLeft                        int
}

type Config[W any, O any] struct {
	Depth   int
	Workers int
	// Build replays path on a fresh world owned by worker wi; returns violation key/desc ("" = ok).
	Build   func(wi int, path []O) (W, string, string)
	Enabled func(w W) []O
	Canon   func(w W) string
	// OnViolation is called (serialised) for every violating transition.
	OnViolation func(key, desc string, path []O)
	// OnNew is called (serialised) for every newly discovered state.
	OnNew    func(path []O)
	Deadline time.Time
	// AfterLevel is called between BFS levels (e.g. to drop scratch databases).
	AfterLevel func()
	// Seen may be shared between several BFS runs (different roots).
	Seen map[string]bool
	// HangCPU, when set, gives up a Build after the process has burnt that much CPU time per worker since it started
	// (lib/hang): the path is reported with key "call-does-not-return" and the search is abandoned (the
	// goroutine of that Build is leaked and still owns its worker's world).
	HangCPU time.Duration
	// RootFilter, when set, restricts the operations tried from the initial state (process sharding).
	RootFilter func(i int, o O) bool
}

// memoryShort reports that the live heap has reached 70% of the process's soft memory limit (workers run under
// GOMEMLIMIT and an address-space limit): the search stops like at its deadline - incomplete, not dead.
func memoryShort() bool {
	limit := debug.SetMemoryLimit(-1)
	if limit <= 0 || limit == math.MaxInt64 {
		return false
	}
	sample := []metrics.Sample{{Name: "/memory/classes/heap/objects:bytes"}}
	metrics.Read(sample)
	return sample[0].Value.Kind() == metrics.KindUint64 && sample[0].Value.Uint64() > uint64(limit)/10*7
}

func BFS[W any, O any](c Config[W, O]) Stats {
	st := Stats{Outcomes: map[string]int{}, Complete: true}
	seen := c.Seen
	if seen == nil {
		seen = map[string]bool{}
	}
	var mu sync.Mutex
	hung := false
	rawBuild := c.Build
	build := func(wi int, path []O) (w W, k, d string, ok bool) {
		if c.HangCPU == 0 {
			w, k, d = rawBuild(wi, path)
			return w, k, d, true
		}
		ok = hang.Run(c.HangCPU*time.Duration(c.Workers), func() { w, k, d = rawBuild(wi, path) })
		if !ok {
			mu.Lock()
			first := !hung
			hung = true
			st.Transitions++
			if first {
				st.Outcomes["call-does-not-return"]++
				c.OnViolation("call-does-not-return", fmt.Sprintf("the last operation of the sequence has not returned after %v of CPU time", c.HangCPU), path)
			}
			mu.Unlock()
		}
		return
	}
	w0, k, d := c.Build(0, nil)
	st.Transitions++
	if k != "" {
		st.Outcomes[k]++
		c.OnViolation(k, d, nil)
		return st
	}
	if cs := c.Canon(w0); !seen[cs] {
		seen[cs] = true
		st.States++
	}
	frontier := [][]O{{}}
	for depth := 0; depth < c.Depth && len(frontier) > 0; depth++ {
		var next [][]O
		jobs := make(chan []O, len(frontier))
		for _, p := range frontier {
			jobs <- p
		}
		close(jobs)
		var wg sync.WaitGroup
		stopped := false
		for wi := 0; wi < c.Workers; wi++ {
			wg.Add(1)
			go func(wi int) {
				defer wg.Done()
				for path := range jobs {
					if (!c.Deadline.IsZero() && time.Now().After(c.Deadline)) || memoryShort() {
						mu.Lock()
						stopped = true
						st.FrontierLeft++
						mu.Unlock()
						continue
					}
					mu.Lock()
					abandoned := hung
					mu.Unlock()
					if abandoned {
						continue
					}
					w, k, _, ok := build(wi, path)
					if k != "" || !ok {
						continue
					}
					for oi, o := range c.Enabled(w) {
						if len(path) == 0 && c.RootFilter != nil && !c.RootFilter(oi, o) {
							continue
						}
						np := append(append([]O{}, path...), o)
						nw, k, desc, ok := build(wi, np)
						if !ok {
							break
						}
						cs := ""
						if k == "" {
							cs = c.Canon(nw)
						}
						mu.Lock()
						st.Transitions++
						if k != "" {
							st.Outcomes[k]++
							c.OnViolation(k, desc, np)
						} else {
							st.Outcomes["ok"]++
							if !seen[cs] {
								seen[cs] = true
								st.States++
								next = append(next, np)
								if c.OnNew != nil {
									c.OnNew(np)
								}
							}
						}
						mu.Unlock()
					}
				}
			}(wi)
		}
		wg.Wait()
		if hung {
			st.Complete, st.Hung = false, true
			break
		}
		if stopped {
			st.Complete = false
			break
		}
		sort.Slice(next, func(i, j int) bool { return fmt.Sprint(next[i]) < fmt.Sprint(next[j]) })
		frontier = next
		st.DepthCompleted = depth + 1
		if c.AfterLevel != nil {
			c.AfterLevel()
		}
		if len(frontier) == 0 {
			st.DepthCompleted = c.Depth // no new state: every longer sequence stays inside the explored set
		}
	}
	return st
}
