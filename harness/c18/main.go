// C18 — membership changes and restarts never wedge a node's control plane.
//
// E1: the real Allocator, cluster.Conn, DatasetManager apply functions and partition raft
// loading (on in-memory Badger) on one node. An apply thread replays a catalogue log through a
// scripted raft.Group whose proposals are applied by that same thread later (the zero group's
// single apply loop), while a membership thread delivers node-added / node-removed events.
// Every interleaving up to a deviation bound. Oracle: at the end the apply thread is idle with
// an empty log, the membership thread has returned and the allocator loop is idle; anything
// else is a wedged control plane, reported with each blocked thread's function and operation.
package main

import (
	"context"
	"fmt"
	"sort"
	"strings"
	"time"

	"anndbverif/explore"
	"anndbverif/vrt"
	"anndbverif/vrt/fakes"
	"anndbverif/world"

	"github.com/coreos/etcd/raft/raftpb"
	"github.com/marekgalovic/anndb/cluster"
	pb "github.com/marekgalovic/anndb/protobuf"
	"github.com/marekgalovic/anndb/storage"
	"github.com/marekgalovic/anndb/storage/raft"
	"github.com/marekgalovic/anndb/storage/wal"

	"github.com/golang/protobuf/proto"
	uuid "github.com/satori/go.uuid"
)

// scriptedGroup is the catalogue's raft group: proposals go to the end of one log that a
// single apply thread consumes in order.
type scriptedGroup struct {
	log       chan []byte
	processFn raft.ProcessFn
	applied   int
}

func (g *scriptedGroup) RegisterProcessFn(fn raft.ProcessFn) error         { g.processFn = fn; return nil }
func (g *scriptedGroup) RegisterProcessSnapshotFn(fn raft.ProcessFn) error { return nil }
func (g *scriptedGroup) RegisterSnapshotFn(fn raft.SnapshotFn) error       { return nil }
func (g *scriptedGroup) LeaderId() uint64                                  { return 1 }
func (g *scriptedGroup) Propose(ctx context.Context, data []byte) error {
	tok := vrt.BeforeSend(g.log)
	g.log <- data
	vrt.After(tok)
	return nil
}

type member struct {
	add  bool
	node uint64
}

type variant struct {
	name       string
	script     []string // "create:<n>:<placement>" | "delete:<n>"
	membership []member
	repl       uint32
	maxQ       int
	delay      bool
	dial       []uint64 // a request / raft-transport thread making first contact with these nodes meanwhile
	creator    bool     // a client's Create request (placement reads the member list, the proposal joins the catalogue log) meanwhile
	damage     []int    // datasets whose partition's log store is damaged beforehand (raft panics when that group is loaded)
	unreadable []int    // datasets whose partition's log store holds a snapshot the index cannot read (loading the group returns an error)
}

func dsID(n int) uuid.UUID { return world.ID(uint64(0xd0+n), 0xd5) }

func createEntry(n int, nodes []uint64, repl uint32) []byte {
	meta := &pb.Dataset{Id: dsID(n).Bytes(), Dimension: 1, Space: pb.Space_Euclidean, PartitionCount: 1, ReplicationFactor: repl,
		Partitions: []*pb.Partition{{Id: world.ID(uint64(0xb0+n), 0x77).Bytes(), NodeIds: append([]uint64{}, nodes...)}}}
	data, _ := proto.Marshal(meta)
	ch := &pb.DatasetManagerChange{Type: pb.DatasetManagerChangeType_DatasetManagerCreateDataset, NotificationId: world.ID(uint64(0x900+n), 1).Bytes(), Data: data}
	b, _ := proto.Marshal(ch)
	return b
}

func deleteEntry(n int) []byte {
	ch := &pb.DatasetManagerChange{Type: pb.DatasetManagerChangeType_DatasetManagerDeleteDataset, NotificationId: world.ID(uint64(0x800+n), 1).Bytes(), Data: dsID(n).Bytes()}
	b, _ := proto.Marshal(ch)
	return b
}

func build(v variant) *explore.Scenario {
	return &explore.Scenario{
		Name:          v.name,
		MaxBoundQuick: v.maxQ,
		Configure:     func(s *vrt.Sched) { s.Horizon = 300000; s.DelayBounding = true },
		Build: func(x *explore.Exec) func(vrt.EndReason) *explore.Violation {
			fakes.Reset()
			world.Quiet()
			var conn *cluster.Conn
			var dm *storage.DatasetManager
			g := &scriptedGroup{log: make(chan []byte, 256)}
			db := world.MemDB()
			x.OnCleanup(func() {
				conn.Close()
				db.Close()
			})
			x.S.Spawn("n1/setup", false, func() {
				var err error
				conn, err = cluster.NewConn(1, world.Addr(1), "")
				if err != nil {
					panic(err)
				}
				conn.AddNode(2, world.Addr(2))
				allocator := storage.NewAllocator(conn)
				transport := raft.NewTransport(1, world.Addr(1), conn)
				for _, n := range v.damage {
					// a log store whose hard state points beyond its entries: etcd raft panics while restarting on it
					if err := wal.NewBadgerWAL(db, world.ID(uint64(0xb0+n), 0x77)).Save(raftpb.HardState{Term: 1, Vote: 1, Commit: 7}, nil, raftpb.Snapshot{}); err != nil {
						panic(err)
					}
				}
				for _, n := range v.unreadable {
					// a stored snapshot whose payload is not an index: loadRaft gets an error back from the group's start
					w := wal.NewBadgerWAL(db, world.ID(uint64(0xb0+n), 0x77))
					es := []raftpb.Entry{{Index: 1, Term: 1}, {Index: 2, Term: 1}}
					if err := w.Save(raftpb.HardState{Term: 1, Vote: 1, Commit: 2}, es, raftpb.Snapshot{}); err != nil {
						panic(err)
					}
					if _, err := w.CreateSnapshot(2, &raftpb.ConfState{Nodes: []uint64{1}}, []byte{0xde, 0xad, 0xbe}); err != nil {
						panic(err)
					}
				}
				dm, err = storage.NewDatasetManager(g, db, transport, conn, allocator)
				if err != nil {
					panic(err)
				}
			})
			x.Quiesce()
			scripted := 0
			for _, e := range v.script {
				var kind string
				var n int
				fmt.Sscanf(strings.Replace(e, ":", " ", -1), "%s %d", &kind, &n)
				if kind == "create" {
					nodes := []uint64{1}
					if strings.HasSuffix(e, ":12") {
						nodes = []uint64{1, 2}
					}
					if strings.HasSuffix(e, ":177") {
						nodes = []uint64{1, 77} // a replica that has left the cluster: no address for it
					}
					g.log <- createEntry(n, nodes, v.repl)
				} else {
					g.log <- deleteEntry(n)
				}
				scripted++
			}
			membershipDone := len(v.membership) == 0
			// the apply loop: one thread, entries strictly in log order (it never finishes: it is a server)
			x.S.Spawn("n1/apply", false, func() {
				for {
					data := vrt.Recv(g.log)
					if err := g.processFn(data); err != nil {
						panic(fmt.Sprintf("apply returned %v (the raft loop would Fatal)", err))
					}
					g.applied++
				}
			})
			if len(v.membership) > 0 {
				x.S.Spawn("n1/membership", true, func() {
					for _, m := range v.membership {
						if m.add {
							conn.AddNode(m.node, world.Addr(m.node))
						} else {
							conn.RemoveNode(m.node)
						}
					}
					membershipDone = true
				})
			}
			if v.creator {
				x.S.Spawn("n1/creator", true, func() {
					// success, refusal or time-out are all fine; not coming back is not
					dm.Create(context.Background(), &pb.Dataset{Dimension: 1, Space: pb.Space_Euclidean, PartitionCount: 1, ReplicationFactor: 2})
				})
			}
			if len(v.dial) > 0 {
				x.S.Spawn("n1/dialer", true, func() {
					for _, id := range v.dial {
						conn.Dial(id) // an error (node gone) is fine; not coming back is not
					}
				})
			}
			return func(end vrt.EndReason) *explore.Violation {
				// fair continuation: let (virtual) time pass - fire every raft tick ticker for up to 60
				// rounds, running to quiescence after each - so that a thread that only waits for an
				// election (a leaderless single-replica group elects itself after ~10-20 ticks) is not
				// mistaken for a wedged one
				if x.S.Panicked() == nil {
					for round := 0; round < 60; round++ {
						for _, t := range x.S.Timers() {
							if t.Kind == "ticker" && t.D == 100*time.Millisecond && t.Armed() {
								x.S.Fire(t)
							}
						}
						if r := x.S.Run(defaultPick{}, nil); r != vrt.Quiescent {
							break
						}
					}
				}
				// classify every unfinished thread of the control plane
				var wedged []string
				var detail []string
				// the allocator's own loop is the first thread started from allocator.go; the later ones are the membership
				// handlers it starts beside itself
				loopSeen := false
				waitingForLeader := 0
				for _, t := range x.S.Threads() {
					isLoop := false
					if strings.Contains(t.Name, "allocator.go") && !loopSeen {
						loopSeen, isLoop = true, true
					}
					if t.Finished() {
						continue
					}
					role := ""
					idle := false
					fn := vrt.SiteFunc(t.Where())
					switch {
					case t.Name == "n1/apply":
						role = "apply-loop"
						idle = strings.Contains(fn, "main.") && len(g.log) == 0
					case t.Name == "n1/membership":
						role = "membership-notifier"
					case t.Name == "n1/dialer":
						role = "dialer"
					case t.Name == "n1/creator":
						role = "create-request"
					case isLoop:
						role = "allocator-loop"
						idle = strings.HasSuffix(fn, "(*Allocator).run")
					case strings.Contains(t.Name, "allocator.go"):
						role = "membership-handler"
						// a handler that has handed its change to a partition's raft group and waits there for the group to have a
						// leader waits for the environment (a quorum of that group), not for this node: no wedge
						if strings.Contains(fn, "raft.(*node).step") {
							idle = true
							waitingForLeader++
						}
					default:
						// partition raft threads idle on their own selects; one that waits for a lock at quiescence,
						// after time has passed, waits for good
						if k := t.Kind(); k == vrt.OpLock || k == vrt.OpRLock || k == vrt.OpWLock {
							role = "raft-thread"
							break
						}
						continue
					}
					if !idle {
						wedged = append(wedged, fmt.Sprintf("%s in %s on %s", role, strings.TrimPrefix(fn, "storage."), t.Kind()))
						detail = append(detail, fmt.Sprintf("%s blocked at %s (%s)", t.Name, t.Where(), fn))
					}
				}
				x.Outcome = fmt.Sprintf("applied=%d membership=%v wedged=%d handlers-waiting-for-a-group-leader=%d", g.applied, membershipDone, len(wedged), waitingForLeader)
				if t := x.S.Panicked(); t != nil {
					return nil // reported by the explorer as panic:<site>
				}
				if len(wedged) > 0 {
					sort.Strings(wedged)
					return &explore.Violation{Key: "wedged: " + strings.Join(wedged, " | "), Desc: fmt.Sprintf("control plane blocked forever after applying %d of the log entries: %s; all blocked threads: %s", g.applied, strings.Join(detail, "; "), strings.Join(x.S.Blocked(), "; "))}
				}
				if g.applied < scripted {
					return &explore.Violation{Key: "catalogue-not-fully-applied", Desc: fmt.Sprintf("%d of %d scripted entries applied", g.applied, scripted)}
				}
				return nil
			}
		},
	}
}

type defaultPick struct{}

func (defaultPick) Pick(s *vrt.Sched, alts []vrt.Alt, costs []int) int { return 0 }

func main() {
	add := func(n uint64) member { return member{true, n} }
	rem := func(n uint64) member { return member{false, n} }
	var burst []member
	for n := uint64(3); n <= 13; n++ {
		burst = append(burst, add(n))
	}
	vs := []variant{
		{name: "create-only", script: []string{"create:1:1"}, repl: 1},
		{name: "create-delete-no-membership", script: []string{"create:1:1", "create:2:1", "delete:1"}, repl: 2},
		{name: "delete-retried-then-create", script: []string{"create:1:1", "delete:1", "delete:1", "create:2:1"}, repl: 1},
		{name: "create-retried-then-delete", script: []string{"create:1:1", "create:1:1", "delete:1", "create:1:1"}, repl: 1},
		{name: "node-added-during-create", script: []string{"create:1:1"}, membership: []member{add(3)}, repl: 1},
		{name: "node-added-during-create-underreplicated", script: []string{"create:1:1"}, membership: []member{add(3)}, repl: 2},
		{name: "node-removed-during-create-delete", script: []string{"create:1:12", "delete:1"}, membership: []member{rem(2)}, repl: 2},
		{name: "add-and-remove-during-create-create-delete", script: []string{"create:1:1", "create:2:1", "delete:1"}, membership: []member{add(3), rem(2)}, repl: 2, maxQ: 1},
		{name: "create-with-a-replica-that-has-no-address", script: []string{"create:1:177", "create:2:1"}, repl: 2},
		{name: "node-removed-vs-first-dial", script: []string{"create:1:1"}, membership: []member{rem(2)}, dial: []uint64{2}, repl: 1},
		{name: "node-added-and-removed-vs-first-dials", script: []string{"create:1:1"}, membership: []member{add(3), rem(3)}, dial: []uint64{3, 2}, repl: 1, maxQ: 1},
		// a membership handler's proposal that ends up behind the deletion of its dataset, with more catalogue changes after it
		{name: "node-added-during-create-delete-create", script: []string{"create:1:1", "delete:1", "create:2:1"}, membership: []member{add(3)}, repl: 2},
		{name: "node-removed-during-create-delete-create", script: []string{"create:1:12", "delete:1", "create:2:12"}, membership: []member{rem(2)}, repl: 2},
		// two membership changes in a row while the handlers of the first read the member list
		{name: "two-nodes-added-during-create-underreplicated", script: []string{"create:1:1"}, membership: []member{add(3), add(4)}, repl: 2},
		{name: "create-request-vs-two-nodes-added", script: []string{"create:1:1"}, membership: []member{add(3), add(4)}, creator: true, repl: 1},
		// a partition whose log store is damaged: loading its group panics inside the raft library; the catalogue goes on
		{name: "damaged-partition-log-then-more-catalogue-changes", script: []string{"create:1:1", "create:2:1", "delete:2", "create:3:1"}, damage: []int{1}, repl: 1},
		{name: "damaged-partition-log-vs-node-added", script: []string{"create:1:1", "create:2:1"}, damage: []int{1}, membership: []member{add(3)}, repl: 2, maxQ: 1},
		{name: "unreadable-partition-snapshot-then-more-catalogue-changes", script: []string{"create:1:1", "create:2:1", "delete:2", "create:3:1"}, unreadable: []int{1}, repl: 1},
		// a node leaves while ten announcements are still unread (the allocator loop is busy loading groups)
		{name: "restart-burst-of-10-additions-then-a-removal", script: []string{"create:1:1", "create:2:1"}, membership: append(append([]member{}, burst[:10]...), rem(3)), repl: 1, maxQ: 1},
		{name: "restart-burst-of-11-node-additions", script: []string{"create:1:1", "create:2:1"}, membership: burst, repl: 1, maxQ: 1},
	}
	var scs []*explore.Scenario
	for _, v := range vs {
		scs = append(scs, build(v))
	}
	explore.Main("C18", scs, explore.Plan{QuickBound: 2, ThoroughBound: 3, QuickBudget: 120 * time.Second, ThoroughBudget: 20 * time.Minute, Shards: 4},
		"model_checking", []string{
			"one node; the catalogue raft group is a scripted raft.Group with a single apply thread (entries strictly in log order, proposals appended to the same log) - the shape of the zero group's ready loop; partition raft groups are real (badgerWAL on in-memory Badger)",
			"during exploration timers never fire; before the verdict a fair continuation fires every raft tick ticker for 60 rounds (elections complete), so only waits that no amount of time resolves count as blocked forever",
			"wedged = at the end the apply loop, the membership notifier or the allocator loop is parked somewhere other than its idle point",
		})
}
