// C06 — the Badger raft log honours the raft storage contract, per group, across reopen.
//
// E3: explicit-state BFS over every legal call sequence (appends incl. conflicting
// overwrites, hard-state saves, installs of received snapshots, local snapshot+compaction,
// reopen, group deletion) on the REAL badgerWAL over an in-memory Badger, compared after
// every call and on every observation with etcd's raft.MemoryStorage.
// State = (reference state, raw DB contents of the group, the object's private cache,
// cold/warm): merged states have identical futures. Successors by replay on fresh group ids.
package main

import (
	"bytes"
	"encoding/json"
	"fmt"
	"os"
	"reflect"
	"regexp"
	"sort"
	"strings"
	"sync"
	"time"
	"unsafe"

	"anndbverif/lib/ev"
	"anndbverif/world"

	etcdRaft "github.com/coreos/etcd/raft"
	"github.com/coreos/etcd/raft/raftpb"
	badger "github.com/dgraph-io/badger/v2"
	"github.com/marekgalovic/anndb/storage/wal"
	uuid "github.com/satori/go.uuid"
)

type op struct {
	G     int    `json:"g"`  // group slot
	Kind  string `json:"op"` // append, hs, snap, create, reopen, delete
	Start uint64 `json:"start,omitempty"`
	N     int    `json:"n,omitempty"`
	Term  uint64 `json:"term,omitempty"`
	HS    bool   `json:"hs,omitempty"` // save a hard state together with the entries
	Index uint64 `json:"index,omitempty"`
	Tail  int    `json:"tail,omitempty"`  // snapshot install carries this many entries after it
	NoHS  bool   `json:"no_hs,omitempty"` // snap: the received snapshot comes with an EMPTY hard state (the stored one must survive)
	Reuse bool   `json:"reuse,omitempty"` // delete: keep using the same store object (what partition.unloadRaft/loadRaft does)
}

func (o op) String() string {
	switch o.Kind {
	case "append":
		return fmt.Sprintf("g%d.Save(entries %d..%d@t%d hs=%v)", o.G, o.Start, o.Start+uint64(o.N)-1, o.Term, o.HS)
	case "hs":
		return fmt.Sprintf("g%d.Save(hardstate t%d)", o.G, o.Term)
	case "snap":
		if o.NoHS {
			return fmt.Sprintf("g%d.Save(empty hard state, received snapshot @%d t%d, +%d entries)", o.G, o.Index, o.Term, o.Tail)
		}
		return fmt.Sprintf("g%d.Save(received snapshot @%d t%d, +%d entries)", o.G, o.Index, o.Term, o.Tail)
	case "create":
		return fmt.Sprintf("g%d.CreateSnapshot(%d)", o.G, o.Index)
	}
	if o.Reuse {
		return fmt.Sprintf("g%d.%s(same object reused)", o.G, o.Kind)
	}
	return fmt.Sprintf("g%d.%s", o.G, o.Kind)
}

type group struct {
	id    uuid.UUID
	w     wal.WAL
	ref   *etcdRaft.MemoryStorage
	alive bool // false after delete until the next open
	warm  bool
}

type world_ struct {
	db     *badger.DB
	groups []*group
	light  bool
}

var groupSeq uint64
var groupSeqMu sync.Mutex

// fresh group ids for every world; slot 1 is slot 0's id + 1 (adjacent prefix), slot 2 differs
// from slot 0 only by a carry (..ff vs ..00 in the last byte).
func newWorld(db *badger.DB, nGroups int, nilGroup bool) *world_ {
	groupSeqMu.Lock()
	groupSeq++
	seq := groupSeq
	groupSeqMu.Unlock()
	w := &world_{db: db}
	base := world.ID(seq<<8, 0x1122334455667700)
	base[15] = 0xfe
	for i := 0; i < nGroups; i++ {
		id := base
		switch i {
		case 1:
			id[15] = 0xff
		case 2:
			id[15] = 0x00
			id[14]++
		}
		g := &group{id: id}
		w.groups = append(w.groups, g)
	}
	return w
}

func (w *world_) open(g *group) {
	g.w = wal.NewBadgerWAL(w.db, g.id)
	g.warm = false
	if !g.alive {
		g.ref = etcdRaft.NewMemoryStorage()
		g.alive = true
	}
}

func entry(i, t uint64) raftpb.Entry {
	return raftpb.Entry{Index: i, Term: t, Type: raftpb.EntryNormal, Data: []byte(fmt.Sprintf("d%d.%d", i, t))}
}

var confState = raftpb.ConfState{Nodes: []uint64{1, 2}}

// apply performs o on the real object and the reference. Returns violation key/desc.
func (w *world_) apply(o op) (key, desc string) {
	defer func() {
		if r := recover(); r != nil {
			key, desc = "panic", fmt.Sprintf("%v panicked: %v", o, r)
		}
	}()
	g := w.groups[o.G]
	switch o.Kind {
	case "reopen":
		w.open(g)
	case "delete":
		if err := g.w.DeleteGroup(); err != nil {
			return "delete-error", fmt.Sprintf("%v: %v", o, err)
		}
		if o.Reuse {
			// the partition keeps its store object across unloadRaft/loadRaft: the same object must now behave like a fresh one
			g.ref = etcdRaft.NewMemoryStorage()
		} else {
			g.alive = false
			w.open(g) // a later store for the same group id must be indistinguishable from a fresh one
		}
	case "append":
		var es []raftpb.Entry
		for i := 0; i < o.N; i++ {
			es = append(es, entry(o.Start+uint64(i), o.Term))
		}
		var hs raftpb.HardState
		if o.HS {
			hs = raftpb.HardState{Term: o.Term, Vote: 1, Commit: o.Start - 1}
		}
		err := g.w.Save(hs, es, raftpb.Snapshot{})
		if err != nil {
			return "save-error", fmt.Sprintf("%v: %v", o, err)
		}
		g.ref.Append(es)
		if !etcdRaft.IsEmptyHardState(hs) {
			g.ref.SetHardState(hs)
		}
		g.warm = true
	case "hs":
		hs := raftpb.HardState{Term: o.Term, Vote: 2, Commit: o.Index}
		if err := g.w.Save(hs, nil, raftpb.Snapshot{}); err != nil {
			return "save-error", fmt.Sprintf("%v: %v", o, err)
		}
		g.ref.SetHardState(hs)
		g.warm = true // durable state changed: a reopen is a new state
	case "snap":
		snap := raftpb.Snapshot{Data: []byte(fmt.Sprintf("recv%d", o.Index)), Metadata: raftpb.SnapshotMetadata{Index: o.Index, Term: o.Term, ConfState: confState}}
		var es []raftpb.Entry
		for i := 0; i < o.Tail; i++ {
			es = append(es, entry(o.Index+1+uint64(i), o.Term))
		}
		shs := raftpb.HardState{Term: o.Term, Vote: 1, Commit: o.Index}
		if o.NoHS {
			shs = raftpb.HardState{}
		}
		if err := g.w.Save(shs, es, snap); err != nil {
			return "save-error", fmt.Sprintf("%v: %v", o, err)
		}
		// reference order prescribed by the raft library: snapshot first, then entries
		if err := g.ref.ApplySnapshot(snap); err != nil {
			return "", "" // cannot happen: alphabet only issues newer snapshots
		}
		g.ref.Append(es)
		if !o.NoHS {
			g.ref.SetHardState(raftpb.HardState{Term: o.Term, Vote: 1, Commit: o.Index})
		}
		g.warm = true
	case "create":
		data := []byte(fmt.Sprintf("local%d", o.Index))
		got, err := g.w.CreateSnapshot(o.Index, &confState, data)
		want, rerr := g.ref.CreateSnapshot(o.Index, &confState, data)
		if rerr == nil {
			rerr = g.ref.Compact(o.Index)
		}
		if err != rerr {
			return "create-snapshot-error", fmt.Sprintf("%v: error %v, reference %v", o, err, rerr)
		}
		if err == nil && !reflect.DeepEqual(got, want) {
			return "create-snapshot-value", fmt.Sprintf("%v: returned %v, reference %v", o, got, want)
		}
		g.warm = true
	}
	return w.observeAll(o)
}

// light: the only queries with a side effect on the object's private cache (FirstIndex
// memoises; LastIndex is issued for symmetry). Used on replayed prefixes, whose full
// observation already happened when the prefix itself was the BFS frontier; main() asserts
// that a full observation leaves the canonical state where the light one left it.
func observeLight(g *group) {
	defer func() { recover() }()
	g.w.FirstIndex()
	g.w.LastIndex()
}

func (w *world_) observeAll(after op) (string, string) {
	for gi, g := range w.groups {
		if g.w == nil {
			continue
		}
		if w.light {
			observeLight(g)
			continue
		}
		if k, d := observe(g); k != "" {
			if gi != after.G {
				k = "isolation-" + k
			}
			if after.Kind == "delete" && gi == after.G {
				k = "after-delete-" + k
			}
			return k, fmt.Sprintf("after %v: group %d: %s", after, gi, d)
		}
	}
	return "", ""
}

func errStr(e error) string {
	if e == nil {
		return "nil"
	}
	return e.Error()
}

// observe compares every Storage query with the reference.
func observe(g *group) (key, desc string) {
	defer func() {
		if r := recover(); r != nil {
			key, desc = "observe-panic", fmt.Sprintf("query panicked: %v", r)
		}
	}()
	rf, _ := g.ref.FirstIndex()
	rl, _ := g.ref.LastIndex()
	f, err := g.w.FirstIndex()
	if err != nil || f != rf {
		return "firstindex", fmt.Sprintf("FirstIndex()=%d,%v reference %d", f, err, rf)
	}
	l, err := g.w.LastIndex()
	if err != nil || l != rl {
		return "lastindex", fmt.Sprintf("LastIndex()=%d,%v reference %d", l, err, rl)
	}
	lo := uint64(0)
	if rf > 2 {
		lo = rf - 2
	}
	for i := lo; i <= rl+2; i++ {
		t, err := g.w.Term(i)
		rt, rerr := g.ref.Term(i)
		if t != rt || err != rerr {
			return "term", fmt.Sprintf("Term(%d)=%d,%v reference %d,%v (first=%d last=%d)", i, t, errStr(err), rt, errStr(rerr), rf, rl)
		}
	}
	e1 := entry(1, 1)
	one := uint64(e1.Size())
	for a := lo; a <= rl; a++ {
		for b := a + 1; b <= rl+1; b++ {
			for _, max := range []uint64{0, one, 2 * one, ^uint64(0)} {
				es, err := g.w.Entries(a, b, max)
				res, rerr := g.ref.Entries(a, b, max)
				if err != rerr {
					return "entries-error", fmt.Sprintf("Entries(%d,%d,%d) error %v reference %v", a, b, max, errStr(err), errStr(rerr))
				}
				if err == nil && !sameEntries(es, res) {
					return "entries", fmt.Sprintf("Entries(%d,%d,%d)=%v reference %v", a, b, max, brief(es), brief(res))
				}
			}
		}
	}
	s, err := g.w.Snapshot()
	rs, _ := g.ref.Snapshot()
	if err != nil || !sameSnap(s, rs) {
		return "snapshot", fmt.Sprintf("Snapshot()=%v,%v reference %v", s, err, rs)
	}
	hs, cs, err := g.w.InitialState()
	rhs, rcs, _ := g.ref.InitialState()
	if err != nil || !reflect.DeepEqual(hs, rhs) || !sameNodes(cs.Nodes, rcs.Nodes) {
		return "initialstate", fmt.Sprintf("InitialState()=%v,%v,%v reference %v,%v", hs, cs, err, rhs, rcs)
	}
	return "", ""
}

func sameNodes(a, b []uint64) bool {
	if len(a) != len(b) {
		return false
	}
	for i := range a {
		if a[i] != b[i] {
			return false
		}
	}
	return true
}

func sameSnap(a, b raftpb.Snapshot) bool {
	return a.Metadata.Index == b.Metadata.Index && a.Metadata.Term == b.Metadata.Term &&
		sameNodes(a.Metadata.ConfState.Nodes, b.Metadata.ConfState.Nodes) && bytes.Equal(a.Data, b.Data)
}

func sameEntries(a, b []raftpb.Entry) bool {
	if len(a) != len(b) {
		return false
	}
	for i := range a {
		if a[i].Index != b[i].Index || a[i].Term != b[i].Term || a[i].Type != b[i].Type || !bytes.Equal(a[i].Data, b[i].Data) {
			return false
		}
	}
	return true
}

func brief(es []raftpb.Entry) string {
	var s []string
	for _, e := range es {
		s = append(s, fmt.Sprintf("%d@%d:%s", e.Index, e.Term, e.Data))
	}
	return "[" + strings.Join(s, " ") + "]"
}

// ---- canonical state ----

func cacheDump(w wal.WAL) string {
	v := reflect.ValueOf(w).Elem().FieldByName("cache")
	if !v.IsValid() {
		ev.Tool("badgerWAL has no field 'cache' any more: adapt the canonical state")
	}
	m := *(**sync.Map)(unsafe.Pointer(v.UnsafeAddr()))
	var parts []string
	m.Range(func(k, val interface{}) bool {
		switch x := val.(type) {
		case *raftpb.Snapshot:
			parts = append(parts, fmt.Sprintf("%v=snap(%d,%d)", k, x.Metadata.Index, x.Metadata.Term))
		default:
			parts = append(parts, fmt.Sprintf("%v=%v", k, val))
		}
		return true
	})
	sort.Strings(parts)
	return strings.Join(parts, ",")
}

func (w *world_) dbDump(g *group) string {
	var sb strings.Builder
	w.db.View(func(txn *badger.Txn) error {
		it := txn.NewIterator(badger.DefaultIteratorOptions)
		defer it.Close()
		for it.Rewind(); it.Valid(); it.Next() {
			k := it.Item().Key()
			if !bytes.Contains(k, g.id.Bytes()) {
				continue
			}
			val, _ := it.Item().ValueCopy(nil)
			kk := bytes.Replace(k, g.id.Bytes(), []byte("G"), 1)
			fmt.Fprintf(&sb, "%x=%x;", kk, val)
		}
		return nil
	})
	return sb.String()
}

func (w *world_) canon() string {
	var sb strings.Builder
	for _, g := range w.groups {
		if g.w == nil {
			sb.WriteString("|closed")
			continue
		}
		fmt.Fprintf(&sb, "|%s|%s", w.dbDump(g), cacheDump(g.w))
	}
	return sb.String()
}

// ---- alphabet ----

const maxIndex = 7
const maxTerm = 3

func (w *world_) enabled(multi bool) []op {
	var out []op
	for gi, g := range w.groups {
		if g.w == nil {
			out = append(out, op{G: gi, Kind: "reopen"})
			continue
		}
		first, _ := g.ref.FirstIndex()
		last, _ := g.ref.LastIndex()
		snap, _ := g.ref.Snapshot()
		termOf := func(i uint64) uint64 { t, _ := g.ref.Term(i); return t }
		// appends: start in [first, last+1]; entries carry one term t >= term(start-1);
		// an overwrite (start <= last) must be a real conflict: t > term(start)
		for s := first; s <= last+1 && s <= maxIndex; s++ {
			for n := 1; n <= 2 && s+uint64(n)-1 <= maxIndex; n++ {
				for t := termOf(s - 1); t <= maxTerm; t++ {
					if t == 0 {
						continue
					}
					if s <= last && t <= termOf(s) {
						continue
					}
					if s+1 < last && n == 2 {
						continue // keep the alphabet small: long overwrites only near the tail
					}
					out = append(out, op{G: gi, Kind: "append", Start: s, N: n, Term: t})
					if n == 1 {
						out = append(out, op{G: gi, Kind: "append", Start: s, N: n, Term: t, HS: true})
					}
				}
			}
		}
		if last >= first {
			out = append(out, op{G: gi, Kind: "hs", Term: termOf(last), Index: last})
		} else if snap.Metadata.Index == 0 {
			// a store that has no entry yet: raft saves term and vote (a vote granted, a term learnt) before the first append
			out = append(out, op{G: gi, Kind: "hs", Term: 1, Index: 0})
		}
		// received snapshots: newer than the current one; either beyond the log or on a
		// conflicting local entry (matching-term snapshots are never handed to storage by raft)
		if last+2 <= maxIndex {
			t := termOf(last)
			if t == 0 {
				t = 1
			}
			out = append(out, op{G: gi, Kind: "snap", Index: last + 2, Term: t})
			out = append(out, op{G: gi, Kind: "snap", Index: last + 2, Term: t, NoHS: true})
			if last+3 <= maxIndex {
				out = append(out, op{G: gi, Kind: "snap", Index: last + 2, Term: t, Tail: 1})
			}
		}
		for i := first; i <= last; i++ {
			if i > snap.Metadata.Index && termOf(i) < maxTerm {
				out = append(out, op{G: gi, Kind: "snap", Index: i, Term: termOf(i) + 1})
				if i == last || i == first {
					out = append(out, op{G: gi, Kind: "snap", Index: i, Term: termOf(i) + 1, Tail: 1})
				}
			}
		}
		// local snapshot + compaction at any index of the log
		for i := first; i <= last; i++ {
			out = append(out, op{G: gi, Kind: "create", Index: i})
		}
		if g.warm {
			out = append(out, op{G: gi, Kind: "reopen"})
		}
		if multi && last >= first {
			out = append(out, op{G: gi, Kind: "delete"})
			out = append(out, op{G: gi, Kind: "delete", Reuse: true})
		}
	}
	return out
}

// build replays path on fresh group ids. Prefix steps get the light observation, the last
// step the full one (every prefix was fully observed when it was itself on the frontier).
func build(db *badger.DB, nGroups int, path []op) (*world_, string, string) {
	w := newWorld(db, nGroups, false)
	for _, g := range w.groups {
		w.open(g)
	}
	w.light = len(path) > 0
	if k, d := w.observeAll(op{Kind: "open"}); k != "" {
		return w, "fresh-" + k, d
	}
	for i, o := range path {
		w.light = i < len(path)-1
		if k, d := w.apply(o); k != "" {
			return w, k, d
		}
	}
	return w, "", ""
}

func main() {
	world.Quiet()
	db := world.MemDB()
	if len(os.Args) > 2 && os.Args[1] == "--replay" {
		replay(db, os.Args[2])
		return
	}
	run := ev.Start("C06", "model_checking")
	type phase struct {
		name   string
		groups int
		depth  int
		multi  bool
	}
	phases := []phase{{"single-group", 1, 4, false}, {"two-groups-adjacent-ids", 2, 3, true}}
	if run.Thorough() {
		phases = []phase{{"single-group", 1, 6, false}, {"two-groups-adjacent-ids", 2, 4, true}, {"three-groups", 3, 3, true}}
	}
	// internal deadline: a phase that runs out of time stops at a depth boundary or mid-depth and is reported as
	// capped (exhaustive:false with the depth that was completed); it never alarms
	budget := 150 * time.Second
	if run.Thorough() {
		budget = 30 * time.Minute
	}
	deadline := time.Now().Add(budget)
	complete := true
	states, transitions := 0, 0
	outcomes := map[string]int{}
	samples := &ev.Samples{N: 6}
	perPhase := map[string]interface{}{}
	const workers = 16
	dbs := []*badger.DB{db}
	for i := 1; i < workers; i++ {
		dbs = append(dbs, world.MemDB())
	}
	var mu sync.Mutex
	// borrowed phase (ev.RunPart): the borrowing check may select phases by name
	var onlyPhase *regexp.Regexp
	if rx := os.Getenv("VERIF_PART_PHASES"); rx != "" && os.Getenv("VERIF_AS") != "" {
		onlyPhase = regexp.MustCompile(rx)
	}
	for _, ph := range phases {
		if onlyPhase != nil && !onlyPhase.MatchString(ph.name) {
			continue
		}
		seen := map[string]bool{}
		w0, k, d := build(db, ph.groups, nil)
		if k != "" {
			run.Violation(k, d, map[string]interface{}{"groups": ph.groups, "ops": []op{}})
			continue
		}
		seen[w0.canon()] = true
		phStates, phTrans := 1, 0
		frontier := [][]op{{}}
		depthDone := 0
		for dpt := 0; dpt < ph.depth && len(frontier) > 0; dpt++ {
			var next [][]op
			capped := false
			jobs := make(chan []op, len(frontier))
			for _, p := range frontier {
				jobs <- p
			}
			close(jobs)
			var wg sync.WaitGroup
			for wi := 0; wi < workers; wi++ {
				wg.Add(1)
				go func(db *badger.DB) {
					defer wg.Done()
					for path := range jobs {
						if time.Now().After(deadline) {
							mu.Lock()
							capped = true
							mu.Unlock()
							continue
						}
						w, k, _ := build(db, ph.groups, path)
						if k != "" {
							continue
						}
						for _, o := range w.enabled(ph.multi) {
							np := append(append([]op{}, path...), o)
							nw, k, desc := build(db, ph.groups, np)
							var c string
							if k == "" {
								c = nw.canon()
							}
							mu.Lock()
							phTrans++
							if k != "" {
								outcomes[k]++
								run.Violation(k, desc, map[string]interface{}{"groups": ph.groups, "ops": np})
								mu.Unlock()
								continue
							}
							outcomes["ok"]++
							if !seen[c] {
								seen[c] = true
								phStates++
								next = append(next, np)
								if len(np) == ph.depth {
									samples.Add(fmt.Sprint(np))
								}
							}
							mu.Unlock()
						}
					}
				}(dbs[wi])
			}
			wg.Wait()
			// deterministic frontier order
			sort.Slice(next, func(i, j int) bool { return fmt.Sprint(next[i]) < fmt.Sprint(next[j]) })
			frontier = next
			if capped {
				complete = false
				for _, d := range dbs {
					d.DropAll()
				}
				break
			}
			depthDone = dpt + 1
			for _, d := range dbs {
				d.DropAll() // keep the DBs small
			}
		}
		perPhase[ph.name] = map[string]interface{}{"states": phStates, "transitions": phTrans, "depth_completed": depthDone, "depth_target": ph.depth}
		states += phStates
		transitions += phTrans
	}
	diskEvals, longEvals := 0, 0
	if onlyPhase == nil || onlyPhase.MatchString("single-group") {
		diskEvals = onDiskLargeEntries(run)
		longEvals = longLog(run, world.MemDB())
	}
	run.Assumptions = []string{
		"alphabet = calls raft may legally issue: contiguous batches starting in [first,last+1] with non-decreasing terms, overwrites only as real conflicts, received snapshots newer than the current one and never on a matching entry, local snapshots at indices of the log; indices <= 7, terms <= 3",
		"reference = etcd raft.MemoryStorage (Append / SetHardState skipped for empty state / ApplySnapshot then Append / CreateSnapshot+Compact)",
		"a single Badger WriteBatch flush is atomic (crash points are C03/C05's business)",
	}
	run.Finish(ev.Coverage{
		"states":                        states,
		"transitions":                   transitions,
		"traces_validated_against_impl": transitions,
		"evaluations":                   transitions,
		"distinct_nontrivial":           states,
		"rule":                          "BFS over legal Storage call sequences on the real badgerWAL; after every call every live store of every group answers FirstIndex, LastIndex, Term(first-2..last+2), Entries(all lo<hi, 4 size limits), Snapshot, InitialState exactly as its own MemoryStorage; distinct = canonical (raw DB keys+values of the group, private cache contents)",
		"per_phase":                     perPhase,
		"on_disk_large_entry_queries":   diskEvals,
		"long_log_queries":              longEvals,
		"outcome_classes":               outcomes,
		"samples":                       samples.List(),
		"exhaustive":                    complete,
		"time_budget":                   budget.String(),
	})
}

// onDiskLargeEntries is a directed phase on a database opened the way the server opens it (on disk, LSM-only options:
// values above 1 MiB go to the value log, where Badger's size estimate of a value is no longer its length): four
// entries around that threshold, every Entries(lo,hi,max) with max on / just around every cumulative size, warm and
// after a reopen of the store object; then a conflicting overwrite and a compaction. Reference as everywhere.
func onDiskLargeEntries(run *ev.Run) int {
	dir, err := os.MkdirTemp(os.Getenv("VERIF_WORK"), "c06disk")
	if err != nil {
		ev.Tool("%v", err)
	}
	defer os.RemoveAll(dir)
	db, err := badger.Open(badger.LSMOnlyOptions(dir).WithLogger(nil))
	if err != nil {
		ev.Tool("on-disk badger: %v", err)
	}
	defer db.Close()
	gid := world.ID(0xd15c, 0x1122334455667788)
	w := wal.NewBadgerWAL(db, gid)
	ref := etcdRaft.NewMemoryStorage()
	big := func(i, t uint64, n int) raftpb.Entry {
		return raftpb.Entry{Index: i, Term: t, Type: raftpb.EntryNormal, Data: bytes.Repeat([]byte{byte('a' + i)}, n)}
	}
	evals := 0
	fail := func(key, desc string) int {
		run.Violation(key+":on-disk-large-entries", desc, map[string]interface{}{"directed": "on-disk-large-entries"})
		return evals
	}
	compare := func(when string) (string, string) {
		rf, _ := ref.FirstIndex()
		rl, _ := ref.LastIndex()
		var cum []uint64
		for a := rf; a <= rl; a++ {
			es, _ := ref.Entries(a, rl+1, ^uint64(0))
			var c uint64
			for _, e := range es {
				c += uint64(e.Size())
				cum = append(cum, c)
			}
		}
		for a := rf; a <= rl; a++ {
			for b := a + 1; b <= rl+1; b++ {
				for _, c := range cum {
					for _, d := range []int64{-2, -1, 0, 1, 2, 3, 8} {
						max := uint64(int64(c) + d)
						es, err := w.Entries(a, b, max)
						res, rerr := ref.Entries(a, b, max)
						evals++
						if err != rerr {
							return "entries-error", fmt.Sprintf("%s: Entries(%d,%d,%d) error %v reference %v", when, a, b, max, errStr(err), errStr(rerr))
						}
						if err == nil && !sameEntries(es, res) {
							return "entries", fmt.Sprintf("%s: Entries(%d,%d,%d) returned %d entries, reference %d", when, a, b, max, len(es), len(res))
						}
					}
				}
			}
		}
		f, _ := w.FirstIndex()
		l, _ := w.LastIndex()
		if f != rf || l != rl {
			return "firstindex", fmt.Sprintf("%s: first/last %d/%d reference %d/%d", when, f, l, rf, rl)
		}
		return "", ""
	}
	step := func(when string, es []raftpb.Entry) (string, string) {
		if err := w.Save(raftpb.HardState{Term: es[0].Term, Vote: 1, Commit: es[0].Index - 1}, es, raftpb.Snapshot{}); err != nil {
			return "save-error", fmt.Sprintf("%s: %v", when, err)
		}
		ref.Append(es)
		if k, d := compare(when); k != "" {
			return k, d
		}
		w = wal.NewBadgerWAL(db, gid) // cold cache
		return compare(when + ", store reopened")
	}
	const mib = 1 << 20
	if k, d := step("four entries of 0.9 / 1.0+ / 1.1 / 1.3 MiB", []raftpb.Entry{big(1, 1, mib*9/10), big(2, 1, mib+5), big(3, 1, mib*11/10), big(4, 1, mib*13/10)}); k != "" {
		return fail(k, d)
	}
	if k, d := step("conflicting overwrite of 3..4 by one 1.2 MiB entry", []raftpb.Entry{big(3, 2, mib*12/10)}); k != "" {
		return fail(k, d)
	}
	if _, err := w.CreateSnapshot(2, &confState, []byte("local2")); err != nil {
		return fail("create-snapshot-error", err.Error())
	}
	ref.CreateSnapshot(2, &confState, []byte("local2"))
	ref.Compact(2)
	if k, d := compare("after CreateSnapshot(2)"); k != "" {
		return fail(k, d)
	}
	w = wal.NewBadgerWAL(db, gid)
	if k, d := compare("after CreateSnapshot(2), store reopened"); k != "" {
		return fail(k, d)
	}
	return evals
}

// longLog is a directed phase beyond the BFS's indices <= 7: a log of 2500 entries, one compaction that has to drop 2100
// of them, a conflicting overwrite that drops 300, a received snapshot beyond the end - each followed by a reopen (cold
// cache) - with the store's answers compared at a spread of indices (whatever works in batches has its boundary there).
func longLog(run *ev.Run, db *badger.DB) int {
	gid := world.ID(0x10e6, 0x1122334455667788)
	w := wal.NewBadgerWAL(db, gid)
	ref := etcdRaft.NewMemoryStorage()
	evals := 0
	spots := func(when string) (string, string) {
		rf, _ := ref.FirstIndex()
		rl, _ := ref.LastIndex()
		f, err := w.FirstIndex()
		l, err2 := w.LastIndex()
		evals += 2
		if err != nil || err2 != nil || f != rf || l != rl {
			return "firstindex", fmt.Sprintf("%s: first/last %d/%d (%v %v), reference %d/%d", when, f, l, err, err2, rf, rl)
		}
		for _, i := range []uint64{0, 1, 2, 100, 1023, 1024, 1025, 1026, 2047, 2048, 2049, rf - 2, rf - 1, rf, rf + 1, rl - 1, rl, rl + 1} {
			if i > rl+1 {
				continue
			}
			t, err := w.Term(i)
			rt, rerr := ref.Term(i)
			evals++
			if t != rt || err != rerr {
				return "term", fmt.Sprintf("%s: Term(%d)=%d,%v reference %d,%v (first=%d last=%d)", when, i, t, errStr(err), rt, errStr(rerr), rf, rl)
			}
			if i+2 <= rl+1 {
				es, err := w.Entries(i, i+2, ^uint64(0))
				res, rerr := ref.Entries(i, i+2, ^uint64(0))
				evals++
				if err != rerr || err == nil && !sameEntries(es, res) {
					return "entries", fmt.Sprintf("%s: Entries(%d,%d) = %d entries,%v reference %d,%v", when, i, i+2, len(es), errStr(err), len(res), errStr(rerr))
				}
			}
		}
		return "", ""
	}
	both := func(when string) (string, string) {
		if k, d := spots(when); k != "" {
			return k, d
		}
		w = wal.NewBadgerWAL(db, gid)
		return spots(when + ", store reopened")
	}
	fail := func(k, d string) int {
		run.Violation(k+":long-log", d, map[string]interface{}{"directed": "long-log"})
		return evals
	}
	for start := uint64(1); start <= 2500; start += 500 {
		var es []raftpb.Entry
		for i := start; i < start+500; i++ {
			es = append(es, entry(i, 1))
		}
		if err := w.Save(raftpb.HardState{Term: 1, Vote: 1, Commit: start}, es, raftpb.Snapshot{}); err != nil {
			return fail("save-error", err.Error())
		}
		ref.Append(es)
	}
	if k, d := both("2500 entries appended"); k != "" {
		return fail(k, d)
	}
	if _, err := w.CreateSnapshot(2100, &confState, []byte("local2100")); err != nil {
		return fail("create-snapshot-error", err.Error())
	}
	ref.CreateSnapshot(2100, &confState, []byte("local2100"))
	ref.Compact(2100)
	if k, d := both("CreateSnapshot(2100) on a log of 2500"); k != "" {
		return fail(k, d)
	}
	over := []raftpb.Entry{entry(2201, 2), entry(2202, 2)}
	if err := w.Save(raftpb.HardState{Term: 2, Vote: 1, Commit: 2200}, over, raftpb.Snapshot{}); err != nil {
		return fail("save-error", err.Error())
	}
	ref.Append(over)
	if k, d := both("conflicting overwrite at 2201 (drops 300 entries)"); k != "" {
		return fail(k, d)
	}
	snap := raftpb.Snapshot{Data: []byte("recv3000"), Metadata: raftpb.SnapshotMetadata{Index: 3000, Term: 2, ConfState: confState}}
	if err := w.Save(raftpb.HardState{Term: 2, Vote: 1, Commit: 3000}, nil, snap); err != nil {
		return fail("save-error", err.Error())
	}
	ref.ApplySnapshot(snap)
	if k, d := both("received snapshot at 3000"); k != "" {
		return fail(k, d)
	}
	return evals
}

func replay(db *badger.DB, path string) {
	if b, err := os.ReadFile(path); err == nil && bytes.Contains(b, []byte("long-log")) {
		run := ev.Start("C06", "model_checking")
		longLog(run, db)
		if run.NewViolations() > 0 {
			fmt.Printf("VIOLATION property=%s replay=%s\n  long-log\n", ev.As("C06"), path)
			os.Exit(1)
		}
		fmt.Println("replay: property held")
		return
	}
	if b, err := os.ReadFile(path); err == nil && bytes.Contains(b, []byte("on-disk-large-entries")) {
		run := ev.Start("C06", "model_checking")
		onDiskLargeEntries(run)
		if run.NewViolations() > 0 {
			fmt.Printf("VIOLATION property=%s replay=%s\n  on-disk-large-entries\n", ev.As("C06"), path)
			os.Exit(1)
		}
		fmt.Println("replay: property held")
		return
	}
	var f struct {
		Replay struct {
			Groups int  `json:"groups"`
			Ops    []op `json:"ops"`
		} `json:"replay"`
	}
	b, err := os.ReadFile(path)
	if err != nil {
		ev.Tool("%v", err)
	}
	if err := json.Unmarshal(b, &f); err != nil {
		ev.Tool("%v", err)
	}
	_, k, d := build(db, f.Replay.Groups, f.Replay.Ops)
	if k != "" && ev.Counts(k) {
		fmt.Printf("VIOLATION property=%s replay=%s\n  %s: %s\n", ev.As("C06"), path, k, d)
		os.Exit(1)
	}
	fmt.Println("replay: property held")
}
