// C03 — acknowledged writes survive a crash at any instant and restart.
//
// E2 / fault enumeration: write histories are proposed through a REAL RaftGroup over a real
// badgerWAL (per-node in-memory Badger = the disk) whose replicated application is the REAL
// partition state machine (apply / snapshot / restore functions). For every history and EVERY
// durable-write boundary the run passes (immediately before and after each mutating Badger
// call, found by running the history once) the node is crashed there, restarted through the
// production constructor path, and its recovered contents are compared with the acknowledged
// history. Single replica: all crash instants; three replicas: crash of any one replica.
package main

import (
	"encoding/json"
	"fmt"
	"os"
	"time"

	"anndbverif/idxlib"
	"anndbverif/lib/ev"
	"anndbverif/lib/shard"
	"anndbverif/partlib"
	"anndbverif/sim"

	etcdRaft "github.com/coreos/etcd/raft"
	"github.com/marekgalovic/anndb/index"
)

// partApp is the replicated application: the real partition state machine.
type partApp struct{ r *partlib.Replica }

func (a *partApp) Process(data []byte) error { return a.r.P.Apply(data) }
func (a *partApp) Snapshot() ([]byte, error) { return a.r.P.Snapshot() }
func (a *partApp) Restore(data []byte) error { return a.r.P.Restore(data) }
func (a *partApp) Digest() string            { return contents(a.r.P.Index().VerifDump()) }

func contents(d index.VerifDumpT) string {
	s := fmt.Sprintf("len%d", d.Len)
	for _, v := range d.Vertices {
		s += fmt.Sprintf("|%s %v %v", idxlib.Name(v.Id), v.Vector, v.Metadata)
	}
	return s
}

func refContents(ref idxlib.Ref) string {
	s := fmt.Sprintf("len%d", len(ref))
	for i := range idxlib.IDs {
		if it, ok := ref[idxlib.IDs[i]]; ok {
			m := map[string]string{}
			for k, v := range it.Meta {
				m[k] = v
			}
			var mm map[string]string
			if it.Meta != nil {
				mm = m
			}
			s += fmt.Sprintf("|%s %v %v", idxlib.Name(idxlib.IDs[i]), it.Vec, mm)
		}
	}
	return s
}

type step struct {
	Op       int  `json:"op"` // index into alphabet, -1 = snapshot
	Snapshot bool `json:"snapshot,omitempty"`
	// With: writes submitted together with the snapshot tick (it fires while they are on their way into the group)
	With []int `json:"with,omitempty"`
}

type crashPoint struct {
	Node  uint64 `json:"node"`
	Count int    `json:"durable_write"` // crash at this durable write of the node, counted from the first write of the history (0 = none)
	After bool   `json:"after"`
	AtEnd bool   `json:"at_end"`                // crash at quiescence after the whole history
	Fail  bool   `json:"write_fails,omitempty"` // instead of a crash: this durable write fails (the store refuses it, nothing is written); whatever the node does then, it restarts afterwards
}

type caseT struct {
	Nodes   int        `json:"nodes"`
	History []step     `json:"history"`
	Crash   crashPoint `json:"crash"`
	// Burst: all messages in flight to one replica are handed over back to back, its ready loop being the slow one (a
	// snapshot and the appends behind it then reach the state machine in one Ready)
	Burst bool `json:"burst,omitempty"`
	// Opposite: every transition runs under the opposite of the default schedule (sim.oppositePick)
	Opposite bool `json:"opposite_schedule,omitempty"`
}

var alphabet = []partlib.Op{
	{Kind: "ins", Items: []partlib.ItemSpec{{ID: 0, Vec: 0, Meta: 1}}},
	{Kind: "ins", Items: []partlib.ItemSpec{{ID: 1, Vec: 1, Meta: 0}}},
	{Kind: "upd", Items: []partlib.ItemSpec{{ID: 0, Vec: 2, Meta: 3}}},
	{Kind: "rem", Items: []partlib.ItemSpec{{ID: 0}}},
	{Kind: "bins", Items: []partlib.ItemSpec{{ID: 0, Vec: 1, Meta: 2}, {ID: 1, Vec: 0, Meta: 0}}},
}

// enumerated is the part of the alphabet the enumerated histories draw from; the operations behind it only occur in
// the directed histories: metadata on both sides of the byte limits of the snapshot format, in multi-byte characters
// (partlib.MBMetas: 9 = 255-byte key, storable; 8 = 258-byte key of 86 characters; 11 = 65535-byte value, storable;
// 10 = 65538-byte value of 21846 characters). What is acknowledged must come back from a snapshot after a restart;
// what the format cannot hold must have been refused.
const enumerated = 5

func init() {
	partlib.MBMetas()
	alphabet = append(alphabet,
		partlib.Op{Kind: "ins", Items: []partlib.ItemSpec{{ID: 1, Vec: 1, Meta: 9}}},
		partlib.Op{Kind: "ins", Items: []partlib.ItemSpec{{ID: 2, Vec: 0, Meta: 8}}},
		partlib.Op{Kind: "upd", Items: []partlib.ItemSpec{{ID: 0, Vec: 1, Meta: 11}}},
		partlib.Op{Kind: "upd", Items: []partlib.ItemSpec{{ID: 0, Vec: 0, Meta: 10}}},
	)
}

var directed = [][]step{
	{{Op: 0}, {Op: 5}, {Op: 6}, {Op: -1, Snapshot: true}},
	{{Op: 0}, {Op: 6}, {Op: -1, Snapshot: true}, {Op: 7}, {Op: 8}, {Op: -1, Snapshot: true}},
	{{Op: 0}, {Op: 8}, {Op: 5}, {Op: -1, Snapshot: true}, {Op: 3}},
}

// the snapshot tick fires while writes are on their way into the group: whatever index the stored snapshot is labelled
// with must be the index its contents correspond to. The writes are an update of an absent id followed by its insert -
// applied a second time on top of their own effect they leave something else.
var directedLoaded = [][]step{
	{{Op: 1}, {Op: -1, Snapshot: true, With: []int{2, 0}}},
	{{Op: 1}, {Op: -1, Snapshot: true, With: []int{2, 0}}, {Op: 3}},
	{{Op: 1}, {Op: -1, Snapshot: true}, {Op: 3}, {Op: -1, Snapshot: true, With: []int{2, 0, 2}}},
}

func (c caseT) String() string {
	s := fmt.Sprintf("N=%d [", c.Nodes)
	if c.Burst {
		s = fmt.Sprintf("N=%d (messages in bursts) [", c.Nodes)
	}
	if c.Opposite {
		s = fmt.Sprintf("N=%d (opposite schedule) [", c.Nodes)
	}
	for _, st := range c.History {
		if st.Snapshot && len(st.With) > 0 {
			s += "snapshot tick while {"
			for _, o := range st.With {
				s += alphabet[o].String() + "; "
			}
			s += "} are on their way; "
		} else if st.Snapshot {
			s += "snapshot; "
		} else {
			s += alphabet[st.Op].String() + "; "
		}
	}
	s += "]"
	switch {
	case c.Crash.AtEnd:
		s += fmt.Sprintf(" crash n%d after the history", c.Crash.Node)
	case c.Crash.Count > 0 && c.Crash.Fail:
		s += fmt.Sprintf(" n%d's durable write #%d fails (store refuses), then n%d restarts", c.Crash.Node, c.Crash.Count, c.Crash.Node)
	case c.Crash.Count > 0:
		ph := "before"
		if c.Crash.After {
			ph = "after"
		}
		s += fmt.Sprintf(" crash n%d %s its durable write #%d", c.Crash.Node, ph, c.Crash.Count)
	}
	return s
}

var burst bool

func drain(w *sim.World) {
	for i := 0; i < 500 && len(w.Net) > 0; i++ {
		net := w.SortedNet()
		if !burst {
			w.Deliver(net[0], false)
			continue
		}
		var ms []*sim.Msg
		for _, m := range net {
			if m.To == net[0].To {
				ms = append(ms, m)
			}
		}
		w.DeliverBurst(ms)
	}
}

func leader(w *sim.World) uint64 {
	for _, n := range w.Nodes {
		if st, ok := w.Status(n.ID); ok && st.RaftState == etcdRaft.StateLeader {
			return n.ID
		}
	}
	return 0
}

// runCase executes one case; returns the number of durable writes the crash target performed
// while the history ran, and a violation.
func runCase(c caseT) (durable int, key, desc string) {
	if c.Opposite {
		for _, st := range c.History {
			if len(st.With) > 0 {
				return 0, "", "" // the opposite schedule would also reverse the order of the concurrent submissions
			}
		}
	}
	burst = c.Burst
	defer func() { burst = false }()
	w := sim.NewWorld(c.Nodes, func(n *sim.Node) sim.App { return &partApp{partlib.NewReplica()} })
	w.Opposite = c.Opposite
	defer w.Close()
	for i := 1; i <= c.Nodes; i++ {
		w.Start(uint64(i))
	}
	w.Tick(1, 10)
	drain(w)
	if leader(w) != 1 {
		return 0, "setup-no-leader", "node 1 did not become leader"
	}
	target := c.Crash.Node
	if target == 0 {
		target = 1
	}
	base := w.Durable[target]
	if c.Crash.Count > 0 && c.Crash.Fail {
		w.ArmFail(target, c.Crash.Count)
	} else if c.Crash.Count > 0 {
		w.ArmCrash(target, c.Crash.Count, c.Crash.After)
	}
	// reference states after each prefix
	ref := idxlib.Ref{}
	prefixStates := []string{refContents(ref)}
	var wantOutcome []partlib.Outcome
	for _, st := range c.History {
		ops := st.With
		if !st.Snapshot {
			ops = []int{st.Op}
		}
		for _, o := range ops {
			wantOutcome = append(wantOutcome, partlib.RefApply(ref, alphabet[o]))
			prefixStates = append(prefixStates, refContents(ref))
		}
	}
	submitted, acked := 0, 0
	pos := 0
	for _, st := range c.History {
		ld := leader(w)
		if ld == 0 || w.Nodes[ld-1].Crashed {
			break // the proposer is gone: nothing more is submitted
		}
		if st.Snapshot && len(st.With) == 0 {
			for _, n := range w.Nodes {
				if !n.Crashed {
					w.SnapshotTick(n.ID)
				}
			}
			continue
		}
		app := w.Nodes[ld-1].App.(*partApp)
		ops := []int{st.Op}
		if st.Snapshot {
			ops = st.With
		}
		var chans []<-chan interface{}
		var entries [][]byte
		for j, o := range ops {
			ch, nid := app.r.ExpectAt(pos + j)
			chans = append(chans, ch)
			entries = append(entries, partlib.Entry(alphabet[o], nid))
		}
		submitted += len(ops)
		if st.Snapshot {
			w.SnapshotTickWith(ld, entries)
		} else {
			w.Propose(ld, entries[0])
		}
		drain(w)
		for j, o := range ops {
			if j > 0 {
				pos++
			}
			op := alphabet[o]
			select {
			case res := <-chans[j]:
				// the outcome reached the waiting caller: that is the acknowledgement, even if the node
				// crashes an instant later
				if got := partlib.Canon(res, partlib.IsBatch(op)); got != wantOutcome[pos] {
					return w.Durable[target] - base, "wrong-outcome", fmt.Sprintf("%v: entry %d %v acknowledged with %q, reference %q", c, pos, op, got, wantOutcome[pos])
				}
				if acked != pos {
					return w.Durable[target] - base, "acknowledged-out-of-order", fmt.Sprintf("%v: entry %d acknowledged while %d earlier ones were not", c, pos, pos-acked)
				}
				acked = pos + 1
			default:
			}
		}
		pos++
		if c.Crash.Fail && len(w.Violations) > 0 && w.Violations[0].Key == "fatal" && !w.Nodes[target-1].Crashed {
			// the store refused a write and the process ended itself (log.Fatal): a crash the code chose - the right
			// reaction; what counts is what was acknowledged before and what is there after the restart
			w.Violations = nil
			w.Crash(target)
		}
		if len(w.Violations) > 0 {
			return w.Durable[target] - base, w.Violations[0].Key, fmt.Sprintf("%v: %s", c, w.Violations[0].Desc)
		}
	}
	durable = w.Durable[target] - base
	if (c.Crash.AtEnd || c.Crash.Fail) && !w.Nodes[target-1].Crashed {
		w.Crash(target)
	}
	w.Disarm(0)
	// restart + fair suffix
	if w.Nodes[target-1].Crashed {
		w.Start(target)
		if len(w.Violations) > 0 {
			return durable, "restart:" + w.Violations[0].Key, fmt.Sprintf("%v: restart failed: %s", c, w.Violations[0].Desc)
		}
	}
	for round := 0; round < 6; round++ {
		drain(w)
		if ld := leader(w); ld != 0 {
			w.Tick(ld, 1)
		} else {
			w.Tick(uint64(round%c.Nodes+1), 10)
		}
		if len(w.Violations) > 0 {
			return durable, "recovery:" + w.Violations[0].Key, fmt.Sprintf("%v: %s", c, w.Violations[0].Desc)
		}
	}
	drain(w)
	if leader(w) == 0 {
		return durable, "no-leader-after-recovery", fmt.Sprintf("%v: the group has no leader after restart and 6 rounds of time-outs", c)
	}
	// oracle: every live replica holds the effect of a prefix of the submitted history that contains
	// every acknowledged write
	for _, n := range w.Nodes {
		if n.Crashed {
			continue
		}
		got := n.App.Digest()
		ok := false
		for m := acked; m <= submitted; m++ {
			if got == prefixStates[m] {
				ok = true
			}
		}
		if !ok {
			lost := "acknowledged-write-lost"
			for m := 0; m < acked; m++ {
				if got == prefixStates[m] {
					lost = "acknowledged-write-lost"
				}
			}
			matchAny := false
			for m := 0; m <= len(prefixStates)-1; m++ {
				if got == prefixStates[m] {
					matchAny = true
				}
			}
			if !matchAny {
				lost = "recovered-contents-match-no-prefix"
			}
			return durable, lost, fmt.Sprintf("%v: %d writes submitted, %d acknowledged; after restart node %d holds {%s}; acceptable: prefixes %d..%d, e.g. {%s}", c, submitted, acked, n.ID, got, acked, submitted, prefixStates[acked])
		}
	}
	return durable, "", ""
}

func histories(maxLen int, withSnapshot bool) [][]step {
	var out [][]step
	var rec func(h []step, writes int)
	rec = func(h []step, writes int) {
		if writes > 0 {
			out = append(out, append([]step{}, h...))
		}
		if len(h) >= maxLen {
			return
		}
		for i := 0; i < enumerated; i++ {
			rec(append(h, step{Op: i}), writes+1)
		}
		if withSnapshot && writes > 0 && !h[len(h)-1].Snapshot {
			rec(append(h, step{Op: -1, Snapshot: true}), writes)
		}
	}
	rec(nil, 0)
	return out
}

type result struct {
	Cases, Histories int
	Complete         bool
	Violations       []struct {
		Key, Desc string
		Case      caseT
	}
}

const c06Keys = `^(term|entries|entries-error|firstindex|lastindex|snapshot|initialstate|save-error|create-snapshot-error|create-snapshot-value|nil|panic)$`

func main() {
	thorough := os.Getenv("VERIF_TIER") == "thorough"
	if len(os.Args) > 2 && os.Args[1] == "--replay" {
		if ev.PartOf(os.Args[2]) == "C06" {
			ev.ReplayPart("C03", os.Getenv("VERIF_BIN_C06"), c06Keys, os.Args[2], "VERIF_PART_PHASES=^single-group$")
		}
		var f struct {
			Replay caseT `json:"replay"`
		}
		b, _ := os.ReadFile(os.Args[2])
		json.Unmarshal(b, &f)
		_, k, d := runCase(f.Replay)
		if k != "" && ev.Counts(k) {
			fmt.Printf("VIOLATION property=%s replay=%s\n  %s: %s\n", ev.As("C03"), os.Args[2], k, d)
			os.Exit(1)
		}
		fmt.Println("replay: property held")
		return
	}
	len1, len3 := 4, 3
	budget := 110 * time.Second
	if thorough {
		len1, len3 = 5, 4
		budget = 25 * time.Minute
	}
	// borrowed phase (ev.RunPart) "replicas": only the three-replica histories, each run to the end and with a crash +
	// restart of the leader / of a follower after it (no crash-point enumeration): what a replica holds after applying,
	// after installing a snapshot as a lagging follower, and after restart and replay
	replicasOnly := os.Getenv("VERIF_AS") != "" && os.Getenv("VERIF_PART_MODE") == "replicas"
	if si, sn, ok := shard.Child(); ok {
		res := result{Complete: true}
		deadline := time.Now().Add(budget)
		seen := map[string]bool{}
		idx := 0
		do := func(nodes int, hs [][]step) {
			for _, h := range hs {
				idx++
				if idx%sn != si {
					continue
				}
				if time.Now().After(deadline) {
					res.Complete = false
					return
				}
				res.Histories++
				targets := []uint64{1}
				if nodes == 3 {
					targets = []uint64{1, 2}
				}
				for _, t := range targets {
					base := caseT{Nodes: nodes, History: h, Crash: crashPoint{Node: t}}
					d, k, desc := runCase(base) // also counts the durable writes of the target
					res.Cases++
					report := func(c caseT, k, desc string) {
						if k != "" && !seen[k] {
							seen[k] = true
							res.Violations = append(res.Violations, struct {
								Key, Desc string
								Case      caseT
							}{k, desc, c})
						}
					}
					report(base, k, desc)
					var cps []crashPoint
					for j := 1; j <= d; j++ {
						if replicasOnly {
							// only what makes a follower lag behind (it is caught up by a snapshot later)
							if t == 2 {
								cps = append(cps, crashPoint{Node: t, Count: j})
							}
							continue
						}
						cps = append(cps, crashPoint{Node: t, Count: j}, crashPoint{Node: t, Count: j, After: true}, crashPoint{Node: t, Count: j, Fail: true})
					}
					cps = append(cps, crashPoint{Node: t, AtEnd: true})
					for _, cp := range cps {
						c := caseT{Nodes: nodes, History: h, Crash: cp}
						_, k, desc := runCase(c)
						res.Cases++
						report(c, k, desc)
						if !cp.Fail && (cp.AtEnd || !cp.After) {
							// the same crash point with every transition under the opposite of the default schedule
							c.Opposite = true
							_, k, desc := runCase(c)
							res.Cases++
							report(c, k, desc)
							c.Opposite = false
						}
						if nodes == 3 && (cp.AtEnd || t == 2 && !cp.After && !cp.Fail) {
							// the restarted replica catches up; once more with its messages arriving in bursts
							c.Burst = true
							_, k, desc := runCase(c)
							res.Cases++
							report(c, k, desc)
						}
					}
				}
			}
		}
		// the directed histories first: the deadline must not cut them off
		if !replicasOnly {
			do(1, directed)
		}
		do(1, directedLoaded)
		do(3, directedLoaded)
		do(3, directed[:1]) // 64 KB log entries on three replicas make Badger flush and compact megabytes per case: keys only
		if !replicasOnly {
			do(1, histories(len1, true))
		}
		do(3, histories(len3, true))
		shard.Emit(res)
		return
	}
	run := ev.Start("C03", "fault_enumeration")
	const n = 16
	cases, hists, complete := 0, 0, true
	shard.Run(n, n, []string{"VERIF_TUNABLE_snapshotOffset=0"}, func(i int, raw []byte) error {
		var r result
		if err := json.Unmarshal(raw, &r); err != nil {
			return err
		}
		cases += r.Cases
		hists += r.Histories
		complete = complete && r.Complete
		for _, v := range r.Violations {
			run.Violation(v.Key, v.Desc, v.Case)
		}
		return nil
	})
	// the log store under the replicas: what raft reads back after a restart is what C06 decides; its single-group
	// phase counts here for every answer raft would get wrong (isolation between groups and group deletion do not)
	run.RunPart("log-store-C06", os.Getenv("VERIF_BIN_C06"), c06Keys, "VERIF_PART_PHASES=^single-group$")
	run.Assumptions = []string{
		"directed histories (all crash points, both cluster sizes): metadata keys and values in multi-byte characters on both sides of the byte limits of the snapshot format, with snapshots in between",
		"a single Badger write batch / transaction is atomic and durable once Flush/Commit returns; torn writes inside Badger and over-sized batches split by Badger are out of scope",
		"write faults: each durable write of the target may instead FAIL (the store returns an error and writes nothing); the node may die (log.Fatal is taken as a crash) or go on, and is restarted after the history either way",
		"between two durable writes the durable state is constant, so crashing immediately before the next write dominates every earlier instant of the interval; both ends of every interval are enumerated",
		"the replicated application is the real partition state machine wired to the RaftGroup exactly as partition.loadRaft does (Register*, Start); writes are proposed sequentially by one client on the leader",
		"the snapshot offset is lowered to 0 so that a local snapshot+compaction is reachable after one entry",
	}
	run.Finish(ev.Coverage{
		"evaluations":                   cases,
		"distinct_nontrivial":           cases,
		"states":                        cases,
		"transitions":                   cases,
		"traces_validated_against_impl": cases,
		"rule":                          fmt.Sprintf("every history of 1..%d writes (5 operations, optional snapshot steps) on one replica and of 1..%d writes on three replicas x every crash point of the target replica: before and after each durable write the history makes it perform, that write failing instead, and after the history; one evaluation = one complete run (boot, elect, history, crash, restart, fair suffix, compare); all (history, crash point) pairs are distinct", len1, len3),
		"histories":                     hists,
		"samples":                       []interface{}{caseT{Nodes: 1, History: []step{{Op: 0}, {Op: -1, Snapshot: true}, {Op: 2}}, Crash: crashPoint{Node: 1, Count: 3, After: true}}.String()},
		"exhaustive":                    complete,
	})
}
