// C19 — priority queues pop in order; Reverse yields an independent queue.
//
// E3: explicit-state BFS over operation sequences on the REAL utils.PriorityQueue.
// A state is the set of live queues including the aliasing of their backing arrays
// (read through the slice ToSlice returns), so merged states have identical futures.
// Successors are computed by replaying the shortest path on fresh objects.
package main

import (
	"encoding/json"
	"fmt"
	"math"
	"os"
	"sort"
	"strings"
	"unsafe"

	"anndbverif/lib/ev"

	"github.com/marekgalovic/anndb/utils"
)

type op struct {
	Q    int    `json:"q"`
	Kind string `json:"op"` // push, pop, reverse
	P    int    `json:"p,omitempty"`
}

func (o op) String() string {
	if o.Kind == "push" {
		return fmt.Sprintf("q%d.push(%d)", o.Q, o.P)
	}
	return fmt.Sprintf("q%d.%s", o.Q, o.Kind)
}

type refItem struct {
	p   float32
	tag int
}

type world struct {
	// callerSlice is the slice handed to the constructor (len = initial items, two spare slots holding sentinels);
	// the caller keeps it and scribbles over it right after construction - it is the caller's, not the queue's
	callerSlice []*utils.PriorityQueueItem
	sentinels   [2]*utils.PriorityQueueItem
	qs          []utils.PriorityQueue
	isMin       []bool
	refs        [][]refItem
	tag         int
}

// root describes how the first queue is constructed: kind + items handed to the constructor.
type root struct {
	Min  bool  `json:"min"`
	Init []int `json:"init,omitempty"`
	// Ext marks the second pass from an empty queue with the extended alphabet (see enabled); it changes nothing in
	// how a path is replayed
	Ext bool `json:"ext,omitempty"`
}

func newWorld(r root) *world {
	w := &world{}
	items := make([]*utils.PriorityQueueItem, 0, len(r.Init)+2)
	var ref []refItem
	for _, p := range r.Init {
		w.tag++
		items = append(items, utils.NewPriorityQueueItem(float32(p), w.tag))
		ref = append(ref, refItem{float32(p), w.tag})
	}
	if r.Min {
		w.qs = append(w.qs, utils.NewMinPriorityQueue(items...))
	} else {
		w.qs = append(w.qs, utils.NewMaxPriorityQueue(items...))
	}
	w.isMin = append(w.isMin, r.Min)
	w.refs = append(w.refs, ref)
	// the caller goes on using its slice: the spare slots get sentinels, the handed-over part is overwritten
	w.callerSlice = items
	full := items[:cap(items)]
	for i := range w.sentinels {
		w.sentinels[i] = utils.NewPriorityQueueItem(77, -1-i)
		full[len(items)+i] = w.sentinels[i]
	}
	for i := range items {
		items[i] = utils.NewPriorityQueueItem(99, -10-i)
	}
	return w
}

// callerSliceIntact: the queue must never write into the slice its constructor was given.
func (w *world) callerSliceIntact() (string, string) {
	full := w.callerSlice[:cap(w.callerSlice)]
	for i := range w.sentinels {
		if full[len(w.callerSlice)+i] != w.sentinels[i] {
			return "queue-writes-into-constructor-argument", fmt.Sprintf("slot %d past the items handed to the constructor was overwritten by the queue", i)
		}
	}
	for i := range w.callerSlice {
		if it := w.callerSlice[i]; it == nil || it.Priority() != 99 {
			return "queue-writes-into-constructor-argument", fmt.Sprintf("element %d of the slice handed to the constructor was overwritten by the queue", i)
		}
	}
	return "", ""
}

func (w *world) extreme(q int) float32 {
	r := w.refs[q]
	e := r[0].p
	for _, it := range r {
		if w.isMin[q] && it.p < e || !w.isMin[q] && it.p > e {
			e = it.p
		}
	}
	return e
}

// apply performs o on the real object and the reference; returns a violation (key, desc).
func (w *world) apply(o op) (key, desc string) {
	defer func() {
		if r := recover(); r != nil {
			key, desc = "panic", fmt.Sprintf("%v panicked: %v", o, r)
		}
	}()
	switch o.Kind {
	case "popreverse", "pushreverse":
		// two calls with NO observation in between (whatever a call leaves half-done is still there when the next one starts)
		first := op{Q: o.Q, Kind: "pop"}
		if o.Kind == "pushreverse" {
			first = op{Q: o.Q, Kind: "push", P: o.P}
		}
		if k, d := w.applyRaw(first); k != "" {
			return k, d
		}
		if k, d := w.applyRaw(op{Q: o.Q, Kind: "reverse"}); k != "" {
			return k, d
		}
		return w.observe(o)
	}
	if k, d := w.applyRaw(o); k != "" {
		return k, d
	}
	return w.observe(o)
}

// prio maps the alphabet's priority numbers to values: 0..3, and 4 = negative zero (a legal non-negative priority that
// compares equal to zero).
func prio(p int) float32 {
	if p == 4 {
		return float32(math.Copysign(0, -1))
	}
	return float32(p)
}

// applyRaw performs one call on the real object and the reference without observing anything.
func (w *world) applyRaw(o op) (key, desc string) {
	switch o.Kind {
	case "push":
		w.tag++
		w.qs[o.Q].Push(utils.NewPriorityQueueItem(prio(o.P), w.tag))
		w.refs[o.Q] = append(w.refs[o.Q], refItem{prio(o.P), w.tag})
	case "pop":
		want := w.extreme(o.Q)
		it := w.qs[o.Q].Pop()
		if it.Priority() != want {
			return "pop-order", fmt.Sprintf("%v returned priority %v, reference extreme is %v", o, it.Priority(), want)
		}
		found := -1
		for i, r := range w.refs[o.Q] {
			if r.tag == it.Value().(int) && r.p == it.Priority() {
				found = i
			}
		}
		if found < 0 {
			return "pop-foreign-item", fmt.Sprintf("%v returned item (%v,%v) that the queue does not hold", o, it.Priority(), it.Value())
		}
		w.refs[o.Q] = append(append([]refItem{}, w.refs[o.Q][:found]...), w.refs[o.Q][found+1:]...)
	case "reverse":
		nq := w.qs[o.Q].Reverse()
		w.qs = append(w.qs, nq)
		w.isMin = append(w.isMin, !w.isMin[o.Q])
		w.refs = append(w.refs, append([]refItem{}, w.refs[o.Q]...))
	}
	return "", ""
}

// observe checks Len, Peek, contents and heap order of every live queue (Peek is an observation,
// not an operation: it does not change state).
func (w *world) observe(after op) (string, string) {
	if k, d := w.callerSliceIntact(); k != "" {
		return k, fmt.Sprintf("after %v: %s", after, d)
	}
	for q := range w.qs {
		// Values() is an observation too (a copy of the values): it must see exactly the held items and disturb nothing -
		// it is made first, so that every check below also sees what it left behind
		vals := []string{}
		for _, v := range w.qs[q].Values() {
			vals = append(vals, fmt.Sprint(v))
		}
		wantVals := []string{}
		for _, r := range w.refs[q] {
			wantVals = append(wantVals, fmt.Sprint(r.tag))
		}
		sort.Strings(vals)
		sort.Strings(wantVals)
		if strings.Join(vals, ",") != strings.Join(wantVals, ",") {
			return "values", fmt.Sprintf("after %v: q%d.Values()=%v, reference %v", after, q, vals, wantVals)
		}
	}
	for q := range w.qs {
		if w.qs[q].Len() != len(w.refs[q]) {
			return "len", fmt.Sprintf("after %v: q%d.Len()=%d, reference holds %d", after, q, w.qs[q].Len(), len(w.refs[q]))
		}
		if len(w.refs[q]) == 0 {
			continue
		}
		if p := w.qs[q].Peek().Priority(); p != w.extreme(q) {
			cls := "peek-order"
			if q != after.Q || after.Kind == "reverse" {
				cls = "peek-order-other-queue" // an operation on one queue disturbed another
			}
			return cls, fmt.Sprintf("after %v: q%d.Peek()=%v, reference extreme %v", after, q, p, w.extreme(q))
		}
		got := []string{}
		for _, it := range w.qs[q].ToSlice() {
			got = append(got, fmt.Sprintf("%v/%v", it.Priority(), it.Value()))
		}
		want := []string{}
		for _, r := range w.refs[q] {
			want = append(want, fmt.Sprintf("%v/%v", r.p, r.tag))
		}
		sort.Strings(got)
		sort.Strings(want)
		if strings.Join(got, ",") != strings.Join(want, ",") {
			return "contents", fmt.Sprintf("after %v: q%d holds %v, reference %v", after, q, got, want)
		}
	}
	return "", ""
}

// drain pops every queue to empty (on copies of nothing: it is the final step of a path)
// and checks the complete pop order.
func (w *world) drain() (string, string) {
	for q := range w.qs {
		for len(w.refs[q]) > 0 {
			if k, d := w.apply(op{Q: q, Kind: "pop"}); k != "" {
				return "drain-" + k, d
			}
		}
	}
	return "", ""
}

// drainIter empties every queue through ToIterator (the queue's own "pop everything in order") and checks the order.
func (w *world) drainIter() (key, desc string) {
	defer func() {
		if r := recover(); r != nil {
			key, desc = "drain-iterator-panic", fmt.Sprint(r)
		}
	}()
	for q := range w.qs {
		n := 0
		for it := range w.qs[q].ToIterator() {
			if len(w.refs[q]) == 0 {
				return "drain-iterator-extra-item", fmt.Sprintf("q%d's iterator yields more items than the queue holds", q)
			}
			want := w.extreme(q)
			if it.Priority() != want {
				return "drain-iterator-order", fmt.Sprintf("q%d's iterator yields priority %v at position %d, reference extreme is %v", q, it.Priority(), n, want)
			}
			found := -1
			for i, r := range w.refs[q] {
				if r.tag == it.Value().(int) && r.p == it.Priority() {
					found = i
				}
			}
			if found < 0 {
				return "drain-iterator-foreign-item", fmt.Sprintf("q%d's iterator yields (%v,%v) which the queue does not hold", q, it.Priority(), it.Value())
			}
			w.refs[q] = append(append([]refItem{}, w.refs[q][:found]...), w.refs[q][found+1:]...)
			n++
		}
		if len(w.refs[q]) != 0 {
			return "drain-iterator-short", fmt.Sprintf("q%d's iterator ended with %d items still held", q, len(w.refs[q]))
		}
	}
	return "", ""
}

// largeQueues is a directed part beyond the BFS bounds: queues that grow to thousands of items and shrink again (any
// resizing or re-packing of the storage happens only there), with ties, a reverse in the middle, every pop checked.
func largeQueues(run *ev.Run) int {
	steps := 0
	for _, min := range []bool{true, false} {
		for _, n := range []int{1100, 2600, 4200} {
			w := newWorld(root{Min: min})
			seed := uint64(n)*7919 + 13
			rnd := func(m int) int {
				seed = seed*6364136223846793005 + 1442695040888963407
				return int((seed >> 33) % uint64(m))
			}
			fail := func(k, d string) {
				run.Violation(k+":large-queue", fmt.Sprintf("min=%v n=%d: %s", min, n, d), map[string]interface{}{"large_queue": map[string]interface{}{"min": min, "n": n}})
			}
			ok := true
			step := func(o op, light bool) {
				if !ok {
					return
				}
				steps++
				var k, d string
				if light && o.Kind == "push" {
					// (full observation after each of thousands of pushes is quadratic; pops are always checked)
					w.tag++
					w.qs[o.Q].Push(utils.NewPriorityQueueItem(float32(o.P), w.tag))
					w.refs[o.Q] = append(w.refs[o.Q], refItem{float32(o.P), w.tag})
				} else if o.Kind == "pop" {
					want := w.extreme(o.Q)
					it := w.qs[o.Q].Pop()
					found := -1
					for i, r := range w.refs[o.Q] {
						if r.tag == it.Value().(int) && r.p == it.Priority() {
							found = i
						}
					}
					if it.Priority() != want || found < 0 {
						k, d = "pop-order", fmt.Sprintf("pop #%d with %d items left returned priority %v, reference extreme %v", steps, len(w.refs[o.Q]), it.Priority(), want)
					} else {
						w.refs[o.Q] = append(w.refs[o.Q][:found], w.refs[o.Q][found+1:]...)
						if len(w.refs[o.Q]) > 0 && w.qs[o.Q].Peek().Priority() != w.extreme(o.Q) {
							k, d = "peek-order", fmt.Sprintf("after pop #%d Peek()=%v, reference extreme %v", steps, w.qs[o.Q].Peek().Priority(), w.extreme(o.Q))
						}
					}
				} else {
					k, d = w.apply(o)
				}
				if k != "" {
					ok = false
					fail(k, d)
				}
			}
			for i := 0; i < n; i++ {
				step(op{Q: 0, Kind: "push", P: rnd(40)}, true)
			}
			for i := 0; i < n*7/8; i++ { // drain below an eighth of the peak
				step(op{Q: 0, Kind: "pop"}, true)
			}
			step(op{Q: 0, Kind: "reverse"}, false)
			for i := 0; i < 300; i++ {
				step(op{Q: 0, Kind: "push", P: rnd(40)}, true)
				step(op{Q: 1, Kind: "push", P: rnd(40)}, true)
			}
			for q := 0; q < 2 && ok; q++ {
				for len(w.refs[q]) > 0 && ok {
					step(op{Q: q, Kind: "pop"}, true)
				}
			}
		}
	}
	return steps
}

// canon describes the real state including slice aliasing.
func (w *world) canon() string {
	var sb strings.Builder
	groups := map[uintptr]int{}
	rename := map[int]int{}
	for q := range w.qs {
		s := w.qs[q].ToSlice()
		full := s[:cap(s)]
		var base uintptr
		if cap(s) > 0 {
			base = uintptr(unsafe.Pointer(&full[0]))
		}
		g, ok := groups[base]
		if !ok {
			g = len(groups)
			groups[base] = g
		}
		fmt.Fprintf(&sb, "|%v g%d len%d cap%d:", w.isMin[q], g, len(s), cap(s))
		for _, it := range full {
			if it == nil {
				sb.WriteString(" nil")
				continue
			}
			t := it.Value().(int)
			if _, ok := rename[t]; !ok {
				rename[t] = len(rename)
			}
			fmt.Fprintf(&sb, " %v/%d", it.Priority(), rename[t])
		}
		// reference (part of the state the oracle branches on)
		rs := []string{}
		for _, r := range w.refs[q] {
			if _, ok := rename[r.tag]; !ok {
				rename[r.tag] = len(rename)
			}
			rs = append(rs, fmt.Sprintf("%v/%d", r.p, rename[r.tag]))
		}
		sort.Strings(rs)
		fmt.Fprintf(&sb, " ref%v", rs)
	}
	return sb.String()
}

func build(min root, path []op) (w *world, key string, desc string) {
	defer func() {
		if r := recover(); r != nil {
			key, desc = "panic", fmt.Sprintf("constructor %+v panicked: %v", min, r)
		}
	}()
	w = newWorld(min)
	if k, d := w.observe(op{Kind: "construct"}); k != "" {
		return w, "constructor-" + k, d
	}
	for _, o := range path {
		if k, d := w.apply(o); k != "" {
			return w, k, d
		}
	}
	return w, "", ""
}

// enabled lists the steps out of a state. ext is the alphabet of the second pass from the empty roots: priorities
// {0,1,-0.0} - negative zero is a legal priority equal to zero - and the compound steps (a pop or
// push immediately followed by Reverse, nothing observed in between). Both on top of the plain alphabet multiply the
// state count by ten, hence a pass of its own with its own seen set.
func enabled(w *world, maxQueues, maxLen int, ext bool, thorough bool) []op {
	var out []op
	prios := []int{0, 1, 2, 3}
	if ext {
		prios = []int{0, 1, 4}
	}
	for q := range w.qs {
		if len(w.refs[q]) < maxLen {
			for _, p := range prios {
				out = append(out, op{Q: q, Kind: "push", P: p})
			}
		}
		if len(w.refs[q]) > 0 {
			out = append(out, op{Q: q, Kind: "pop"})
		}
		if len(w.qs) < maxQueues {
			out = append(out, op{Q: q, Kind: "reverse"})
			if ext && len(w.refs[q]) > 0 {
				out = append(out, op{Q: q, Kind: "popreverse"})
			}
			if ext && len(w.refs[q]) < maxLen {
				out = append(out, op{Q: q, Kind: "pushreverse", P: 1})
			}
		}
	}
	return out
}

func main() {
	run := ev.Start("C19", "model_checking")
	depth, maxQ, maxLen := 6, 3, 5
	if run.Thorough() {
		depth, maxQ, maxLen = 8, 3, 6
	}
	if len(os.Args) > 2 && os.Args[1] == "--replay" {
		replay(os.Args[2])
		return
	}
	states, transitions, maxDepthDone := 0, 0, 0
	samples := &ev.Samples{N: 5}
	outcomes := map[string]int{}
	var roots []root
	for _, min := range []bool{true, false} {
		roots = append(roots, root{Min: min})
	}
	for _, min := range []bool{true, false} {
		for a := 0; a <= 3; a++ {
			for b := 0; b <= 3; b++ {
				roots = append(roots, root{Min: min, Init: []int{a, b}})
				for c := 0; c <= 3; c++ {
					roots = append(roots, root{Min: min, Init: []int{a, b, c}})
				}
			}
		}
	}
	roots = append(roots, root{Min: true, Ext: true}, root{Min: false, Ext: true})
	seenBy := map[[2]bool]map[string]bool{}
	for _, min := range roots {
		if seenBy[[2]bool{min.Min, min.Ext}] == nil {
			seenBy[[2]bool{min.Min, min.Ext}] = map[string]bool{}
		}
		seen := seenBy[[2]bool{min.Min, min.Ext}]
		rootDepth := depth
		if min.Ext && run.Thorough() {
			rootDepth = depth - 1 // 7 alternatives per queue instead of 6: one level less keeps the pass within the hour
		}
		if len(min.Init) > 0 {
			rootDepth = depth - 2 // constructor-seeded roots merge quickly with states already seen
		}
		w0, k0, d0 := build(min, nil)
		if k0 == "" {
			dw, _, _ := build(min, nil)
			k0, d0 = dw.drain()
		}
		transitions++
		if k0 != "" {
			outcomes[k0]++
			run.Violation(k0, d0, map[string]interface{}{"min": min, "ops": []op{}})
			continue
		}
		if c := w0.canon(); !seen[c] {
			seen[c] = true
			states++
		}
		frontier := [][]op{{}}
		for d := 0; d < rootDepth && len(frontier) > 0; d++ {
			var next [][]op
			for _, path := range frontier {
				w, k, _ := build(min, path)
				if k != "" {
					continue // violating states are not extended
				}
				for _, o := range enabled(w, maxQ, maxLen, min.Ext, run.Thorough()) {
					np := append(append([]op{}, path...), o)
					nw, k, desc := build(min, np)
					transitions++
					if k == "" {
						// complete pop order from this state, on a throw-away copy; and once more through the queue's iterator
						dw, _, _ := build(min, np)
						k, desc = dw.drain()
					}
					if k == "" {
						dw, _, _ := build(min, np)
						k, desc = dw.drainIter()
					}
					if k != "" {
						outcomes[k]++
						run.Violation(k, desc, map[string]interface{}{"min": min, "ops": np})
						continue
					}
					outcomes["ok"]++
					c := nw.canon()
					if !seen[c] {
						seen[c] = true
						states++
						next = append(next, np)
						if len(np) >= 4 && o.Kind == "reverse" {
							samples.Add(fmt.Sprintf("root=%+v %v", min, np))
						}
					}
				}
			}
			frontier = next
			if len(min.Init) == 0 && !min.Min {
				maxDepthDone = d + 1
			}
		}
	}
	large := largeQueues(run)
	transitions += large
	run.Assumptions = []string{
		"directed part: min and max queues grown to 1100 / 2600 / 4200 items (priorities 0..39 with ties), drained below an eighth, reversed, refilled and drained, every pop and the following Peek checked",
		"priorities from {0,1,2,3} (ties included); a second pass from the empty roots with priorities {0,1,-0.0} (one level less deep in the thorough tier; negative zero is a legal priority equal to zero) and pop-then-reverse / push-then-reverse as single steps without an observation in between; at most " + fmt.Sprint(maxLen) + " items per queue and " + fmt.Sprint(maxQ) + " live queues",
		"Values/Peek/Len/ToSlice are observations made after every step on every live queue (Values first); every reached state is additionally drained by pops and, on another copy, through ToIterator",
	}
	run.Finish(ev.Coverage{
		"states":                        states,
		"transitions":                   transitions,
		"traces_validated_against_impl": transitions,
		"max_depth_completed":           maxDepthDone,
		"evaluations":                   transitions,
		"distinct_nontrivial":           states,
		"rule":                          "BFS over push/pop/reverse sequences on the real queue from 162 roots (+2 for the second pass) (empty min/max queue and every constructor call with 2 or 3 initial items); distinct = canonical state (heap layout up to cap, backing-array aliasing between queues, reference multiset)",
		"outcome_classes":               outcomes,
		"large_queue_steps":             large,
		"samples":                       samples.List(),
		"exhaustive":                    true,
		"explanation":                   "the model is the implementation itself; the reference oracle is a multiset per live queue",
	})
}

func replay(path string) {
	var f struct {
		Replay struct {
			Min root `json:"min"`
			Ops []op `json:"ops"`
		} `json:"replay"`
	}
	b, err := os.ReadFile(path)
	if err != nil {
		ev.Tool("%v", err)
	}
	if err := json.Unmarshal(b, &f); err != nil {
		ev.Tool("%v", err)
	}
	if b2, _ := os.ReadFile(path); strings.Contains(string(b2), "large_queue") {
		run := ev.Start("C19", "model_checking")
		largeQueues(run)
		if run.NewViolations() > 0 {
			fmt.Printf("VIOLATION property=%s replay=%s\n  large-queue\n", ev.As("C19"), path)
			os.Exit(1)
		}
		fmt.Println("replay: property held")
		return
	}
	w, k, d := build(f.Replay.Min, f.Replay.Ops)
	if k == "" {
		k, d = w.drain()
	}
	if k == "" {
		w2, _, _ := build(f.Replay.Min, f.Replay.Ops)
		k, d = w2.drainIter()
	}
	if k != "" {
		fmt.Printf("VIOLATION property=%s replay=%s\n  %s: %s\n", ev.As("C19"), path, k, d)
		os.Exit(1)
	}
	fmt.Println("replay: property held")
}
