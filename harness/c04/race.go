package main

import (
	"fmt"
	"os"
	"sync"

	"anndbverif/idxlib"
	"anndbverif/partlib"
	"anndbverif/world"
)

// racePass is the free-running twin (real goroutines, race detector): two partitions of one process - they share
// nothing a log entry or a snapshot may touch - apply their logs, take snapshots and restore them into fresh
// replicas AT THE SAME TIME. Each compares what it restored with its own reference; the race detector sees accesses the
// cooperative scheduler cannot (no synchronisation operation, hence no scheduling point, lies between them).
func racePass() {
	world.Quiet()
	iters := 600
	if os.Getenv("VERIF_TIER") == "thorough" {
		iters = 6000
	}
	logs := [][]partlib.Op{
		{{Kind: "ins", Items: []partlib.ItemSpec{{ID: 0, Vec: 0, Meta: 1}}}, {Kind: "ins", Items: []partlib.ItemSpec{{ID: 1, Vec: 1, Meta: 2}}}, {Kind: "upd", Items: []partlib.ItemSpec{{ID: 0, Vec: 2, Meta: 3}}}},
		{{Kind: "bins", Items: []partlib.ItemSpec{{ID: 0, Vec: 2, Meta: 0}, {ID: 2, Vec: 1, Meta: 4}, {ID: 2, Vec: 0, Meta: 1}, {ID: 0, Vec: 0, Meta: 2}}}, {Kind: "ins", Items: []partlib.ItemSpec{{ID: 1, Vec: 0, Meta: 3}}}, {Kind: "rem", Items: []partlib.ItemSpec{{ID: 0}}}},
	}
	var mu sync.Mutex
	reported := map[string]bool{}
	report := func(k, d string) {
		mu.Lock()
		defer mu.Unlock()
		if !reported[k] {
			reported[k] = true
			fmt.Printf("FREE-RUNNING-VIOLATION %s: %s\n", k, d)
		}
	}
	var wg sync.WaitGroup
	for g, lg := range logs {
		wg.Add(1)
		go func(g int, lg []partlib.Op) {
			defer wg.Done()
			for it := 0; it < iters; it++ {
				r := partlib.NewReplica()
				ref := idxlib.Ref{}
				for i, o := range lg {
					want := partlib.RefApply(ref, o)
					// (not Replica.Apply: its deterministic notification ids come from one process-wide counter)
					ch, nid := r.P.Expect()
					aerr := r.P.Apply(partlib.Entry(o, nid))
					var got partlib.Outcome = "no-outcome-reported"
					select {
					case res := <-ch:
						got = partlib.Canon(res, partlib.IsBatch(o))
					default:
					}
					r.P.Unexpect(nid)
					if aerr != nil || got != want {
						report("wrong-outcome:two-partitions-at-once", fmt.Sprintf("partition %d: %v reported %q (%v), a sequential map reports %q", g, o, got, aerr, want))
					}
					snap, err := r.P.Snapshot()
					if err != nil {
						report("snapshot-error:two-partitions-at-once", fmt.Sprintf("partition %d: %v", g, err))
						continue
					}
					nr := partlib.NewReplica()
					if err := nr.P.Restore(snap); err != nil {
						report("restore-error:two-partitions-at-once", fmt.Sprintf("partition %d: restoring its own %d-byte snapshot: %v", g, len(snap), err))
						continue
					}
					if a, b := contents(r.P.Index().VerifDump()), contents(nr.P.Index().VerifDump()); a != b {
						report("replicas-differ:two-partitions-at-once", fmt.Sprintf("partition %d after %v: the replica that applied the log holds {%s}, the one that restored its snapshot {%s}", g, lg[:i+1], a, b))
					}
				}
			}
		}(g, lg)
	}
	wg.Wait()
	fmt.Printf("RACEPASS iterations=%d partitions=%d\n", iters, len(logs))
}
