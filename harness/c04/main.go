// C04 — replicas applying the same log hold identical contents; snapshot equals replay.
//
// E3: BFS over logs of byte-identical replicated entries (the C02 alphabet). For every log P
// reached and EVERY cut point c: replica A applies all of P; replica B applies P[:c] and takes
// a snapshot; a FRESH replica C restores it and applies P[c:]; a USED replica D (holding
// another log's contents) restores it and applies P[c:]. Each role runs under a different
// map-iteration order policy. Contents (ids, vector bits, metadata), item count, data-byte
// counter and the outcome of every entry must agree on all replicas and with a sequential map.
package main

import (
	"anndbverif/lib/racepass"
	"bytes"
	"encoding/json"
	"fmt"
	"os"
	"strings"
	"time"

	"anndbverif/idxlib"
	"anndbverif/lib/ev"
	"anndbverif/lib/shard"
	"anndbverif/partlib"
	"anndbverif/seq"
	"anndbverif/vrt"
	"anndbverif/world"

	"github.com/marekgalovic/anndb/index"
)

type wld struct {
	a   *partlib.Replica
	ref idxlib.Ref
}

var alphabet []partlib.Op

// contents is the replica-independent part of the state: what the property compares.
func contents(d index.VerifDumpT) string {
	s := fmt.Sprintf("len%d bytes%d", d.Len, d.DataBytes)
	for _, v := range d.Vertices {
		s += fmt.Sprintf("|%s %v %v", idxlib.Name(v.Id), v.Vector, v.Metadata)
	}
	return s
}

// applyAll applies entries[from:] of the log to r; returns outcomes or a violation.
func applyAll(r *partlib.Replica, path []partlib.Op, entries [][]byte, from int, role string) ([]partlib.Outcome, string, string) {
	var outs []partlib.Outcome
	for i := from; i < len(path); i++ {
		out, aerr, pan := r.Apply(i, entries[i], partlib.IsBatch(path[i]))
		if pan != nil {
			return nil, "apply-panic", fmt.Sprintf("replica %s: applying %v panicked: %v", role, path[i], pan)
		}
		if aerr != nil {
			return nil, "apply-returns-error", fmt.Sprintf("replica %s: applying %v returned %v", role, path[i], aerr)
		}
		outs = append(outs, out)
	}
	return outs, "", ""
}

var usedReplica = partlib.UsedReplica

func build(path []partlib.Op) (*wld, string, string) {
	entries := make([][]byte, len(path))
	for i, o := range path {
		entries[i] = partlib.Entry(o, partlib.NotifID(i)) // built once: byte-identical on every replica
	}
	// replica A: everything, policy 0
	vrt.InactiveMapPolicy = 0
	w := &wld{a: partlib.NewReplica(), ref: idxlib.Ref{}}
	var want []partlib.Outcome
	for _, o := range path {
		want = append(want, partlib.RefApply(w.ref, o))
	}
	outsA, k, d := applyAll(w.a, path, entries, 0, "A")
	if k != "" {
		return w, k, d
	}
	for i := range path {
		if outsA[i] != want[i] {
			return w, "wrong-outcome", fmt.Sprintf("entry %d %v reported %q, a sequential map reports %q", i, path[i], outsA[i], want[i])
		}
	}
	if k, d := idxlib.CheckContents(w.a.P.Index(), w.ref, idxlib.IDs[:4]); k != "" {
		return w, k, d
	}
	ca := contents(w.a.P.Index().VerifDump())
	for c := 0; c <= len(path); c++ {
		vrt.InactiveMapPolicy = 1
		b := partlib.NewReplica()
		if _, k, d := applyAll(b, path[:c], entries[:c], 0, "B"); k != "" {
			return w, k, d
		}
		snap, err := b.P.Snapshot()
		if err != nil {
			return w, "snapshot-error", fmt.Sprintf("cut %d: snapshot failed: %v", c, err)
		}
		if c < len(path) {
			// B goes on (applies the rest and snapshots again) while the first snapshot's bytes are still in use - the log
			// store keeps them and the raft message that carries them is marshalled later: they must stay what they were
			keep := append([]byte{}, snap...)
			if _, k, d := applyAll(b, path[:c+1], entries[:c+1], c, "B"); k != "" { // one more entry is enough to change the contents
				return w, k, d
			}
			snap2, err := b.P.Snapshot()
			if err != nil {
				return w, "snapshot-error", fmt.Sprintf("cut %d: second snapshot failed: %v", c, err)
			}
			// the second snapshot of the same replica (one entry after the first) is what that replica holds NOW
			e := partlib.NewReplica()
			if err := e.P.Restore(snap2); err != nil {
				return w, "restore-error:second-snapshot", fmt.Sprintf("cut %d: restoring the replica's second snapshot (%d bytes, one entry after its first): %v", c, len(snap2), err)
			}
			if ce, cb := contents(e.P.Index().VerifDump()), contents(b.P.Index().VerifDump()); ce != cb {
				return w, "second-snapshot-differs-from-its-replica", fmt.Sprintf("cut %d: the replica snapshotted, applied %v and snapshotted again; it holds %s, its second snapshot restores to %s", c, path[c], cb, ce)
			}
			if !bytes.Equal(keep, snap) {
				return w, "earlier-snapshot-bytes-changed", fmt.Sprintf("cut %d: the %d bytes returned by the snapshot at the cut were overwritten when the replica took its next snapshot", c, len(snap))
			}
		}
		for _, role := range []string{"C-fresh", "D-used"} {
			var r *partlib.Replica
			if role == "C-fresh" {
				vrt.InactiveMapPolicy = 2
				r = partlib.NewReplica()
			} else {
				vrt.InactiveMapPolicy = 0
				r = usedReplica()
				vrt.InactiveMapPolicy = 3
			}
			if err := r.P.Restore(snap); err != nil {
				key := "restore-error"
				if len(snap) == 0 {
					key = "restore-empty-snapshot-error"
				}
				return w, key + ":" + role, fmt.Sprintf("cut %d: replica %s: restoring the %d-byte snapshot failed: %v", c, role, len(snap), err)
			}
			outs, k, d := applyAll(r, path, entries, c, role)
			if k != "" {
				return w, k, fmt.Sprintf("cut %d: %s", c, d)
			}
			for i := range outs {
				if outs[i] != want[c+i] {
					return w, "outcome-differs-after-restore:" + role, fmt.Sprintf("cut %d: replica %s: entry %d %v reported %q, replica A %q", c, role, c+i, path[c+i], outs[i], want[c+i])
				}
			}
			if cr := contents(r.P.Index().VerifDump()); cr != ca {
				return w, "contents-differ-after-restore:" + role, fmt.Sprintf("cut %d: replica %s holds %s, replica A holds %s", c, role, cr, ca)
			}
			if k, d := idxlib.CheckContents(r.P.Index(), w.ref, idxlib.IDs[:4]); k != "" {
				return w, k + ":" + role, fmt.Sprintf("cut %d: %s", c, d)
			}
		}
	}
	vrt.InactiveMapPolicy = 0
	return w, "", ""
}

type result struct {
	St         seq.Stats
	Violations []struct {
		Key, Desc string
		Path      []partlib.Op
	}
	Samples []string
}

const c06Keys = `^isolation-`
const c03Keys = `^(acknowledged-write-lost|recovered-contents-match-no-prefix|wrong-outcome)$`
const c05Keys = `^(replicas-apply-different-entries|replicas-do-not-converge|applied-entry-never-proposed|replica-ends-without-what-was-applied)$`

func main() {
	world.Quiet()
	if len(os.Args) > 1 && os.Args[1] == "--race-pass" {
		racePass()
		return
	}
	if len(os.Args) > 2 && os.Args[1] == "--replay" {
		switch ev.PartOf(os.Args[2]) {
		case "C06":
			ev.ReplayPart("C04", os.Getenv("VERIF_BIN_C06"), c06Keys, os.Args[2], "VERIF_PART_PHASES=groups")
		case "C03":
			ev.ReplayPart("C04", os.Getenv("VERIF_BIN_C03"), c03Keys, os.Args[2], "VERIF_PART_MODE=replicas", "VERIF_TUNABLE_snapshotOffset=0")
		case "C05":
			ev.ReplayPart("C04", os.Getenv("VERIF_BIN_C05"), c05Keys, os.Args[2], "VERIF_PART_MODE=directed", "VERIF_TUNABLE_snapshotOffset=0")
		}
		var f struct {
			Replay struct {
				Ops []partlib.Op `json:"ops"`
			} `json:"replay"`
		}
		b, err := os.ReadFile(os.Args[2])
		if err != nil {
			ev.Tool("%v", err)
		}
		json.Unmarshal(b, &f)
		partlib.WSMetas()
		_, k, d := build(f.Replay.Ops)
		if k != "" {
			fmt.Printf("VIOLATION property=%s replay=%s\n  %s: %s\n", ev.As("C04"), os.Args[2], k, d)
			os.Exit(1)
		}
		fmt.Println("replay: property held")
		return
	}
	thorough := os.Getenv("VERIF_TIER") == "thorough"
	depth, budget := 4, 130*time.Second
	if thorough {
		depth, budget = 5, 25*time.Minute
	}
	alphabet = partlib.Alphabet(thorough)
	if si, sn, ok := shard.Child(); ok {
		var res result
		res.St = seq.BFS(seq.Config[*wld, partlib.Op]{
			Depth: depth, Workers: 1, Deadline: time.Now().Add(budget),
			Build:      func(wi int, path []partlib.Op) (*wld, string, string) { return build(path) },
			Enabled:    func(w *wld) []partlib.Op { return alphabet },
			Canon:      func(w *wld) string { return idxlib.DumpKey(w.a.P.Index().VerifDump()) },
			RootFilter: func(i int, o partlib.Op) bool { return i%sn == si },
			OnViolation: func(key, desc string, path []partlib.Op) {
				res.Violations = append(res.Violations, struct {
					Key, Desc string
					Path      []partlib.Op
				}{key, desc, path})
			},
			OnNew: func(path []partlib.Op) {
				if len(path) == depth && len(res.Samples) < 2 {
					res.Samples = append(res.Samples, fmt.Sprint(path))
				}
			},
		})
		if len(res.Violations) > 40 {
			res.Violations = res.Violations[:40]
		}
		shard.Emit(res)
		return
	}
	run := ev.Start("C04", "model_checking")
	// directed logs outside the BFS alphabet: multi-byte metadata keys and values on both sides of the byte limits of the
	// snapshot format (what a character count would let through cannot be restored), every cut point as for any other log
	partlib.WSMetas()
	directed := 0
	for _, lg := range [][]partlib.Op{
		{{"ins", []partlib.ItemSpec{{0, 0, 9}}}, {"ins", []partlib.ItemSpec{{1, 1, 8}}}, {"upd", []partlib.ItemSpec{{0, 1, 8}}}, {"upd", []partlib.ItemSpec{{0, 1, 11}}}, {"upd", []partlib.ItemSpec{{0, 0, 10}}}},
		{{"bins", []partlib.ItemSpec{{0, 0, 8}, {1, 1, 9}, {2, 0, 10}}}, {"bupd", []partlib.ItemSpec{{1, 0, 10}, {1, 1, 11}, {2, 0, 9}}}, {"brem", []partlib.ItemSpec{{1, 0, 0}}}},
		// keys that differ only in surrounding white space are different keys, on every replica and after every restore
		{{"ins", []partlib.ItemSpec{{0, 0, 1}}}, {"upd", []partlib.ItemSpec{{0, 1, 12}}}, {"ins", []partlib.ItemSpec{{1, 1, 13}}}, {"upd", []partlib.ItemSpec{{1, 0, 12}}}},
	} {
		directed += len(lg)
		if _, k, d := build(lg); k != "" {
			run.Violation(k+":directed-metadata", fmt.Sprintf("%v: %s", lg, d), map[string]interface{}{"ops": lg})
		}
	}
	const n = 16
	total := seq.Stats{Outcomes: map[string]int{}, Complete: true, DepthCompleted: depth}
	samples := &ev.Samples{N: 5}
	// a worker that dies (the sequential harness cannot evaluate an apply path that has become concurrent, for one) is a
	// tool failure - unless another part of this check, the free-running pass above all, reports what is wrong
	var deaths []string
	shard.OnDeath = func(i int, tail string) {
		deaths = append(deaths, fmt.Sprintf("worker %d/%d died: %s", i, n, strings.SplitN(strings.TrimSpace(tail), "\n", 2)[0]))
		total.Complete = false
	}
	shard.Run(n, n, nil, func(i int, raw []byte) error {
		var r result
		if err := json.Unmarshal(raw, &r); err != nil {
			return err
		}
		total.States += r.St.States
		total.Transitions += r.St.Transitions
		total.Complete = total.Complete && r.St.Complete
		if r.St.DepthCompleted < total.DepthCompleted {
			total.DepthCompleted = r.St.DepthCompleted
		}
		for k, v := range r.St.Outcomes {
			total.Outcomes[k] += v
		}
		for _, v := range r.Violations {
			run.Violation(v.Key, v.Desc, map[string]interface{}{"ops": v.Path})
		}
		for _, s := range r.Samples {
			samples.Add(s)
		}
		return nil
	})
	raceCov := racepass.Run(run, os.Getenv("VERIF_C04_RACE"))
	if len(deaths) > 0 && run.NewViolations() == 0 {
		ev.Tool("%s", strings.Join(deaths, "; "))
	}
	// "restarted and replayed": the replica re-reads its own group's log from the database it shares with the node's other
	// partitions - C06's multi-group phase counts here for its isolation clauses
	run.RunPart("log-isolation-C06", os.Getenv("VERIF_BIN_C06"), c06Keys, "VERIF_PART_PHASES=groups")
	// the same comparison on replicas fed by the real raft ready loop (three replicas, local snapshots, a lagging follower
	// that installs a snapshot, crash + restart + replay): C03's three-replica histories, counted here for what a replica holds
	run.RunPart("raft-fed-replicas-C03", os.Getenv("VERIF_BIN_C03"), c03Keys, "VERIF_PART_MODE=replicas", "VERIF_TUNABLE_snapshotOffset=0")
	// what the glue hands to the state machine, in which order: C05's directed lagging-follower histories (a snapshot that is
	// lost, slow, interrupted by a crash, or arrives together with the appends behind it), counted here for replicas that end
	// up having applied different things
	run.RunPart("lagging-follower-C05", os.Getenv("VERIF_BIN_C05"), c05Keys, "VERIF_PART_MODE=directed", "VERIF_TUNABLE_snapshotOffset=0")
	run.Assumptions = []string{
		"free-running pass with the race detector (a sample, not exhaustive): two partitions of one process apply, snapshot and restore at the same time",
		"the C02 alphabet (ids {a,b,c}, 3 vectors, 5 metadata shapes, single and batch forms); entries are marshalled once and fed byte-identically to every replica",
		"graph shape is not compared (legitimately order dependent); contents, counters and per-entry outcomes are",
		"map-order policies: A ascending, B descending, C rotate-1, D rotate-2 (while restoring/applying)",
	}
	run.Finish(ev.Coverage{
		"directed_multibyte_entries":    directed,
		"race_pass":                     raceCov["race_pass"],
		"states":                        total.States,
		"transitions":                   total.Transitions,
		"traces_validated_against_impl": total.Transitions,
		"evaluations":                   total.Transitions,
		"distinct_nontrivial":           total.States,
		"rule":                          fmt.Sprintf("BFS over logs (%d entries enabled in every state), 16 process shards by first entry; for each log every cut point 0..len is checked with a fresh and a used restoring replica; distinct = canonical dump of replica A (per shard)", len(alphabet)),
		"depth":                         depth,
		"depth_completed":               total.DepthCompleted,
		"outcome_classes":               total.Outcomes,
		"samples":                       samples.List(),
		"exhaustive":                    total.Complete,
	})
}
