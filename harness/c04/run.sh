#!/bin/bash
set -u
cd "$(dirname "$0")/../.."
export GOFLAGS=-mod=mod GOPROXY=off GOSUMDB=off GOTOOLCHAIN=local
w="${VERIF_WORK:-$PWD/.work/c04.$$}"; mkdir -p "$w"
if ! lib/instr_build.sh harness/c04 "$w/bin" 2> "$w/build.log"; then
  cat "$w/build.log" >&2; echo "TOOL-ERROR: instrumented build failed" >&2; exit 2
fi
# borrowed phases: raft-fed replicas (C03's harness, instrumented) and the log store's group isolation (C06's, plain build)
if ! INSTR_REUSE=1 lib/instr_build.sh harness/c03 "$w/bin-c03" 2> "$w/build2.log"; then
  cat "$w/build2.log" >&2; echo "TOOL-ERROR: instrumented build failed" >&2; exit 2
fi
if ! INSTR_REUSE=1 lib/instr_build.sh harness/c05 "$w/bin-c05" 2> "$w/build4.log"; then
  cat "$w/build4.log" >&2; echo "TOOL-ERROR: instrumented build failed" >&2; exit 2
fi
if ! go build -tags verif -o "$w/bin-c06" ./harness/c06 2> "$w/build3.log"; then
  cat "$w/build3.log" >&2; echo "TOOL-ERROR: build failed" >&2; exit 2
fi
if ! go build -race -gcflags=all=-d=checkptr=0 -tags verif -o "$w/bin-race" ./harness/c04 2> "$w/build5.log"; then
  cat "$w/build5.log" >&2; echo "TOOL-ERROR: race build failed" >&2; exit 2
fi
[ "${1:-}" = "--warm" ] && exit 0
{ flock -u 9 && exec 9>&-; } 2>/dev/null  # the build is done: release the shared lock on /repo's working tree (.work/repo.lock)
VERIF_BIN_C03="$w/bin-c03" VERIF_BIN_C05="$w/bin-c05" VERIF_BIN_C06="$w/bin-c06" VERIF_C04_RACE="$w/bin-race" exec "$w/bin" "$@"
