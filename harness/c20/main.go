// C20 — every member's view of cluster membership converges and survives restart.
//
// E2: explicit-state BFS over membership histories on simulated clusters of REAL servers (real
// Server.setup(), real NodesManager join / remove paths, zero raft group over badgerWAL; only
// the Badger path, the listener and the wire are simulated). Events: a new node joins through a
// member (optionally with the reply stream of the handshake lost, then retried), a member is
// removed, zero-group snapshot (membership log compacted), crash + restart of a member. After
// every event the cluster settles. Invariant: every live member's address book equals the
// acknowledged membership with the announced addresses.
package main

import (
	"context"
	"encoding/json"
	"errors"
	"fmt"
	"os"
	"sort"
	"strings"
	"time"

	"anndbverif/lib/ev"
	"anndbverif/lib/shard"
	"anndbverif/seq"
	"anndbverif/sim"
	"anndbverif/vrt/fakes"
	"anndbverif/world"

	"github.com/coreos/etcd/raft/raftpb"
	pb "github.com/marekgalovic/anndb/protobuf"
)

type event struct {
	Kind string `json:"ev"` // join joinlossy joindead joinsnaplost remove snapshot restart deafen heal
	Node uint64 `json:"n"`
	Via  uint64 `json:"via,omitempty"`
}

func (e event) String() string {
	switch e.Kind {
	case "join":
		return fmt.Sprintf("join(n%d via n%d)", e.Node, e.Via)
	case "joinlossy":
		return fmt.Sprintf("join(n%d via n%d, reply stream lost; then retried)", e.Node, e.Via)
	case "joindead":
		return fmt.Sprintf("join(n%d via [unreachable seed, n%d])", e.Node, e.Via)
	case "joinsnaplost":
		return fmt.Sprintf("join(n%d via n%d; the first snapshot message sent to it fails)", e.Node, e.Via)
	case "remove":
		return fmt.Sprintf("remove(n%d via n%d)", e.Node, e.Via)
	case "entry":
		return fmt.Sprintf("a catalogue entry (dataset created via n%d)", e.Via)
	case "standalone":
		return fmt.Sprintf("n%d is started with -join=false and left alone for an election timeout", e.Node)
	case "opposite-schedule":
		return "(every transition under the opposite of the default schedule)"
	case "down":
		return fmt.Sprintf("n%d goes down", e.Node)
	case "up":
		return fmt.Sprintf("n%d comes back", e.Node)
	case "joinpending":
		return fmt.Sprintf("join(n%d via n%d) while the zero group has no quorum", e.Node, e.Via)
	case "deafen":
		return fmt.Sprintf("n%d stops receiving appends and snapshots (lags behind)", e.Node)
	case "heal":
		return "lagging members receive everything again"
	}
	return fmt.Sprintf("%s(n%d)", e.Kind, e.Node)
}

type wld struct {
	*sim.Servers
	members map[uint64]string // acknowledged membership: id -> announced address
	removed map[uint64]bool
	pending map[uint64]string // joins whose membership change waits for a quorum
	acked   map[uint64]bool   // ... and whether the handshake acknowledged them
	counts  struct{ joins, removes, snapshots, restarts, entries int }
}

// opposite: every transition of the history runs under the opposite of the default schedule (sim.oppositePick).
var opposite bool

func build(path []event) (*wld, string, string) {
	w := &wld{Servers: sim.NewServers(), members: map[uint64]string{}, removed: map[uint64]bool{}}
	w.Opposite = opposite
	w.Add(1, nil)
	if err := w.Boot(1); err != nil {
		return w, "boot-fails", fmt.Sprint(err)
	}
	w.Tick(1, 10)
	w.Settle(2)
	w.members[1] = world.ServerAddr(1)
	if k, d := w.check(); k != "" {
		return w, "boot:" + k, d
	}
	for _, e := range path {
		if e.Kind == "opposite-schedule" {
			w.Opposite = true // replayed histories carry the mode as their first event
			continue
		}
		k, d := w.apply(e)
		if os.Getenv("VERIF_DEBUG") != "" {
			fmt.Fprintf(os.Stderr, "after %v: %s | %s\n", e, k, w.canon())
		}
		if k != "" {
			return w, k, fmt.Sprintf("after %v: %s", e, d)
		}
	}
	return w, "", ""
}

func (w *wld) first() *sim.Violation {
	if len(w.Violations) > 0 {
		return &w.Violations[0]
	}
	return nil
}

func (w *wld) join(id, via uint64, lossy bool, deadSeedFirst bool) (string, string) {
	seeds := []string{world.ServerAddr(via)}
	if deadSeedFirst {
		// the operator lists several seeds; the first one is not running
		seeds = []string{world.ServerAddr(9), world.ServerAddr(via)}
	}
	if w.Node(id) == nil {
		w.Add(id, seeds)
	}
	if n := w.Node(id); n.DoNotJoin && !n.Crashed {
		// a node that was running unattached is attached by restarting it with the members to join
		w.Crash(id)
		n.DoNotJoin = false
	}
	w.Node(id).Join = seeds
	if err := w.Boot(id); err != nil {
		return "boot-fails", fmt.Sprint(err)
	}
	attempt := func() (bool, error) {
		var jerr error
		done := w.Call(id, "join", func() { jerr = w.Node(id).Srv.JoinCluster() })
		w.Settle(4)
		if !done {
			w.FireDeadlines(id)
			w.Settle(1)
		}
		return done, jerr
	}
	if lossy {
		fakes.TruncateStream = func(target, method string, n int) (int, error) {
			return 0, errors.New("rpc error: code = Unavailable desc = transport is closing")
		}
		done, jerr := attempt()
		fakes.TruncateStream = nil
		if done && jerr == nil {
			return "join-succeeds-although-reply-lost", "the join handshake's reply stream was cut before any member arrived, yet Join returned success"
		}
		// the process exits on a failed join (cmd/anndb log.Fatal); the operator starts it again
		w.Crash(id)
		if err := w.Boot(id); err != nil {
			return "boot-fails", fmt.Sprint(err)
		}
	}
	done, jerr := attempt()
	if v := w.first(); v != nil {
		return v.Key, v.Desc
	}
	if !done || jerr != nil {
		return "join-fails-on-healthy-cluster", fmt.Sprintf("node %d could not join through node %d: returned=%v err=%v", id, via, done, jerr)
	}
	w.members[id] = world.ServerAddr(id)
	delete(w.removed, id)
	return "", ""
}

func (w *wld) apply(e event) (string, string) {
	switch e.Kind {
	case "join", "joinlossy", "joindead", "joinsnaplost":
		w.counts.joins++
		if e.Kind == "joinsnaplost" {
			failed := false
			w.FailSend = func(from uint64, m raftpb.Message) bool {
				if m.Type == raftpb.MsgSnap && m.To == e.Node && !failed {
					failed = true
					return true
				}
				return false
			}
		}
		k, d := w.join(e.Node, e.Via, e.Kind == "joinlossy", e.Kind == "joindead")
		w.FailSend = nil
		if k != "" {
			return k, d
		}
	case "entry":
		w.counts.entries++
		// an entry that is not a membership change travels through the same log (a dataset is created through node Via)
		var err error
		done := false
		w.Call(e.Via, "create", func() {
			_, err = fakes.Registry[world.ServerAddr(e.Via)].Datasets.Create(context.Background(), &pb.Dataset{Dimension: 2, PartitionCount: 1, ReplicationFactor: 1})
			done = true
		})
		w.Settle(4)
		if !done {
			w.FireDeadlines(e.Via)
			w.Settle(1)
		}
		if !done || err != nil {
			return "catalogue-entry-fails-on-healthy-cluster", fmt.Sprintf("returned=%v err=%v", done, err)
		}
	case "standalone":
		// a node started with -join=false and left alone for longer than an election timeout: it must stay empty (no
		// zero group of its own), so that it can be attached to the cluster afterwards
		if w.Node(e.Node) == nil {
			w.Add(e.Node, nil)
		}
		w.Node(e.Node).DoNotJoin = true
		if err := w.Boot(e.Node); err != nil {
			return "boot-fails", fmt.Sprint(err)
		}
		w.Tick(e.Node, 25)
		w.Settle(2)
		var st string
		w.Call(e.Node, "st", func() {
			s := w.Node(e.Node).Srv.VerifZeroGroup().VerifStatus()
			st = fmt.Sprintf("term %d commit %d %s", s.Term, s.Commit, s.RaftState)
			if s.RaftState.String() == "StateLeader" || s.Commit > 0 {
				st = "!" + st
			}
		})
		if strings.HasPrefix(st, "!") {
			return "unattached-node-bootstraps-a-zero-group-of-its-own", fmt.Sprintf("node %d was started with -join=false and no cluster to join; after an election timeout its zero group reports %s - a history of its own that forks from the cluster it is attached to later", e.Node, st[1:])
		}
		return "", "" // not a member yet
	case "down":
		w.Crash(e.Node) // stays down until "up"
	case "up":
		if err := w.Boot(e.Node); err != nil {
			return "restart-fails", fmt.Sprint(err)
		}
		for r := 0; r < 6 && w.ZeroLeader() == 0; r++ {
			var live []uint64
			for _, n := range w.Nodes {
				if !n.Crashed && n.Srv != nil {
					live = append(live, n.ID)
				}
			}
			w.Tick(live[r%len(live)], 10)
			w.Settle(1)
		}
		w.Settle(6)
		// membership changes that were waiting for a quorum are through now - unless the raft library dropped them: etcd
		// raft 3.3 replaces a membership change proposed while another one is still unapplied by an empty entry, and
		// NodesManager.AddNode / RemoveNode acknowledge as soon as the proposal is handed over
		lead := w.ZeroLeader()
		var ids []uint64
		for id := range w.pending {
			ids = append(ids, id)
		}
		sort.Slice(ids, func(i, j int) bool { return ids[i] < ids[j] })
		for _, id := range ids {
			addr := w.pending[id]
			delete(w.pending, id)
			listed := false
			if lead != 0 {
				_, listed = w.Node(lead).Srv.VerifConn().Nodes()[id]
			}
			if listed {
				w.members[id] = addr
			} else if w.acked[id] {
				return "acknowledged-join-dropped-while-another-membership-change-was-unapplied", fmt.Sprintf("node %d's join was acknowledged while the change adding another node was still waiting to be applied; the quorum is back, every message delivered, and the leader (node %d) still does not list it: its change was replaced by an empty entry", id, lead)
			}
		}
	case "joinpending":
		// a join while the zero group has no quorum (a member is down): the membership change cannot commit. Whatever the
		// handshake answers, no member may list the node before its change is applied - it is not a member yet
		if w.Node(e.Node) == nil {
			w.Add(e.Node, []string{world.ServerAddr(e.Via)})
		}
		w.Node(e.Node).Join = []string{world.ServerAddr(e.Via)}
		if err := w.Boot(e.Node); err != nil {
			return "boot-fails", fmt.Sprint(err)
		}
		var jerr error
		finished := false
		w.Call(e.Node, "join", func() { jerr = w.Node(e.Node).Srv.JoinCluster(); finished = true })
		w.Settle(4)
		if !finished {
			w.FireDeadlines(e.Node)
			w.Settle(1)
		}
		if w.pending == nil {
			w.pending, w.acked = map[uint64]string{}, map[uint64]bool{}
		}
		w.pending[e.Node] = world.ServerAddr(e.Node)
		w.acked[e.Node] = finished && jerr == nil
		for id := range w.members {
			n := w.Node(id)
			if n == nil || n.Crashed || n.Srv == nil {
				continue
			}
			if _, listed := n.Srv.VerifConn().Nodes()[e.Node]; listed {
				return "node-listed-before-its-membership-change-is-applied", fmt.Sprintf("the zero group has no quorum, the change that adds node %d cannot be applied, yet member %d lists it (view {%s}) - placement and routing draw from that list", e.Node, id, view(n.Srv.VerifConn().Nodes()))
			}
		}
		return "", "" // the joiner itself is not judged until it is a member
	case "deafen":
		w.Deaf[e.Node] = true
	case "heal":
		w.Deaf = map[uint64]bool{}
		w.Settle(6)
	case "remove":
		w.counts.removes++
		var err error
		done := w.Call(e.Via, "remove", func() {
			_, err = fakes.Registry[world.ServerAddr(e.Via)].Nodes.RemoveNode(context.Background(), &pb.Node{Id: e.Node})
		})
		w.Settle(4)
		if !done || err != nil {
			return "remove-fails-on-healthy-cluster", fmt.Sprintf("returned=%v err=%v", done, err)
		}
		delete(w.members, e.Node)
		w.removed[e.Node] = true
		// the removed process is shut down by the operator
		w.Crash(e.Node)
	case "snapshot":
		w.counts.snapshots++
		w.SnapshotTick(e.Node)
		w.Settle(1)
	case "restart":
		w.counts.restarts++
		w.Crash(e.Node)
		if err := w.Boot(e.Node); err != nil {
			return "restart-fails", fmt.Sprint(err)
		}
		for r := 0; r < 3 && w.ZeroLeader() == 0; r++ {
			w.Tick(e.Node, 10)
			w.Settle(1)
		}
		w.Settle(4)
	}
	if v := w.first(); v != nil {
		return v.Key, v.Desc
	}
	return w.check()
}

func view(m map[uint64]string) string {
	var ks []string
	for id, a := range m {
		ks = append(ks, fmt.Sprintf("%d=%q", id, a))
	}
	sort.Strings(ks)
	return strings.Join(ks, " ")
}

// check: every live member lists exactly the acknowledged membership with the announced addresses.
func (w *wld) check() (string, string) {
	for _, n := range w.Nodes {
		if n.Crashed || n.Srv == nil || w.removed[n.ID] {
			continue
		}
		if _, member := w.members[n.ID]; !member {
			continue
		}
		if w.Deaf[n.ID] {
			continue // lagging by construction: "eventually" starts when it hears again
		}
		got := n.Srv.VerifConn().Nodes()
		for id, addr := range w.members {
			a, ok := got[id]
			if !ok {
				return "member-missing-from-view", fmt.Sprintf("node %d does not list member %d: its view {%s}, membership {%s}", n.ID, id, view(got), view(w.members))
			}
			if a != addr {
				key := "member-listed-with-wrong-address"
				if a == "" {
					key = "member-listed-without-address"
				}
				return key, fmt.Sprintf("node %d lists member %d at %q, it announced %q (view {%s})", n.ID, id, a, addr, view(got))
			}
		}
		for id := range got {
			if _, waiting := w.pending[id]; waiting {
				continue
			}
			if _, ok := w.members[id]; !ok {
				return "removed-node-still-listed", fmt.Sprintf("node %d still lists node %d (view {%s}, membership {%s})", n.ID, id, view(got), view(w.members))
			}
		}
	}
	return "", ""
}

func (w *wld) canon() string {
	var sb strings.Builder
	for _, n := range w.Nodes {
		fmt.Fprintf(&sb, "|n%d crashed=%v removed=%v deaf=%v ", n.ID, n.Crashed, w.removed[n.ID], w.Deaf[n.ID])
		if !n.Crashed && n.Srv != nil {
			sb.WriteString(view(n.Srv.VerifConn().Nodes()))
			var st string
			w.Call(n.ID, "st", func() {
				s := n.Srv.VerifZeroGroup().VerifStatus()
				st = fmt.Sprintf(" t%d c%d a%d %s", s.Term, s.Commit, s.Applied, s.RaftState)
			})
			sb.WriteString(st)
		}
	}
	fmt.Fprintf(&sb, "|snap%d entries%d", w.counts.snapshots, w.counts.entries)
	return sb.String()
}

// joinerIDs: the raft ids of the nodes that join, in order. Not all single decimal digits: 0x800000000000001a has the
// top bit set (does not fit a signed integer) and reads differently in another base, as does 26 = 0x1a.
var joinerIDs = []uint64{2, 0x800000000000001a, 26}

var limits struct{ joins, removes, snapshots, restarts, maxNode, entries int }

func enabled(w *wld) []event {
	var out []event
	var live []uint64
	for id := range w.members {
		if n := w.Node(id); n != nil && !n.Crashed {
			live = append(live, id)
		}
	}
	sort.Slice(live, func(i, j int) bool { return live[i] < live[j] })
	if w.counts.joins < limits.joins {
		next := uint64(0)
		for _, id := range joinerIDs[:limits.maxNode-1] {
			if _, m := w.members[id]; !m && !w.removed[id] {
				next = id
				break
			}
		}
		if next != 0 {
			for _, via := range live {
				out = append(out, event{Kind: "join", Node: next, Via: via})
				if via == live[0] {
					out = append(out, event{Kind: "joinlossy", Node: next, Via: via})
				}
				if via == live[len(live)-1] {
					out = append(out, event{Kind: "joindead", Node: next, Via: via})
				}
			}
		}
	}
	if w.counts.removes < limits.removes && len(live) >= 3 {
		for _, id := range live {
			if id != live[0] {
				out = append(out, event{Kind: "remove", Node: id, Via: live[0]})
			}
		}
	}
	if w.counts.entries < limits.entries && len(live) > 0 {
		out = append(out, event{Kind: "entry", Via: live[len(live)-1]})
	}
	for _, id := range live {
		if w.counts.snapshots < limits.snapshots {
			out = append(out, event{Kind: "snapshot", Node: id})
		}
		if w.counts.restarts < limits.restarts {
			out = append(out, event{Kind: "restart", Node: id})
		}
	}
	return out
}

// directed histories (both tiers) with a lagging member and lost snapshot messages - deeper than the BFS reaches:
// X = 0x800000000000001a.
func directed() [][]event {
	const X = 0x800000000000001a
	return [][]event{
		// a joiner that needs a snapshot (the membership log is compacted) and whose first snapshot message is lost
		{{Kind: "join", Node: 2, Via: 1}, {Kind: "snapshot", Node: 1}, {Kind: "joinsnaplost", Node: X, Via: 1}, {Kind: "restart", Node: X}},
		{{Kind: "snapshot", Node: 1}, {Kind: "joinsnaplost", Node: 2, Via: 1}, {Kind: "join", Node: X, Via: 2}},
		// a removal requested from a member that has not heard of the node's join yet
		{{Kind: "join", Node: 2, Via: 1}, {Kind: "join", Node: X, Via: 1}, {Kind: "deafen", Node: X}, {Kind: "join", Node: 26, Via: 1}, {Kind: "remove", Node: 26, Via: X}, {Kind: "heal"}},
		// a member that missed a join is caught up by a snapshot, compacts its own log and restarts
		{{Kind: "join", Node: 2, Via: 1}, {Kind: "join", Node: X, Via: 1}, {Kind: "deafen", Node: X}, {Kind: "join", Node: 26, Via: 1}, {Kind: "snapshot", Node: 1}, {Kind: "snapshot", Node: 2}, {Kind: "heal"}, {Kind: "snapshot", Node: X}, {Kind: "restart", Node: X}},
		// ... the same with an ordinary entry after the catch-up, so that the member's own compaction has something to cut
		{{Kind: "join", Node: 2, Via: 1}, {Kind: "join", Node: X, Via: 1}, {Kind: "deafen", Node: X}, {Kind: "join", Node: 26, Via: 1}, {Kind: "snapshot", Node: 1}, {Kind: "snapshot", Node: 2}, {Kind: "heal"}, {Kind: "entry", Via: 1}, {Kind: "snapshot", Node: X}, {Kind: "restart", Node: X}, {Kind: "restart", Node: 1}},
		// a member is removed and joins again under the same id (its process was stopped, it kept its data directory)
		{{Kind: "join", Node: 2, Via: 1}, {Kind: "join", Node: X, Via: 1}, {Kind: "remove", Node: X, Via: 1}, {Kind: "entry", Via: 1}, {Kind: "join", Node: X, Via: 2}, {Kind: "entry", Via: 1}, {Kind: "restart", Node: 1}},
		{{Kind: "join", Node: 2, Via: 1}, {Kind: "join", Node: X, Via: 1}, {Kind: "remove", Node: 2, Via: 1}, {Kind: "join", Node: 2, Via: X}, {Kind: "snapshot", Node: 1}, {Kind: "entry", Via: 2}, {Kind: "restart", Node: 2}},
		// a node started with -join=false, left alone, then attached
		{{Kind: "join", Node: 2, Via: 1}, {Kind: "standalone", Node: X}, {Kind: "entry", Via: 1}, {Kind: "join", Node: X, Via: 1}, {Kind: "restart", Node: X}},
		// joins that cannot commit (a member of a two-member group is down): nobody lists the newcomers meanwhile; when the
		// member is back the changes go through and everybody lists them
		{{Kind: "join", Node: 2, Via: 1}, {Kind: "down", Node: 2}, {Kind: "joinpending", Node: X, Via: 1}, {Kind: "up", Node: 2}, {Kind: "restart", Node: 1}},
		// ... two of them (known finding: the second is acknowledged and silently dropped by the raft library)
		{{Kind: "join", Node: 2, Via: 1}, {Kind: "down", Node: 2}, {Kind: "joinpending", Node: X, Via: 1}, {Kind: "joinpending", Node: 26, Via: 1}, {Kind: "up", Node: 2}},
		{{Kind: "join", Node: 2, Via: 1}, {Kind: "entry", Via: 2}, {Kind: "snapshot", Node: 2}, {Kind: "join", Node: X, Via: 2}, {Kind: "entry", Via: X}, {Kind: "snapshot", Node: X}, {Kind: "restart", Node: X}, {Kind: "restart", Node: 2}},
		{{Kind: "join", Node: 2, Via: 1}, {Kind: "join", Node: X, Via: 2}, {Kind: "deafen", Node: 2}, {Kind: "join", Node: 26, Via: 1}, {Kind: "snapshot", Node: 1}, {Kind: "heal"}, {Kind: "snapshot", Node: 2}, {Kind: "restart", Node: 2}, {Kind: "restart", Node: 1}},
	}
}

type result struct {
	Directed   int
	St         seq.Stats
	Violations []struct {
		Key, Desc string
		Path      []event
	}
}

const c05Keys = `^(replicas-apply-different-entries|replicas-do-not-converge|replica-ends-without-what-was-applied)$`

func main() {
	thorough := os.Getenv("VERIF_TIER") == "thorough"
	limits.joins, limits.removes, limits.snapshots, limits.restarts, limits.maxNode = 2, 1, 2, 2, 3
	limits.entries = 1
	depth := 6
	budget := 100 * time.Second
	if thorough {
		limits.joins, limits.removes, limits.snapshots, limits.restarts, limits.maxNode = 3, 2, 2, 3, 4
		limits.entries = 2
		depth = 8
		budget = 25 * time.Minute
	}
	if len(os.Args) > 2 && os.Args[1] == "--replay" && ev.PartOf(os.Args[2]) == "C05" {
		ev.ReplayPart("C20", os.Getenv("VERIF_BIN_C05"), c05Keys, os.Args[2], "VERIF_PART_MODE=directed", "VERIF_TUNABLE_snapshotOffset=0")
	}
	if len(os.Args) > 2 && os.Args[1] == "--replay" {
		var f struct {
			Replay struct {
				Path []event `json:"path"`
			} `json:"replay"`
		}
		b, _ := os.ReadFile(os.Args[2])
		json.Unmarshal(b, &f)
		limits.joins, limits.removes, limits.snapshots, limits.restarts, limits.entries = 99, 99, 99, 99, 99
		w, k, d := build(f.Replay.Path)
		fmt.Println(w.canon())
		w.Close()
		if k != "" && ev.Counts(k) {
			fmt.Printf("VIOLATION property=%s replay=%s\n  %s: %s\n", ev.As("C20"), os.Args[2], k, d)
			os.Exit(1)
		}
		fmt.Println("replay: property held")
		return
	}
	if si, sn, ok := shard.Child(); ok {
		if si == 0 {
			probe := []event{{Kind: "join", Node: 2, Via: 1}, {Kind: "snapshot", Node: 1}, {Kind: "restart", Node: 2}}
			w1, _, _ := build(probe)
			c1 := w1.canon()
			w1.Close()
			w2, _, _ := build(probe)
			c2 := w2.canon()
			w2.Close()
			if c1 != c2 {
				ev.Tool("the simulated cluster is not deterministic: two runs of the same history differ\n%s\n%s", c1, c2)
			}
		}
		var res result
		// the directed histories are spread over the shards
		for di, h := range directed() {
			if di%sn != si {
				continue
			}
			for _, opp := range []bool{false, true} {
				opposite = opp
				w, k, d := build(h)
				opposite = false
				w.Close()
				res.Directed += len(h)
				if k != "" {
					hh := h
					if opp {
						hh = append([]event{{Kind: "opposite-schedule"}}, h...)
					}
					res.Violations = append(res.Violations, struct {
						Key, Desc string
						Path      []event
					}{k + ":directed", d, hh})
					break
				}
			}
		}
		if os.Getenv("VERIF_AS") != "" && os.Getenv("VERIF_PART_MODE") == "directed" {
			shard.Emit(res) // borrowed phase "directed": only the directed histories
			return
		}
		res.St = seq.BFS(seq.Config[*wld, event]{
			Depth: depth, Workers: 1, Deadline: time.Now().Add(budget),
			Build: func(wi int, path []event) (*wld, string, string) {
				w, k, d := build(path)
				if k != "" {
					w.Close()
				}
				return w, k, d
			},
			Enabled:    func(w *wld) []event { e := enabled(w); w.Close(); return e },
			Canon:      func(w *wld) string { c := w.canon(); w.Close(); return c },
			RootFilter: func(i int, o event) bool { return i%sn == si },
			OnViolation: func(key, desc string, path []event) {
				for _, v := range res.Violations {
					if v.Key == key {
						return
					}
				}
				res.Violations = append(res.Violations, struct {
					Key, Desc string
					Path      []event
				}{key, desc, path})
			},
		})
		shard.Emit(res)
		return
	}
	run := ev.Start("C20", "model_checking")
	const n = 8
	total := seq.Stats{Outcomes: map[string]int{}, Complete: true}
	directedEvents := 0
	shard.Run(n, n, nil, func(i int, raw []byte) error {
		var r result
		if err := json.Unmarshal(raw, &r); err != nil {
			return err
		}
		directedEvents += r.Directed
		total.States += r.St.States
		total.Transitions += r.St.Transitions + r.Directed
		total.Complete = total.Complete && r.St.Complete
		for k, v := range r.St.Outcomes {
			total.Outcomes[k] += v
		}
		for _, v := range r.Violations {
			run.Violation(v.Key, fmt.Sprintf("%v: %s", v.Path, v.Desc), map[string]interface{}{"path": v.Path})
		}
		return nil
	})
	if os.Getenv("VERIF_AS") == "" {
		// the zero group is a RaftGroup like any other: whatever its ready loop fails to hand to the state machine - a
		// membership change among the entries behind a snapshot, say - is a member whose view never converges. C05's
		// directed lagging-follower histories on bare groups count here for replicas that end up having applied
		// different things.
		run.RunPart("lagging-follower-C05", os.Getenv("VERIF_BIN_C05"), c05Keys, "VERIF_PART_MODE=directed", "VERIF_TUNABLE_snapshotOffset=0")
	}
	run.Assumptions = []string{
		"servers are built by the real Server.setup(); joins go through the real NodesManager.Join / AddNode handshake, removals through RemoveNode; the zero-group snapshot offset is lowered to 0",
		"one event at a time, the cluster settles in between; a lost handshake reply makes the joining process exit (as cmd/anndb does) and be started again",
		"a removed node's process is stopped; only members' views are compared",
		"directed histories (12, both tiers) add a lagging member (appends and snapshots to it are lost until it is healed; its view is not judged while it lags) and a snapshot message whose RPC fails once",
	}
	run.Finish(ev.Coverage{
		"states":                        total.States,
		"transitions":                   total.Transitions,
		"traces_validated_against_impl": total.Transitions,
		"evaluations":                   total.Transitions,
		"distinct_nontrivial":           total.States,
		"rule":                          fmt.Sprintf("BFS to depth %d over join / lossy join / remove / snapshot / restart / ordinary-entry histories on clusters growing from 1 to %d real servers; after every event every live member's address book must equal the acknowledged membership with the announced addresses; distinct = canonical digest of all views + zero-group status", depth, limits.maxNode),
		"outcome_classes":               total.Outcomes,
		"directed_history_events":       directedEvents,
		"samples":                       []interface{}{[]event{{Kind: "join", Node: 2, Via: 1}, {Kind: "snapshot", Node: 2}, {Kind: "restart", Node: 2}}},
		"exhaustive":                    total.Complete,
	})
}
