#!/bin/bash
set -u
cd "$(dirname "$0")/../.."
w="${VERIF_WORK:-$PWD/.work/c20.$$}"; mkdir -p "$w"
if ! lib/instr_build.sh harness/c20 "$w/bin" 2> "$w/build.log"; then
  cat "$w/build.log" >&2; echo "TOOL-ERROR: instrumented build failed" >&2; exit 2
fi
# borrowed phase: C05's directed lagging-follower histories
if ! INSTR_REUSE=1 lib/instr_build.sh harness/c05 "$w/bin-c05" 2> "$w/build2.log"; then
  cat "$w/build2.log" >&2; echo "TOOL-ERROR: instrumented build failed" >&2; exit 2
fi
[ "${1:-}" = "--warm" ] && exit 0
{ flock -u 9 && exec 9>&-; } 2>/dev/null  # the build is done: release the shared lock on /repo's working tree (.work/repo.lock)
VERIF_BIN_C05="$w/bin-c05" VERIF_TUNABLE_snapshotOffset=0 exec "$w/bin" "$@"
