// C17 — dataset size is the sum of its partitions, each counted once.
//
// E1: the real Dataset.SizeInfo (instrumented working tree) on a simulated cluster; every
// interleaving of the caller, the per-partition remote lookups and the closer up to a
// deviation bound; every replica choice; remote lookup failures and a cancelling caller.
// The instrumented build keeps /repo's go 1.14 loop-variable semantics (checked by a canary).
package main

import (
	"context"
	"fmt"
	"github.com/golang/protobuf/proto"
	"os"
	"strings"
	"time"

	"anndbverif/explore"
	"anndbverif/lib/ev"
	"anndbverif/lib/racepass"
	"anndbverif/vrt"
	vctx "anndbverif/vrt/context"
	"anndbverif/vrt/fakes"
	"anndbverif/world"

	"github.com/marekgalovic/anndb/index"
	pb "github.com/marekgalovic/anndb/protobuf"
)

type variant struct {
	name      string
	nodes     int
	placement [][]uint64
	failNode  uint64
	failMode  string // "rpc" | "down"
	unknown   uint64
	cancel    bool
	maxQuick  int
	// ownView: node -> the placement that node itself believes in (its catalogue is ahead of the asker's);
	// trueHost: partition -> the node that really holds the partition's current contents
	ownView  map[uint64][][]uint64
	trueHost map[int]uint64
	// grow: partition -> a node that already serves a replica of it (in its own view, same contents) and that the
	// OTHER nodes learn about through the catalogue entry "add node X to partition p", applied before the question
	grow map[int]uint64
	// again: the same caller asks a second time after partition `again-1` (remote) has grown by one item and its only host
	// has stopped answering: the second answer must be an error, never a number remembered from the first
	again int
}

var sizes = []int{1, 2, 4} // unique subset sums: any omission or double count changes the total

func build(v variant) *explore.Scenario {
	return &explore.Scenario{
		Name:          v.name,
		MaxBoundQuick: v.maxQuick,
		// time may pass at any scheduling point: a timer the code under test arms (there is none in the unchanged tree) may
		// fire while a lookup is still on its way
		Configure: func(s *vrt.Sched) { s.RandChoose = true; s.OfferTimers = true },
		Build: func(x *explore.Exec) func(vrt.EndReason) *explore.Violation {
			fakes.Reset()
			var knows func(a, b uint64) bool
			if v.unknown != 0 {
				knows = func(a, b uint64) bool { return !(a == 1 && b == v.unknown) }
			}
			world.OwnView = nil
			if v.ownView != nil {
				world.OwnView = func(node uint64) [][]uint64 { return v.ownView[node] }
			}
			world.WithTransport = v.grow != nil
			c := world.NewDatasetCluster(v.nodes, 1, pb.Space_Euclidean, v.placement, 2, knows)
			world.OwnView, world.WithTransport = nil, false
			x.OnCleanup(c.Close)
			P := len(v.placement)
			for p := 0; p < P; p++ {
				for _, n := range c.Nodes {
					count := sizes[p]
					if th, moved := v.trueHost[p]; moved {
						// the partition has moved: its current contents are on the true host, the former host
						// still holds a stale, smaller copy
						if n.ID != th && !c.Hosts(n.ID, p) {
							continue
						}
						if n.ID != th {
							count = sizes[p] - 1
						}
					} else if !c.Hosts(n.ID, p) && !(v.grow != nil && v.grow[p] == n.ID) {
						continue
					}
					for i := 0; i < count; i++ {
						id := world.ID(uint64(100*p+i+1), 1)
						if err := n.DS.VerifPartition(p).Index().Insert(id, []float32{float32(i)}, index.Metadata{"k": strings.Repeat("x", p+1)}, 0); err != nil {
							panic(err)
						}
					}
				}
			}
			for p, added := range v.grow {
				ch := &pb.DatasetManagerChange{Type: pb.DatasetManagerChangeType_DatasetManagerUpdatePartitionNodes, NotificationId: world.ID(0xee, uint64(p)).Bytes()}
				ch.Data, _ = proto.Marshal(&pb.DatasetPartitionNodesChange{Type: pb.DatasetPartitionNodesChangeType_DatasetPartitionNodesChangeAddNode,
					DatasetId: c.DSID.Bytes(), PartitionId: c.Meta.Partitions[p].Id, NodeId: added})
				data, _ := proto.Marshal(ch)
				for _, n := range c.Nodes {
					if n.ID == added {
						continue // it has applied the entry already (its own view lists it)
					}
					if err := n.DM.VerifApply(data); err != nil {
						panic(fmt.Sprintf("applying the catalogue entry on node %d: %v", n.ID, err))
					}
				}
			}
			asked := map[string]int{}
			wrongHost := ""
			fakes.Intercept = func(target, method string, ctx context.Context, req interface{}) (bool, interface{}, error) {
				if method != "PartitionInfo" {
					return false, nil, nil
				}
				r := req.(*pb.PartitionInfoRequest)
				asked[string(r.PartitionId)]++
				for p := 0; p < P; p++ {
					if string(c.Meta.Partitions[p].Id) == string(r.PartitionId) {
						hosted := false
						for _, id := range v.placement[p] {
							if world.Addr(id) == target {
								hosted = true
							}
						}
						if v.grow != nil && v.grow[p] != 0 && world.Addr(v.grow[p]) == target {
							hosted = true
						}
						if !hosted && v.trueHost == nil {
							wrongHost = fmt.Sprintf("partition %d asked on %s which does not host it", p, target)
						}
					}
				}
				if v.failNode != 0 && v.failMode == "rpc" && target == world.Addr(v.failNode) {
					return true, nil, fakes.ErrUnavailable
				}
				return false, nil, nil
			}
			if v.failNode != 0 && v.failMode == "down" {
				fakes.Registry[world.Addr(v.failNode)].Down = true
			}
			var gotLen, gotBytes uint64
			var err error
			returned := false
			ctx, cancel := vctx.WithCancel(context.Background())
			var preLen, preBytes uint64 // what the partitions hold when the (first) question is asked
			for p := 0; p < P; p++ {
				host := c.Nodes[v.placement[p][0]-1]
				if th, moved := v.trueHost[p]; moved {
					host = c.Nodes[th-1]
				}
				preLen += uint64(host.DS.VerifPartition(p).Len())
				preBytes += host.DS.VerifPartition(p).BytesSize()
			}
			var againLen uint64
			var againErr error
			againAsked := false
			x.S.Spawn("caller", true, func() {
				gotLen, gotBytes, err = c.Nodes[0].DS.SizeInfo(ctx)
				if v.again > 0 && err == nil {
					p := v.again - 1
					host := c.Nodes[v.placement[p][0]-1]
					if ierr := host.DS.VerifPartition(p).Index().Insert(world.ID(uint64(100*p+90), 1), []float32{9}, index.Metadata{"k": "again"}, 0); ierr != nil {
						panic(ierr)
					}
					fakes.Registry[world.Addr(host.ID)].Down = true
					againLen, _, againErr = c.Nodes[0].DS.SizeInfo(ctx)
					againAsked = true
					fakes.Registry[world.Addr(host.ID)].Down = false
				}
				returned = true
			})
			if v.cancel {
				x.S.Spawn("canceller", true, func() { cancel() })
			}
			return func(end vrt.EndReason) *explore.Violation {
				if !returned {
					x.Outcome = "blocked"
					return &explore.Violation{Key: "sizeinfo-never-returns", Desc: "Dataset.SizeInfo did not return: " + strings.Join(x.S.Blocked(), "; ")}
				}
				if againAsked && againErr == nil {
					return &explore.Violation{Key: "success-despite-failed-lookup:second-question", Desc: fmt.Sprintf("the host of partition %d stopped answering after the first question and the partition had grown; the second SizeInfo returned %d items with nil error", v.again-1, againLen)}
				}
				var wantLen, wantBytes uint64
				for p := 0; p < P; p++ {
					host := c.Nodes[v.placement[p][0]-1]
					if th, moved := v.trueHost[p]; moved {
						host = c.Nodes[th-1]
					}
					wantLen += uint64(host.DS.VerifPartition(p).Len())
					wantBytes += host.DS.VerifPartition(p).BytesSize()
				}
				if v.again > 0 {
					wantLen, wantBytes = preLen, preBytes
				}
				x.Outcome = fmt.Sprintf("len=%d err=%v", gotLen, err != nil)
				// a fault matters only if a lookup actually failed: failing node asked, or unknown address needed
				faultHit := false
				if v.failNode != 0 && fakes.Calls[world.Addr(v.failNode)+" PartitionInfo"] > 0 {
					faultHit = true
				}
				if v.unknown != 0 {
					// every remote partition hosted only on the unknown node cannot be dialled
					for p := 0; p < P; p++ {
						if !c.Hosts(1, p) && asked[string(c.Meta.Partitions[p].Id)] == 0 {
							faultHit = true
						}
					}
				}
				if err != nil {
					if faultHit || v.cancel || v.trueHost != nil {
						return nil // a stale asker may fail; it must not succeed with a wrong number
					}
					if v.failNode == 0 && v.unknown == 0 {
						return &explore.Violation{Key: "error-on-healthy-cluster", Desc: fmt.Sprintf("healthy cluster, SizeInfo failed: %v (%s)", err, wrongHost)}
					}
					// faulty variant but the failing node was not involved in this execution
					return &explore.Violation{Key: "error-without-failed-lookup", Desc: fmt.Sprintf("no lookup failed, yet SizeInfo returned %v (%s)", err, wrongHost)}
				}
				if faultHit {
					return &explore.Violation{Key: "success-despite-failed-lookup", Desc: fmt.Sprintf("a partition's size could not be obtained but SizeInfo returned (%d,%d) with nil error; full sum is (%d,%d)", gotLen, gotBytes, wantLen, wantBytes)}
				}
				if gotLen != wantLen || gotBytes != wantBytes {
					k := "undercount"
					if gotLen > wantLen {
						k = "overcount"
					}
					return &explore.Violation{Key: k, Desc: fmt.Sprintf("SizeInfo = (%d,%d), sum over partitions = (%d,%d); lookups per partition: %v %s", gotLen, gotBytes, wantLen, wantBytes, counts(asked, c, P), wrongHost)}
				}
				if wrongHost != "" {
					return &explore.Violation{Key: "asked-non-hosting-node", Desc: wrongHost}
				}
				for p := 0; p < P; p++ {
					limit := 1
					if v.again > 0 {
						limit = 2 // two questions
					}
					if n := asked[string(c.Meta.Partitions[p].Id)]; n > limit {
						return &explore.Violation{Key: "partition-asked-twice", Desc: fmt.Sprintf("partition %d looked up %d times", p, n)}
					}
				}
				return nil
			}
		},
	}
}

// buildList: the sizes a node reports for ALL its datasets (DatasetManager.List with sizes): two datasets, the second
// one with a remote partition; both map iteration orders; the remote lookup healthy or failing.
func buildList(fail bool, policy int) *explore.Scenario {
	name := fmt.Sprintf("list-two-datasets-remote-%s-order%d", map[bool]string{false: "healthy", true: "failing"}[fail], policy)
	return &explore.Scenario{
		Name:      name,
		Configure: func(s *vrt.Sched) { s.RandChoose = true; s.MapPolicy = policy },
		Build: func(x *explore.Exec) func(vrt.EndReason) *explore.Violation {
			fakes.Reset()
			c := world.NewDatasetCluster(2, 1, pb.Space_Euclidean, [][]uint64{{1}}, 1, nil)
			x.OnCleanup(c.Close)
			metaB, dsB := c.AddDataset(world.ID(0xd6, 0xd5), 1, pb.Space_Euclidean, [][]uint64{{2}}, 1, 8)
			if err := c.Nodes[0].DS.VerifPartition(0).Index().Insert(world.ID(1, 1), []float32{1}, nil, 0); err != nil {
				panic(err)
			}
			for i := 0; i < 2; i++ {
				if err := dsB[1].VerifPartition(0).Index().Insert(world.ID(uint64(10+i), 1), []float32{float32(i)}, nil, 0); err != nil {
					panic(err)
				}
			}
			if fail {
				fakes.Intercept = func(target, method string, ctx context.Context, req interface{}) (bool, interface{}, error) {
					if method == "PartitionInfo" && target == world.Addr(2) {
						return true, nil, fakes.ErrUnavailable
					}
					return false, nil, nil
				}
			}
			var list []*pb.Dataset
			var err error
			returned := false
			x.S.Spawn("caller", true, func() {
				list, err = c.Nodes[0].DM.List(context.Background(), true)
				returned = true
			})
			return func(end vrt.EndReason) *explore.Violation {
				if !returned {
					x.Outcome = "blocked"
					return &explore.Violation{Key: "list-never-returns", Desc: "DatasetManager.List did not return: " + strings.Join(x.S.Blocked(), "; ")}
				}
				sizes := map[string]uint64{}
				for _, d := range list {
					sizes[fmt.Sprintf("%x", d.Id[:1])] = d.Size
				}
				x.Outcome = fmt.Sprintf("sizes=%v err=%v", sizes, err != nil)
				if fail {
					if err == nil {
						return &explore.Violation{Key: "list-success-despite-failed-lookup", Desc: fmt.Sprintf("the size of dataset %x could not be obtained (its only partition is on an unreachable node) but List(withSize) returned %v with nil error", metaB.Id[:1], sizes)}
					}
					return nil
				}
				if err != nil {
					return &explore.Violation{Key: "list-error-on-healthy-cluster", Desc: fmt.Sprint(err)}
				}
				if len(list) != 2 || sizes["d5"] != 1 || sizes["d6"] != 2 {
					return &explore.Violation{Key: "list-wrong-sizes", Desc: fmt.Sprintf("List(withSize) reports %v, datasets hold d5:1 d6:2", sizes)}
				}
				return nil
			}
		},
	}
}

// buildGet: the size a node reports for ONE dataset through its DatasetManager service while another request for the
// same dataset is in flight. A response is serialised after the handler has returned: the caller reads the returned
// message one scheduling point later.
func buildGet(otherWithSize bool) *explore.Scenario {
	return &explore.Scenario{
		Name:      fmt.Sprintf("get-with-size-vs-concurrent-get-with-size-%v", otherWithSize),
		Configure: func(s *vrt.Sched) { s.RandChoose = true },
		Build: func(x *explore.Exec) func(vrt.EndReason) *explore.Violation {
			fakes.Reset()
			c := world.NewDatasetCluster(1, 1, pb.Space_Euclidean, [][]uint64{{1}}, 1, nil)
			x.OnCleanup(c.Close)
			for i := 0; i < 3; i++ {
				if err := c.Nodes[0].DS.VerifPartition(0).Index().Insert(world.ID(uint64(i+1), 1), []float32{float32(i)}, nil, 0); err != nil {
					panic(err)
				}
			}
			srv := fakes.Registry[world.Addr(1)].Datasets
			var size uint64
			var err error
			done := false
			x.S.Spawn("caller", true, func() {
				var resp *pb.Dataset
				resp, err = srv.Get(context.Background(), &pb.GetDatasetRequest{DatasetId: c.Meta.Id, WithSize: true})
				vrt.Yield() // the transport serialises the message after the handler returned
				if err == nil {
					size = resp.Size
				}
				done = true
			})
			x.S.Spawn("other", true, func() {
				srv.Get(context.Background(), &pb.GetDatasetRequest{DatasetId: c.Meta.Id, WithSize: otherWithSize})
			})
			return func(end vrt.EndReason) *explore.Violation {
				if !done {
					return &explore.Violation{Key: "get-never-returns", Desc: strings.Join(x.S.Blocked(), "; ")}
				}
				x.Outcome = fmt.Sprintf("size=%d err=%v", size, err != nil)
				if err != nil {
					return &explore.Violation{Key: "get-error-on-healthy-node", Desc: fmt.Sprint(err)}
				}
				if size != 3 {
					return &explore.Violation{Key: "get-reports-wrong-size", Desc: fmt.Sprintf("Get(with size) on a dataset of 3 items reports %d while another Get for the same dataset is served", size)}
				}
				return nil
			}
		},
	}
}

// racePass: the same clusters, real goroutines, race detector on (un-instrumented twin built with -race). Sampling.
func racePass() {
	world.Quiet()
	iters := 400
	if os.Getenv("VERIF_TIER") == "thorough" {
		iters = 4000
	}
	vs := []variant{
		{name: "P2-one-remote", nodes: 2, placement: [][]uint64{{1}, {2}}},
		{name: "P2-remote-then-local", nodes: 2, placement: [][]uint64{{2}, {1}}},
		{name: "P3-remote-local-remote", nodes: 3, placement: [][]uint64{{2}, {1}, {3}}},
		{name: "P4-remote-remote-local-local", nodes: 3, placement: [][]uint64{{2}, {3}, {1}, {1}}},
	}
	reported := map[string]bool{}
	for _, v := range vs {
		fakes.Reset()
		c := world.NewDatasetCluster(v.nodes, 1, pb.Space_Euclidean, v.placement, 2, nil)
		P := len(v.placement)
		var wantLen, wantBytes uint64
		for p := 0; p < P; p++ {
			n := c.Nodes[v.placement[p][0]-1]
			for i := 0; i < 1<<uint(p); i++ {
				if err := n.DS.VerifPartition(p).Index().Insert(world.ID(uint64(100*p+i+1), 1), []float32{float32(i)}, index.Metadata{"k": strings.Repeat("x", p+1)}, 0); err != nil {
					panic(err)
				}
			}
			wantLen += uint64(n.DS.VerifPartition(p).Len())
			wantBytes += n.DS.VerifPartition(p).BytesSize()
		}
		for i := 0; i < iters; i++ {
			l, b, err := c.Nodes[0].DS.SizeInfo(context.Background())
			if (err != nil || l != wantLen || b != wantBytes) && !reported[v.name] {
				reported[v.name] = true
				fmt.Printf("FREE-RUNNING-VIOLATION wrong-size: %s: SizeInfo = (%d,%d,%v), sum over partitions = (%d,%d) (iteration %d)\n", v.name, l, b, err, wantLen, wantBytes, i)
			}
		}
		c.Close()
	}
	fmt.Printf("RACEPASS iterations=%d variants=%d\n", iters, len(vs))
}

func counts(asked map[string]int, c *world.DCluster, P int) []int {
	out := make([]int, P)
	for p := 0; p < P; p++ {
		out[p] = asked[string(c.Meta.Partitions[p].Id)]
	}
	return out
}

// canary: the instrumented /repo files must keep per-loop (go <= 1.21) loop variables; this file
// is compiled as go 1.23, so the check is done on an instrumented repo function instead: the
// harness asserts the behaviour through world.LoopVarCanary (see world/canary.go).
const c14Keys = `^partition-contents-lost-by-catalogue-restore`

// a dataset's size is the sum of what its partitions' counters say: a partition whose item or byte counter drifts away
// from what it stores (after an update, a remove, a snapshot restored over existing items ...) makes the sum depend on
// which replica is asked. C02's partition-level search keeps both counters under watch after every entry.
const c02Keys = `^(data-bytes-drift|len-mismatch|bytes-size-out-of-range)`

func main() {
	if len(os.Args) > 2 && os.Args[1] == "--replay" && ev.PartOf(os.Args[2]) == "C14" {
		ev.ReplayPart("C17", os.Getenv("VERIF_BIN_C14"), c14Keys, os.Args[2], "VERIF_PART_MODE=catlog", "VERIF_TUNABLE_snapshotOffset=0")
	}
	if len(os.Args) > 2 && os.Args[1] == "--replay" && ev.PartOf(os.Args[2]) == "C02" {
		ev.ReplayPart("C17", os.Getenv("VERIF_BIN_C02"), c02Keys, os.Args[2])
	}
	if len(os.Args) > 1 && os.Args[1] == "--race-pass" {
		racePass()
		return
	}
	if !world.LoopVarPerLoop() {
		ev.Tool("instrumented build changed the loop-variable semantics of /repo (go.mod says go 1.14)")
	}
	vs := []variant{
		{name: "P2-all-local", nodes: 1, placement: [][]uint64{{1}, {1}}},
		{name: "P2-one-remote", nodes: 2, placement: [][]uint64{{1}, {2}}},
		{name: "P2-two-remote-same-node", nodes: 2, placement: [][]uint64{{2}, {2}}},
		{name: "P2-two-remote", nodes: 3, placement: [][]uint64{{2}, {3}}},
		{name: "P3-mixed", nodes: 3, placement: [][]uint64{{1}, {2}, {3}}},
		{name: "P2-remote-then-local", nodes: 2, placement: [][]uint64{{2}, {1}}},
		{name: "P3-remote-local-remote", nodes: 3, placement: [][]uint64{{2}, {1}, {3}}},
		// the asker's catalogue lags: it still routes partition 1 to node 2, which has handed it over to node 3
		{name: "P2-asker-has-stale-placement", nodes: 3, placement: [][]uint64{{1}, {2}}, ownView: map[uint64][][]uint64{2: {{1}, {3}}, 3: {{1}, {3}}}, trueHost: map[int]uint64{1: 3}},
		// a replica is added by a catalogue entry: applying "add node 3 to partition 1" on nodes 1 and 2 must not make
		// either of them count a partition it does not hold
		{name: "P2-replica-added-by-catalogue-entry", nodes: 3, placement: [][]uint64{{1}, {2}}, ownView: map[uint64][][]uint64{3: {{1}, {2, 3}}}, grow: map[int]uint64{1: 3}},
		{name: "P2-replica-added-to-remote-partitions", nodes: 3, placement: [][]uint64{{2}, {2}}, ownView: map[uint64][][]uint64{3: {{2, 3}, {2, 3}}}, grow: map[int]uint64{0: 3, 1: 3}},
		{name: "P2-asked-twice-host-gone-in-between", nodes: 2, placement: [][]uint64{{1}, {2}}, again: 2},
		{name: "P3-R2", nodes: 3, placement: [][]uint64{{1, 2}, {2, 3}, {3, 2}}, maxQuick: 1},
		{name: "P2-fail-rpc", nodes: 3, placement: [][]uint64{{2}, {3}}, failNode: 3, failMode: "rpc"},
		{name: "P2-fail-down", nodes: 2, placement: [][]uint64{{1}, {2}}, failNode: 2, failMode: "down"},
		{name: "P2-unknown-address", nodes: 2, placement: [][]uint64{{1}, {2}}, unknown: 2},
		{name: "P2-cancel", nodes: 2, placement: [][]uint64{{1}, {2}}, cancel: true},
	}
	var scs []*explore.Scenario
	for _, v := range vs {
		scs = append(scs, build(v))
	}
	for _, fail := range []bool{false, true} {
		for _, policy := range []int{0, 1} {
			scs = append(scs, buildList(fail, policy))
		}
	}
	scs = append(scs, buildGet(false), buildGet(true))
	explore.Main("C17", scs, explore.Plan{QuickBound: 3, ThoroughBound: 4, QuickBudget: 100 * time.Second, ThoroughBudget: 15 * time.Minute, Shards: 4,
		Before: func(run *ev.Run) ev.Coverage {
			// a partition's size is what the node's partition object holds: a node that installs a catalogue snapshot must
			// not swap that object for an empty one (the size would silently drop to zero) - C14's catalogue-log part on
			// a used restoring node, counted here for that clause
			run.RunPart("catalogue-restore-C14", os.Getenv("VERIF_BIN_C14"), c14Keys, "VERIF_PART_MODE=catlog", "VERIF_PART_SCENARIOS=^$", "VERIF_TUNABLE_snapshotOffset=0")
			run.RunPart("partition-counters-C02", os.Getenv("VERIF_BIN_C02"), c02Keys)
			return racepass.Run(run, os.Getenv("VERIF_C17_RACE"))
		}},
		"model_checking", []string{
			"remote lookups are synchronous in-memory invocations of the target node's real DataManager handler",
			"partition sizes 1,2,4 items (unique subset sums); contents preloaded into every replica",
			"sequential consistency between scheduling points; unsynchronised accesses (e.g. a plain add next to the atomic ones) only through the separate free-running -race pass over the same clusters (sampling, reported as race_pass)",
		})
}
