// C17 — dataset size is the sum of its partitions, each counted once.
//
// E1: the real Dataset.SizeInfo (instrumented working tree) on a simulated cluster; every
// interleaving of the caller, the per-partition remote lookups and the closer up to a
// deviation bound; every replica choice; remote lookup failures and a cancelling caller.
// The instrumented build keeps /repo's go 1.14 loop-variable semantics (checked by a canary).
package main

import (
	"context"
	"fmt"
	"strings"
	"time"

	"anndbverif/explore"
	"anndbverif/lib/ev"
	"anndbverif/vrt"
	vctx "anndbverif/vrt/context"
	"anndbverif/vrt/fakes"
	"anndbverif/world"

	"github.com/marekgalovic/anndb/index"
	pb "github.com/marekgalovic/anndb/protobuf"
)

type variant struct {
	name      string
	nodes     int
	placement [][]uint64
	failNode  uint64
	failMode  string // "rpc" | "down"
	unknown   uint64
	cancel    bool
	maxQuick  int
}

var sizes = []int{1, 2, 4} // unique subset sums: any omission or double count changes the total

func build(v variant) *explore.Scenario {
	return &explore.Scenario{
		Name:          v.name,
		MaxBoundQuick: v.maxQuick,
		Configure:     func(s *vrt.Sched) { s.RandChoose = true },
		Build: func(x *explore.Exec) func(vrt.EndReason) *explore.Violation {
			fakes.Reset()
			var knows func(a, b uint64) bool
			if v.unknown != 0 {
				knows = func(a, b uint64) bool { return !(a == 1 && b == v.unknown) }
			}
			c := world.NewDatasetCluster(v.nodes, 1, pb.Space_Euclidean, v.placement, 2, knows)
			x.OnCleanup(c.Close)
			P := len(v.placement)
			for p := 0; p < P; p++ {
				for _, n := range c.Nodes {
					if !c.Hosts(n.ID, p) {
						continue
					}
					for i := 0; i < sizes[p]; i++ {
						id := world.ID(uint64(100*p+i+1), 1)
						if err := n.DS.VerifPartition(p).Index().Insert(id, []float32{float32(i)}, index.Metadata{"k": strings.Repeat("x", p+1)}, 0); err != nil {
							panic(err)
						}
					}
				}
			}
			asked := map[string]int{}
			wrongHost := ""
			fakes.Intercept = func(target, method string, ctx context.Context, req interface{}) (bool, interface{}, error) {
				if method != "PartitionInfo" {
					return false, nil, nil
				}
				r := req.(*pb.PartitionInfoRequest)
				asked[string(r.PartitionId)]++
				for p := 0; p < P; p++ {
					if string(c.Meta.Partitions[p].Id) == string(r.PartitionId) {
						hosted := false
						for _, id := range v.placement[p] {
							if world.Addr(id) == target {
								hosted = true
							}
						}
						if !hosted {
							wrongHost = fmt.Sprintf("partition %d asked on %s which does not host it", p, target)
						}
					}
				}
				if v.failNode != 0 && v.failMode == "rpc" && target == world.Addr(v.failNode) {
					return true, nil, fakes.ErrUnavailable
				}
				return false, nil, nil
			}
			if v.failNode != 0 && v.failMode == "down" {
				fakes.Registry[world.Addr(v.failNode)].Down = true
			}
			var gotLen, gotBytes uint64
			var err error
			returned := false
			ctx, cancel := vctx.WithCancel(context.Background())
			x.S.Spawn("caller", true, func() {
				gotLen, gotBytes, err = c.Nodes[0].DS.SizeInfo(ctx)
				returned = true
			})
			if v.cancel {
				x.S.Spawn("canceller", true, func() { cancel() })
			}
			return func(end vrt.EndReason) *explore.Violation {
				if !returned {
					x.Outcome = "blocked"
					return &explore.Violation{Key: "sizeinfo-never-returns", Desc: "Dataset.SizeInfo did not return: " + strings.Join(x.S.Blocked(), "; ")}
				}
				var wantLen, wantBytes uint64
				for p := 0; p < P; p++ {
					host := c.Nodes[v.placement[p][0]-1]
					wantLen += uint64(host.DS.VerifPartition(p).Len())
					wantBytes += host.DS.VerifPartition(p).BytesSize()
				}
				x.Outcome = fmt.Sprintf("len=%d err=%v", gotLen, err != nil)
				// a fault matters only if a lookup actually failed: failing node asked, or unknown address needed
				faultHit := false
				if v.failNode != 0 && fakes.Calls[world.Addr(v.failNode)+" PartitionInfo"] > 0 {
					faultHit = true
				}
				if v.unknown != 0 {
					// every remote partition hosted only on the unknown node cannot be dialled
					for p := 0; p < P; p++ {
						if !c.Hosts(1, p) && asked[string(c.Meta.Partitions[p].Id)] == 0 {
							faultHit = true
						}
					}
				}
				if err != nil {
					if faultHit || v.cancel {
						return nil
					}
					if v.failNode == 0 && v.unknown == 0 {
						return &explore.Violation{Key: "error-on-healthy-cluster", Desc: fmt.Sprintf("healthy cluster, SizeInfo failed: %v (%s)", err, wrongHost)}
					}
					// faulty variant but the failing node was not involved in this execution
					return &explore.Violation{Key: "error-without-failed-lookup", Desc: fmt.Sprintf("no lookup failed, yet SizeInfo returned %v (%s)", err, wrongHost)}
				}
				if faultHit {
					return &explore.Violation{Key: "success-despite-failed-lookup", Desc: fmt.Sprintf("a partition's size could not be obtained but SizeInfo returned (%d,%d) with nil error; full sum is (%d,%d)", gotLen, gotBytes, wantLen, wantBytes)}
				}
				if gotLen != wantLen || gotBytes != wantBytes {
					k := "undercount"
					if gotLen > wantLen {
						k = "overcount"
					}
					return &explore.Violation{Key: k, Desc: fmt.Sprintf("SizeInfo = (%d,%d), sum over partitions = (%d,%d); lookups per partition: %v %s", gotLen, gotBytes, wantLen, wantBytes, counts(asked, c, P), wrongHost)}
				}
				if wrongHost != "" {
					return &explore.Violation{Key: "asked-non-hosting-node", Desc: wrongHost}
				}
				for p := 0; p < P; p++ {
					if n := asked[string(c.Meta.Partitions[p].Id)]; n > 1 {
						return &explore.Violation{Key: "partition-asked-twice", Desc: fmt.Sprintf("partition %d looked up %d times", p, n)}
					}
				}
				return nil
			}
		},
	}
}

func counts(asked map[string]int, c *world.DCluster, P int) []int {
	out := make([]int, P)
	for p := 0; p < P; p++ {
		out[p] = asked[string(c.Meta.Partitions[p].Id)]
	}
	return out
}

// canary: the instrumented /repo files must keep per-loop (go <= 1.21) loop variables; this file
// is compiled as go 1.23, so the check is done on an instrumented repo function instead: the
// harness asserts the behaviour through world.LoopVarCanary (see world/canary.go).
func main() {
	if !world.LoopVarPerLoop() {
		ev.Tool("instrumented build changed the loop-variable semantics of /repo (go.mod says go 1.14)")
	}
	vs := []variant{
		{name: "P2-all-local", nodes: 1, placement: [][]uint64{{1}, {1}}},
		{name: "P2-one-remote", nodes: 2, placement: [][]uint64{{1}, {2}}},
		{name: "P2-two-remote-same-node", nodes: 2, placement: [][]uint64{{2}, {2}}},
		{name: "P2-two-remote", nodes: 3, placement: [][]uint64{{2}, {3}}},
		{name: "P3-mixed", nodes: 3, placement: [][]uint64{{1}, {2}, {3}}},
		{name: "P3-R2", nodes: 3, placement: [][]uint64{{1, 2}, {2, 3}, {3, 2}}, maxQuick: 1},
		{name: "P2-fail-rpc", nodes: 3, placement: [][]uint64{{2}, {3}}, failNode: 3, failMode: "rpc"},
		{name: "P2-fail-down", nodes: 2, placement: [][]uint64{{1}, {2}}, failNode: 2, failMode: "down"},
		{name: "P2-unknown-address", nodes: 2, placement: [][]uint64{{1}, {2}}, unknown: 2},
		{name: "P2-cancel", nodes: 2, placement: [][]uint64{{1}, {2}}, cancel: true},
	}
	var scs []*explore.Scenario
	for _, v := range vs {
		scs = append(scs, build(v))
	}
	explore.Main("C17", scs, explore.Plan{QuickBound: 3, ThoroughBound: 4, QuickBudget: 100 * time.Second, ThoroughBudget: 15 * time.Minute, Shards: 4},
		"model_checking", []string{
			"remote lookups are synchronous in-memory invocations of the target node's real DataManager handler",
			"partition sizes 1,2,4 items (unique subset sums); contents preloaded into every replica",
			"sequential consistency between scheduling points; data races are not in scope of this check",
		})
}
