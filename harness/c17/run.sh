#!/bin/bash
set -u
cd "$(dirname "$0")/../.."
w="${VERIF_WORK:-$PWD/.work/c17.$$}"; mkdir -p "$w"
if ! lib/instr_build.sh harness/c17 "$w/bin" 2> "$w/build.log"; then
  cat "$w/build.log" >&2; echo "TOOL-ERROR: instrumented build failed" >&2; exit 2
fi
[ "${1:-}" = "--warm" ] && exit 0
# separate free-running race pass: a twin in which only the in-memory wire replaces the gRPC clients (no scheduler
# hooks: real goroutines, real sync) built with the race detector
# (checkptr off: the repository's SIMD wrappers pass lengths as unsafe.Pointer)
if ! INSTR_FLAGS=-wire-only lib/instr_build.sh harness/c17 "$w/bin-race" -race -gcflags=all=-d=checkptr=0 2> "$w/build2.log"; then
  cat "$w/build2.log" >&2; echo "TOOL-ERROR: race build failed" >&2; exit 2
fi
# borrowed phase: C14's catalogue-log part
if ! INSTR_REUSE=1 lib/instr_build.sh harness/c14 "$w/bin-c14" 2> "$w/build3.log"; then
  cat "$w/build3.log" >&2; echo "TOOL-ERROR: instrumented build failed" >&2; exit 2
fi
if ! INSTR_REUSE=1 lib/instr_build.sh harness/c02 "$w/bin-c02" 2> "$w/build4.log"; then
  cat "$w/build4.log" >&2; echo "TOOL-ERROR: instrumented build failed" >&2; exit 2
fi
{ flock -u 9 && exec 9>&-; } 2>/dev/null  # the build is done: release the shared lock on /repo's working tree (.work/repo.lock)
VERIF_C17_RACE="$w/bin-race" VERIF_BIN_C14="$w/bin-c14" VERIF_BIN_C02="$w/bin-c02" exec "$w/bin" "$@"
