package main

// Catalogue state-machine determinism (the "replica-set changes" and "every snapshot cut
// point" clauses): logs of catalogue entries - create, delete, add replica, remove replica -
// are applied through the real DatasetManager apply function on two different nodes (real
// allocator, real partition raft loading), and for every cut point a fresh and a used node
// restore the snapshot taken at the cut and apply the rest. All must list the same catalogue.

import (
	"context"
	"fmt"
	"sort"
	"strings"

	"anndbverif/vrt"
	"anndbverif/vrt/fakes"
	"anndbverif/world"

	"github.com/golang/protobuf/proto"
	pb "github.com/marekgalovic/anndb/protobuf"
	"github.com/marekgalovic/anndb/storage/raft"
	uuid "github.com/satori/go.uuid"
)

type centry struct {
	Kind string `json:"e"` // create delete add rem
	DS   int    `json:"ds"`
	Node uint64 `json:"node,omitempty"`
	Two  bool   `json:"two,omitempty"` // create on {1,2} instead of {1}
}

func (e centry) String() string {
	switch e.Kind {
	case "create":
		if e.Two {
			return fmt.Sprintf("create(ds%d on {1,2})", e.DS)
		}
		return fmt.Sprintf("create(ds%d on {1})", e.DS)
	case "delete":
		return fmt.Sprintf("delete(ds%d)", e.DS)
	}
	return fmt.Sprintf("%s-replica(ds%d, node %d)", e.Kind, e.DS, e.Node)
}

func cdsID(n int) uuid.UUID   { return world.ID(uint64(0xd0+n), 0xd5) }
func cpartID(n int) uuid.UUID { return world.ID(uint64(0xb7-3*n), 0x77) }

func (e centry) bytes(pos int) []byte {
	ch := &pb.DatasetManagerChange{NotificationId: world.ID(uint64(0x700+pos), 9).Bytes()}
	switch e.Kind {
	case "create":
		nodes := []uint64{1}
		if e.Two {
			nodes = []uint64{1, 2}
		}
		space := pb.Space_Euclidean
		if e.DS%2 == 1 {
			space = pb.Space_Cosine
		}
		meta := &pb.Dataset{Id: cdsID(e.DS).Bytes(), Dimension: 2, Space: space, PartitionCount: 1, ReplicationFactor: 2,
			Partitions: []*pb.Partition{{Id: cpartID(e.DS).Bytes(), NodeIds: nodes}}}
		ch.Type = pb.DatasetManagerChangeType_DatasetManagerCreateDataset
		ch.Data, _ = proto.Marshal(meta)
	case "delete":
		ch.Type = pb.DatasetManagerChangeType_DatasetManagerDeleteDataset
		ch.Data = cdsID(e.DS).Bytes()
	case "add", "rem":
		t := pb.DatasetPartitionNodesChangeType_DatasetPartitionNodesChangeAddNode
		if e.Kind == "rem" {
			t = pb.DatasetPartitionNodesChangeType_DatasetPartitionNodesChangeRemoveNode
		}
		c := &pb.DatasetPartitionNodesChange{Type: t, DatasetId: cdsID(e.DS).Bytes(), PartitionId: cpartID(e.DS).Bytes(), NodeId: e.Node}
		ch.Type = pb.DatasetManagerChangeType_DatasetManagerUpdatePartitionNodes
		ch.Data, _ = proto.Marshal(c)
	}
	b, _ := proto.Marshal(ch)
	return b
}

type cworld struct {
	s     *vrt.Sched
	nodes []*world.RNode
	seq   int
}

func newCWorld() *cworld {
	world.Quiet()
	fakes.Reset()
	vrt.ResetContexts()
	w := &cworld{s: vrt.New()}
	w.s.Horizon = 5000000
	w.s.Begin()
	return w
}

func (w *cworld) close() {
	w.s.End()
	for _, n := range w.nodes {
		n.Close()
	}
}

// run executes f as a thread of node id to quiescence; returns a description if it panicked or blocked.
func (w *cworld) run(id uint64, f func()) string {
	w.seq++
	done := false
	w.s.Spawn(fmt.Sprintf("n%d/t%d", id, w.seq), false, func() { f(); done = true })
	w.s.Run(defaultPick{}, nil)
	if t := w.s.Panicked(); t != nil {
		d := fmt.Sprintf("panic in %s: %v", t.Name, t.Panic)
		t.Panic = nil
		return d
	}
	if !done {
		return "blocked: " + strings.Join(w.s.Blocked(), "; ")
	}
	return ""
}

func (w *cworld) addNode(id uint64) (*world.RNode, string) {
	var n *world.RNode
	if e := w.run(id, func() { n = world.NewRNode(id, world.MemDB(), []uint64{1, 2, 3}) }); e != "" {
		return nil, e
	}
	w.nodes = append(w.nodes, n)
	return n, ""
}

func (w *cworld) list(n *world.RNode) (string, string) {
	var out []string
	if e := w.run(n.ID, func() {
		ds, err := n.DM.List(context.Background(), false)
		if err != nil {
			panic(err)
		}
		for _, d := range ds {
			out = append(out, canonDataset(d))
		}
	}); e != "" {
		return "", e
	}
	sort.Strings(out)
	return strings.Join(out, " ; "), ""
}

// cmodel is the boring reference catalogue: dataset number -> replica list of its only partition (absent = not in the map).
type cmodel map[int][]uint64

func modelOf(log []centry) cmodel {
	m := cmodel{}
	for _, e := range log {
		cur, exists := m[e.DS]
		switch e.Kind {
		case "create":
			if !exists {
				if e.Two {
					m[e.DS] = []uint64{1, 2}
				} else {
					m[e.DS] = []uint64{1}
				}
			}
		case "delete":
			delete(m, e.DS)
		case "add":
			on := false
			for _, id := range cur {
				on = on || id == e.Node
			}
			if exists && !on {
				m[e.DS] = append(append([]uint64{}, cur...), e.Node)
			}
		case "rem":
			if exists {
				out := []uint64{}
				for _, id := range cur {
					if id != e.Node {
						out = append(out, id)
					}
				}
				m[e.DS] = out
			}
		}
	}
	return m
}

func (m cmodel) listing() string {
	var out []string
	for ds, nodes := range m {
		space := pb.Space_Euclidean
		if ds%2 == 1 {
			space = pb.Space_Cosine
		}
		out = append(out, canonDataset(&pb.Dataset{Id: cdsID(ds).Bytes(), Dimension: 2, Space: space, PartitionCount: 1, ReplicationFactor: 2,
			Partitions: []*pb.Partition{{Id: cpartID(ds).Bytes(), NodeIds: nodes}}}))
	}
	sort.Strings(out)
	return strings.Join(out, " ; ")
}

// serving is what the model expects node id to route by and to serve: for each dataset of the alphabet the replica
// list its partition object carries, and whether the partition's raft group answers on the node's transport.
func (m cmodel) serving(id uint64, dss []int) string {
	var out []string
	for _, ds := range dss {
		nodes, exists := m[ds]
		if !exists {
			out = append(out, fmt.Sprintf("ds%d:absent,group=false", ds))
			continue
		}
		on := false
		for _, n := range nodes {
			on = on || n == id
		}
		out = append(out, fmt.Sprintf("ds%d:%v,group=%v", ds, nodes, on))
	}
	return strings.Join(out, " ")
}

// serving observes the same on the real node: the partition object's own replica list (what requests are routed by)
// and whether the node's raft transport finds the partition's group (what "serves" means on the wire).
func (w *cworld) serving(n *world.RNode, dss []int) (string, string) {
	var out []string
	if e := w.run(n.ID, func() {
		for _, ds := range dss {
			_, err := n.Transport.Receive(context.Background(), &pb.RaftMessage{GroupId: cpartID(ds).Bytes(), Message: []byte{0xff}})
			group := err != raft.GroupNotFoundError
			d, err := n.DM.Get(cdsID(ds))
			if err != nil {
				out = append(out, fmt.Sprintf("ds%d:absent,group=%v", ds, group))
				continue
			}
			out = append(out, fmt.Sprintf("ds%d:%v,group=%v", ds, append([]uint64{}, d.VerifPartition(0).NodeIds()...), group))
		}
	}); e != "" {
		return "", e
	}
	return strings.Join(out, " "), ""
}

// againstModel compares node n with the reference catalogue of the log.
func (w *cworld) againstModel(n *world.RNode, role string, log []centry, listed string) (string, string) {
	m := modelOf(log)
	if want := m.listing(); listed != want {
		return "listing-differs-from-log:" + role, fmt.Sprintf("log %v: node %d (%s) lists {%s}, the log says {%s}", log, n.ID, role, listed, want)
	}
	dss := []int{0, 1}
	got, e := w.serving(n, dss)
	if e != "" {
		return "catalogue-probe-fails", e
	}
	if want := m.serving(n.ID, dss); got != want {
		return "routing-or-serving-differs-from-log:" + role, fmt.Sprintf("log %v: node %d (%s) routes/serves {%s}, the log says {%s}", log, n.ID, role, got, want)
	}
	return "", ""
}

// catalogueLog checks one log; returns key, desc.
func catalogueLog(log []centry) (string, string) {
	w := newCWorld()
	defer w.close()
	entries := make([][]byte, len(log))
	for i, e := range log {
		entries[i] = e.bytes(i)
	}
	apply := func(n *world.RNode, from int) string {
		for i := from; i < len(log); i++ {
			var err error
			if e := w.run(n.ID, func() { err = n.DM.VerifApply(entries[i]) }); e != "" {
				return fmt.Sprintf("node %d applying entry %d %v: %s", n.ID, i, log[i], e)
			}
			if err != nil {
				return fmt.Sprintf("node %d: applying entry %d %v returned %v (the zero group's ready loop treats this as fatal)", n.ID, i, log[i], err)
			}
		}
		return ""
	}
	a, e := w.addNode(1)
	if e != "" {
		return "catalogue-setup", e
	}
	b, e := w.addNode(2)
	if e != "" {
		return "catalogue-setup", e
	}
	if e := apply(a, 0); e != "" {
		return "catalogue-apply-fails", e
	}
	if e := apply(b, 0); e != "" {
		return "catalogue-apply-fails", e
	}
	la, e := w.list(a)
	if e != "" {
		return "catalogue-list-fails", e
	}
	lb, e := w.list(b)
	if e != "" {
		return "catalogue-list-fails", e
	}
	if la != lb {
		return "replicas-list-different-catalogues", fmt.Sprintf("log %v: node 1 lists {%s}, node 2 lists {%s}", log, la, lb)
	}
	if k, d := w.againstModel(a, "replay", log, la); k != "" {
		return k, d
	}
	if k, d := w.againstModel(b, "replay", log, lb); k != "" {
		return k, d
	}
	return "", ""
}

// catalogueBackToBack: the same log applied back to back by ONE thread on node 2, as the zero group's ready loop does
// when it replays its log at start-up: the allocator gets to run only when the applier blocks, so its loads and
// unloads trail the entries. The node must end up as the log says, like a node that applied entry by entry.
func catalogueBackToBack(log []centry) (string, string) {
	w := newCWorld()
	defer w.close()
	n, e := w.addNode(2)
	if e != "" {
		return "catalogue-setup", e
	}
	var failed string
	if e := w.run(2, func() {
		for i, en := range log {
			if err := n.DM.VerifApply(en.bytes(i)); err != nil {
				failed = fmt.Sprintf("entry %d %v returned %v", i, en, err)
				return
			}
		}
	}); e != "" {
		return "catalogue-apply-fails:back-to-back", fmt.Sprintf("log %v replayed back to back on node 2: %s", log, e)
	}
	if failed != "" {
		return "catalogue-apply-fails:back-to-back", fmt.Sprintf("log %v replayed back to back on node 2: %s", log, failed)
	}
	l, e := w.list(n)
	if e != "" {
		return "catalogue-list-fails", e
	}
	return w.againstModel(n, "replayed back to back", log, l)
}

// catalogueCut checks one (log, cut) pair with a fresh and a used restoring node.
func catalogueCut(log []centry, cut int, used bool) (string, string) {
	w := newCWorld()
	defer w.close()
	entries := make([][]byte, len(log))
	for i, e := range log {
		entries[i] = e.bytes(i)
	}
	applyRange := func(n *world.RNode, from, to int) string {
		for i := from; i < to; i++ {
			var err error
			if e := w.run(n.ID, func() { err = n.DM.VerifApply(entries[i]) }); e != "" {
				return fmt.Sprintf("node %d applying entry %d %v: %s", n.ID, i, log[i], e)
			}
			if err != nil {
				return fmt.Sprintf("node %d: applying entry %d %v returned %v", n.ID, i, log[i], err)
			}
		}
		return ""
	}
	a, e := w.addNode(1)
	if e != "" {
		return "catalogue-setup", e
	}
	if e := applyRange(a, 0, cut); e != "" {
		return "catalogue-apply-fails", e
	}
	var snap []byte
	if e := w.run(1, func() {
		var err error
		snap, err = a.DM.VerifSnapshot()
		if err != nil {
			panic(err)
		}
	}); e != "" {
		return "catalogue-snapshot-fails", e
	}
	if e := applyRange(a, cut, len(log)); e != "" {
		return "catalogue-apply-fails", e
	}
	c, e := w.addNode(3)
	if e != "" {
		return "catalogue-setup", e
	}
	role := "fresh"
	if used {
		role = "used"
		// the restoring node holds an older state of the same log: entries [0, cut) minus the last one, plus a dataset
		// that the log may delete before the cut
		// ... and it is a replica of ds0's partition with an item in it
		old := []centry{{Kind: "create", DS: 0}, {Kind: "add", DS: 0, Node: 3}, {Kind: "create", DS: 3, Two: true}}
		for i, oe := range old {
			b := oe.bytes(100 + i)
			if e := w.run(3, func() { c.DM.VerifApply(b) }); e != "" {
				return "catalogue-setup", e
			}
		}
		if e := w.run(3, func() {
			d, err := c.DM.Get(cdsID(0))
			if err != nil {
				panic(err)
			}
			if err := d.VerifPartition(0).Index().Insert(world.ID(0x1234, 0x77), []float32{1, 2}, nil, 0); err != nil {
				panic(err)
			}
		}); e != "" {
			return "catalogue-setup", e
		}
	}
	if e := w.run(3, func() {
		if err := c.DM.VerifRestore(snap); err != nil {
			panic(err)
		}
	}); e != "" {
		return "catalogue-restore-fails:" + role, fmt.Sprintf("log %v cut %d: %s", log, cut, e)
	}
	if e := applyRange(c, cut, len(log)); e != "" {
		return "catalogue-apply-fails-after-restore:" + role, e
	}
	la, e := w.list(a)
	if e != "" {
		return "catalogue-list-fails", e
	}
	lc, e := w.list(c)
	if e != "" {
		return "catalogue-list-fails", e
	}
	if used {
		// a partition the used node was and still is a replica of (ds0 never deleted in this log, node 3 on its list) keeps
		// what it holds: installing a catalogue snapshot is no reason to lose a partition's contents (checked before the
		// listings are compared: it must hold whatever else is wrong with the restored catalogue)
		deleted, on := false, false
		for _, e := range log {
			deleted = deleted || e.Kind == "delete" && e.DS == 0
		}
		for _, id := range modelOf(log)[0] {
			on = on || id == 3
		}
		if !deleted && on {
			items := -1
			if e := w.run(3, func() {
				if d, err := c.DM.Get(cdsID(0)); err == nil {
					items = d.VerifPartition(0).Index().Len()
				}
			}); e != "" {
				return "catalogue-probe-fails", e
			}
			if items != 1 {
				return "partition-contents-lost-by-catalogue-restore:used", fmt.Sprintf("log %v, snapshot cut at %d: node 3 was and is a replica of ds0's partition and held 1 item; after installing the catalogue snapshot it holds %d", log, cut, items)
			}
		}
	}
	if la != lc {
		// what kind of difference: a dataset missing on the restoring node, one it already had and did not refresh,
		// or one it kept although the snapshot does not contain it (most severe first)
		kind := ""
		if used {
			byID := func(l string) map[string]string {
				m := map[string]string{}
				for _, d := range strings.Split(l, " ; ") {
					if d != "" {
						m[strings.Fields(d)[0]] = d
					}
				}
				return m
			}
			ma, mc := byID(la), byID(lc)
			kind = ":keeps-datasets-the-snapshot-lacks"
			for id, d := range ma {
				if other, has := mc[id]; has && other != d && kind != ":lacks-datasets" {
					kind = ":does-not-refresh-datasets-it-already-has"
				} else if !has {
					kind = ":lacks-datasets"
				}
			}
		}
		return "snapshot-plus-suffix-differs-from-replay:" + role + kind, fmt.Sprintf("log %v, snapshot cut at %d, %s restoring node: replay gives {%s}, snapshot+suffix gives {%s}", log, cut, role, la, lc)
	}
	if !used {
		if k, d := w.againstModel(c, "snapshot+suffix", log, lc); k != "" {
			return k, fmt.Sprintf("snapshot cut at %d: %s", cut, d)
		}
		return "", ""
	}
	// a used node that ends up listing what the log says must also route and serve as the log says
	if k, d := w.againstModel(c, "snapshot+suffix on a used node", log, lc); k != "" {
		return k, fmt.Sprintf("snapshot cut at %d: %s", cut, d)
	}
	return "", ""
}

// catalogueUse: reading must not write. Three nodes apply a log whose replica lists name a node nobody has an address
// for (it left the cluster, or its address has not been learnt yet) in front of reachable ones; then every node serves
// reads that route by those lists - the catalogue with sizes (lookups on a remote replica chosen per partition), twice -
// and must still list what the log says; so must a fresh node that restores a snapshot taken on the node that served.
func catalogueUse(log []centry) (string, string) {
	w := newCWorld()
	defer w.close()
	var nodes []*world.RNode
	for _, id := range []uint64{1, 2, 3} {
		n, e := w.addNode(id)
		if e != "" {
			return "catalogue-setup", e
		}
		nodes = append(nodes, n)
		for i, en := range log {
			var err error
			b := en.bytes(i)
			if e := w.run(id, func() { err = n.DM.VerifApply(b) }); e != "" || err != nil {
				return "catalogue-apply-fails", fmt.Sprintf("node %d applying entry %d %v: %s %v", id, i, en, e, err)
			}
		}
	}
	for _, n := range nodes {
		n := n
		for round := 0; round < 2; round++ {
			if e := w.run(n.ID, func() { n.DM.List(context.Background(), true) }); e != "" {
				return "catalogue-read-fails", fmt.Sprintf("log %v: List(withSize) on node %d: %s", log, n.ID, e)
			}
		}
		l, e := w.list(n)
		if e != "" {
			return "catalogue-list-fails", e
		}
		if k, d := w.againstModel(n, "after serving reads", log, l); k != "" {
			return k, d
		}
	}
	var snap []byte
	if e := w.run(3, func() {
		var err error
		if snap, err = nodes[2].DM.VerifSnapshot(); err != nil {
			panic(err)
		}
	}); e != "" {
		return "catalogue-snapshot-fails", e
	}
	f, e := w.addNode(4)
	if e != "" {
		return "catalogue-setup", e
	}
	if e := w.run(4, func() {
		if err := f.DM.VerifRestore(snap); err != nil {
			panic(err)
		}
	}); e != "" {
		return "catalogue-restore-fails:fresh", e
	}
	l, e := w.list(f)
	if e != "" {
		return "catalogue-list-fails", e
	}
	if want := modelOf(log).listing(); l != want {
		return "listing-differs-from-log:snapshot-of-a-node-that-served-reads", fmt.Sprintf("log %v: a fresh node restoring node 3's snapshot lists {%s}, the log says {%s}", log, l, want)
	}
	return "", ""
}

func useLogs() [][]centry {
	c0, c1 := centry{Kind: "create", DS: 0}, centry{Kind: "create", DS: 1, Two: true}
	add := func(ds int, n uint64) centry { return centry{Kind: "add", DS: ds, Node: n} }
	rem := func(ds int, n uint64) centry { return centry{Kind: "rem", DS: ds, Node: n} }
	return [][]centry{
		{c0, add(0, 9), add(0, 2)},
		{c0, add(0, 9), add(0, 3)},
		{c1, add(1, 9), rem(1, 1)},
		{c1, rem(1, 2), add(1, 9), add(1, 2), c0},
		{c0, c1, add(0, 9), add(1, 9), add(0, 2), rem(1, 1)},
	}
}

func catalogueAlphabet() []centry {
	return []centry{
		{Kind: "create", DS: 0}, {Kind: "create", DS: 1, Two: true},
		{Kind: "delete", DS: 0}, {Kind: "delete", DS: 1},
		{Kind: "add", DS: 0, Node: 2}, {Kind: "add", DS: 1, Node: 2}, {Kind: "add", DS: 0, Node: 3},
		{Kind: "rem", DS: 1, Node: 2}, {Kind: "rem", DS: 0, Node: 2}, {Kind: "rem", DS: 1, Node: 1},
	}
}
