// C14 — the dataset catalogue is replicated consistently and survives restart.
//
// E2: explicit-state BFS over catalogue histories on simulated clusters of REAL servers (the
// real Server.setup(): zero raft group over badgerWAL, shared group, dataset manager,
// allocator, partitions with real raft groups; only the Badger path, the listener and the wire
// are simulated). Events: create / delete through any node's DatasetManager service, zero-group
// snapshot (offset lowered), crash + restart of a node. After every event the cluster settles
// (all messages delivered, heartbeats). Plus an E1 scenario that explores the interleavings of a
// restarting server's setup() with its zero group's ready loop (the start-up wiring).
package main

import (
	"context"
	"encoding/json"
	"fmt"
	"os"
	"sort"
	"strings"
	"time"

	"anndbverif/explore"
	"anndbverif/lib/ev"
	"anndbverif/seq"
	"anndbverif/sim"
	"anndbverif/vrt"
	"anndbverif/vrt/fakes"
	"anndbverif/world"

	pb "github.com/marekgalovic/anndb/protobuf"
	"github.com/marekgalovic/anndb/storage"
	uuid "github.com/satori/go.uuid"
)

type event struct {
	Kind  string `json:"ev"` // create delete snapshot restart
	Node  uint64 `json:"n"`
	P     uint32 `json:"p,omitempty"`
	R     uint32 `json:"r,omitempty"`
	Space int32  `json:"space,omitempty"`
	DS    int    `json:"ds,omitempty"` // index into the list of created datasets (delete)
	// create / delete: the serving node crashes at its CrashAt-th durable write of this event (before it, or after it
	// returned), and is restarted afterwards
	CrashAt    int  `json:"crash_at,omitempty"`
	CrashAfter bool `json:"crash_after,omitempty"`
}

func (e event) String() string {
	crash := ""
	if e.CrashAt > 0 {
		ph := "before"
		if e.CrashAfter {
			ph = "after"
		}
		crash = fmt.Sprintf("; n%d crashes %s its durable write #%d and restarts", e.Node, ph, e.CrashAt)
	}
	switch e.Kind {
	case "opposite-schedule":
		return "(every transition under the opposite of the default schedule)"
	case "create":
		return fmt.Sprintf("create(via n%d, P=%d R=%d space=%d%s)", e.Node, e.P, e.R, e.Space, crash)
	case "delete":
		return fmt.Sprintf("delete(via n%d, dataset #%d%s)", e.Node, e.DS, crash)
	}
	return fmt.Sprintf("%s(n%d)", e.Kind, e.Node)
}

type wld struct {
	*sim.Servers
	n        int
	created  []uuid.UUID                      // ids in creation order (acknowledged creates)
	objects  map[uuid.UUID][]*storage.Dataset // dataset objects per node captured after create (to check unload after delete)
	expected map[uuid.UUID]string             // acknowledged catalogue: id -> canonical descriptor
	counts   struct{ creates, deletes, snapshots, restarts int }
	// requests that were cut short by a crash before they were acknowledged: their effect may or may not be there
	unackedCreates int
	maybeDeleted   map[string]bool
	lastDurable    int // durable writes the serving node performed during the last event
}

func canonDataset(d *pb.Dataset) string {
	var parts []string
	for _, p := range d.Partitions {
		ids := append([]uint64{}, p.NodeIds...)
		parts = append(parts, fmt.Sprintf("%x%v", p.Id[:4], ids))
	}
	return fmt.Sprintf("%x dim%d space%d P%d R%d %v", d.Id[:4], d.Dimension, d.Space, d.PartitionCount, d.ReplicationFactor, parts)
}

// catalogue lists node id's catalogue through its real DatasetManager service.
func (w *wld) catalogue(id uint64) (map[string]string, bool) {
	out := map[string]string{}
	n := w.Node(id)
	ok := w.Call(id, "list", func() {
		st := &fakes.DatasetServerStream{Ctx: context.Background()}
		if err := fakes.Registry[world.ServerAddr(id)].Datasets.List(&pb.ListDatasetsRequest{}, st); err != nil {
			panic(err)
		}
		for _, d := range st.Items {
			out[fmt.Sprintf("%x", d.Id)] = canonDataset(d)
		}
	})
	_ = n
	return out, ok
}

func build(nNodes int, path []event) (*wld, string, string) {
	w := &wld{Servers: sim.NewServers(), n: nNodes, expected: map[uuid.UUID]string{}, objects: map[uuid.UUID][]*storage.Dataset{}}
	fail := func(k, d string) (*wld, string, string) { return w, k, d }
	w.Add(1, nil)
	if err := w.Boot(1); err != nil {
		return fail("boot-fails", fmt.Sprint(err))
	}
	w.Tick(1, 10)
	w.Settle(2)
	for i := 2; i <= nNodes; i++ {
		id := uint64(i)
		w.Add(id, []string{world.ServerAddr(1)})
		if err := w.Boot(id); err != nil {
			return fail("boot-fails", fmt.Sprint(err))
		}
		var jerr error
		done := w.Call(id, "join", func() { jerr = w.Node(id).Srv.JoinCluster() })
		w.Settle(4)
		if !done || jerr != nil {
			return fail("join-fails", fmt.Sprintf("node %d could not join: done=%v err=%v", id, done, jerr))
		}
	}
	if v := w.first(); v != nil {
		return fail("setup:"+v.Key, v.Desc)
	}
	for _, e := range path {
		if e.Kind == "opposite-schedule" {
			w.Opposite = true // every later transition runs under the opposite of the default schedule (sim.oppositePick)
			continue
		}
		k, d := w.apply(e)
		if os.Getenv("VERIF_DEBUG") != "" {
			fmt.Fprintf(os.Stderr, "after %v: %s | %s\n", e, k, w.canon())
		}
		if k != "" {
			return w, k, fmt.Sprintf("after %v: %s", e, d)
		}
	}
	return w, "", ""
}

func (w *wld) first() *sim.Violation {
	if len(w.Violations) > 0 {
		return &w.Violations[0]
	}
	return nil
}

// recover restarts a node that crashed in the middle of an event and lets the cluster settle.
func (w *wld) recover(id uint64) (string, string) {
	w.Disarm()
	if !w.Node(id).Crashed {
		return "", ""
	}
	w.S.KillPrefix(fmt.Sprintf("n%d/", id))
	if err := w.Boot(id); err != nil {
		return "restart-fails", fmt.Sprintf("setup() returned %v", err)
	}
	if v := w.first(); v != nil {
		return "restart:" + v.Key, v.Desc
	}
	// time passes for everybody until the zero group has a leader again: the restarted node may have lost the tail of
	// its log (a leader sends entries while it persists them) and then cannot win; the others' election timers must run too
	for r := 0; r < 8 && w.ZeroLeader() == 0; r++ {
		var live []uint64
		for _, n := range w.Nodes {
			if !n.Crashed {
				live = append(live, n.ID)
			}
		}
		if r == 0 {
			w.Tick(id, 10)
		} else {
			w.Tick(live[r%len(live)], 10)
		}
		w.Settle(1)
	}
	w.Settle(3)
	for dsid := range w.objects {
		w.objects[dsid] = nil
		for _, n := range w.Nodes {
			if !n.Crashed {
				if ds, err := n.Srv.VerifDatasetManager().Get(dsid); err == nil {
					w.objects[dsid] = append(w.objects[dsid], ds)
				}
			}
		}
	}
	return "", ""
}

func (w *wld) apply(e event) (string, string) {
	before := w.Durable[e.Node]
	k, d := w.apply1(e)
	w.lastDurable = w.Durable[e.Node] - before
	return k, d
}

func (w *wld) apply1(e event) (string, string) {
	if e.CrashAt > 0 {
		w.ArmCrash(e.Node, e.CrashAt, e.CrashAfter)
	}
	switch e.Kind {
	case "create":
		w.counts.creates++
		var resp *pb.Dataset
		var err error
		done := false
		req := &pb.Dataset{Dimension: 2, Space: pb.Space(e.Space), PartitionCount: e.P, ReplicationFactor: e.R}
		w.S.Spawn(fmt.Sprintf("n%d/create#%d", e.Node, w.counts.creates), false, func() {
			resp, err = fakes.Registry[world.ServerAddr(e.Node)].Datasets.Create(context.Background(), req)
			done = true
		})
		w.Quiesce()
		w.Settle(3)
		if e.CrashAt > 0 && w.Node(e.Node).Crashed {
			// the serving node died in the middle of the request; it comes back
			if k, d := w.recover(e.Node); k != "" {
				return k, d
			}
			if !done {
				w.unackedCreates++
				return w.checkCatalogue()
			}
		}
		w.Disarm()
		if !done {
			// time passes: the request's 1 s deadline fires
			w.FireDeadlines(e.Node)
			w.Settle(1)
		}
		if v := w.first(); v != nil {
			return v.Key, v.Desc
		}
		if !done {
			return "create-never-returns", "the Create call did not return even after its deadline fired"
		}
		if err != nil {
			// C20's business: a node restarted from a compacted zero-group log has lost its peers' addresses
			for _, n := range w.Nodes {
				if n.Crashed || n.Srv == nil {
					continue
				}
				known := n.Srv.VerifConn().Nodes()
				for _, p := range w.Nodes {
					if !p.Crashed && known[p.ID] == "" {
						return "create-fails: node restarted from a compacted log has lost its peers' addresses (C20)", fmt.Sprintf("Create returned %v; node %d knows only %v", err, n.ID, known)
					}
				}
			}
			return "create-fails-on-healthy-cluster", fmt.Sprintf("Create returned %v", err)
		}
		id := uuid.FromBytesOrNil(resp.Id)
		w.created = append(w.created, id)
		w.expected[id] = canonDataset(resp)
		for _, n := range w.Nodes {
			if !n.Crashed {
				if ds, err := n.Srv.VerifDatasetManager().Get(id); err == nil {
					w.objects[id] = append(w.objects[id], ds)
				}
			}
		}
	case "delete":
		w.counts.deletes++
		id := w.created[e.DS]
		var err error
		done := false
		w.S.Spawn(fmt.Sprintf("n%d/delete#%d", e.Node, w.counts.deletes), false, func() {
			_, err = fakes.Registry[world.ServerAddr(e.Node)].Datasets.Delete(context.Background(), &pb.UUIDRequest{Id: id.Bytes()})
			done = true
		})
		w.Quiesce()
		w.Settle(3)
		if e.CrashAt > 0 && w.Node(e.Node).Crashed {
			if k, d := w.recover(e.Node); k != "" {
				return k, d
			}
			if !done {
				if w.maybeDeleted == nil {
					w.maybeDeleted = map[string]bool{}
				}
				w.maybeDeleted[fmt.Sprintf("%x", id.Bytes())] = true
				return w.checkCatalogue()
			}
		}
		w.Disarm()
		if !done {
			w.FireDeadlines(e.Node)
			w.Settle(1)
		}
		if v := w.first(); v != nil {
			return v.Key, v.Desc
		}
		if !done {
			return "delete-never-returns", "the Delete call did not return even after its deadline fired"
		}
		if _, was := w.expected[id]; was {
			if err != nil {
				return "delete-fails-on-healthy-cluster", fmt.Sprintf("Delete returned %v", err)
			}
			delete(w.expected, id)
			for _, ds := range w.objects[id] {
				for p := 0; p < ds.VerifPartitionCount(); p++ {
					if ds.VerifPartition(p).Raft() != nil {
						return "deleted-dataset-keeps-serving", fmt.Sprintf("partition %d of the deleted dataset still has its raft group loaded", p)
					}
				}
			}
		} else if err == nil {
			return "delete-of-absent-dataset-succeeds", "Delete of an already deleted dataset returned success"
		}
	case "snapshot":
		w.counts.snapshots++
		w.SnapshotTick(e.Node)
		w.Settle(1)
	case "restart":
		w.counts.restarts++
		w.Crash(e.Node)
		if err := w.Boot(e.Node); err != nil {
			return "restart-fails", fmt.Sprintf("setup() returned %v", err)
		}
		if v := w.first(); v != nil {
			return "restart:" + v.Key, v.Desc
		}
		// let the restarted node (re)gain leadership / catch up
		for r := 0; r < 3 && w.ZeroLeader() == 0; r++ {
			w.Tick(e.Node, 10)
			w.Settle(1)
		}
		w.Settle(3)
		// dataset objects of the previous incarnation are gone: look the live ones up again
		for id := range w.objects {
			w.objects[id] = nil
			for _, n := range w.Nodes {
				if !n.Crashed {
					if ds, err := n.Srv.VerifDatasetManager().Get(id); err == nil {
						w.objects[id] = append(w.objects[id], ds)
					}
				}
			}
		}
	}
	if v := w.first(); v != nil {
		return v.Key, v.Desc
	}
	return w.checkCatalogue()
}

func (w *wld) checkCatalogue() (string, string) {
	want := map[string]string{}
	for id, c := range w.expected {
		want[fmt.Sprintf("%x", id.Bytes())] = c
	}
	var firstExtras []string
	firstNode := uint64(0)
	for _, n := range w.Nodes {
		if n.Crashed {
			continue
		}
		got, ok := w.catalogue(n.ID)
		if !ok {
			return "list-never-returns", fmt.Sprintf("List on node %d did not return", n.ID)
		}
		// effects of requests that a crash cut short before their acknowledgement: there or not, but the same everywhere
		var extras []string
		for id := range got {
			if _, has := want[id]; !has {
				extras = append(extras, id)
			}
		}
		for id := range want {
			if _, has := got[id]; !has && w.maybeDeleted[id] {
				extras = append(extras, "-"+id)
			}
		}
		sort.Strings(extras)
		if firstNode == 0 {
			firstNode, firstExtras = n.ID, extras
		} else if fmt.Sprint(extras) != fmt.Sprint(firstExtras) {
			return "catalogues-differ-between-nodes", fmt.Sprintf("after an unacknowledged request: node %d and node %d disagree about its effect (%v vs %v)", firstNode, n.ID, firstExtras, extras)
		}
		allowedExtra := w.unackedCreates
		for id, c := range want {
			g, has := got[id]
			if !has && w.maybeDeleted[id] {
				continue
			}
			if !has {
				return "acknowledged-dataset-missing", fmt.Sprintf("node %d does not list dataset %s (catalogue: %v)", n.ID, id[:8], keys(got))
			}
			if g != c {
				return "catalogue-entry-differs", fmt.Sprintf("node %d lists %s, acknowledged descriptor is %s", n.ID, g, c)
			}
		}
		for id := range got {
			if _, has := want[id]; !has {
				if allowedExtra > 0 {
					allowedExtra--
					continue
				}
				return "deleted-dataset-still-listed", fmt.Sprintf("node %d still lists dataset %s", n.ID, id[:8])
			}
		}
	}
	return "", ""
}

func keys(m map[string]string) []string {
	var out []string
	for k := range m {
		out = append(out, k[:8])
	}
	sort.Strings(out)
	return out
}

func (w *wld) canon() string {
	var sb strings.Builder
	for _, n := range w.Nodes {
		c, _ := w.catalogue(n.ID)
		var ks []string
		for k, v := range c {
			ks = append(ks, k[:6]+"="+v)
		}
		sort.Strings(ks)
		fmt.Fprintf(&sb, "|n%d %v", n.ID, ks)
		// zero-group durable state matters for the future (snapshot / log shape)
		if !n.Crashed {
			var st string
			w.Call(n.ID, "st", func() {
				s := n.Srv.VerifZeroGroup().VerifStatus()
				st = fmt.Sprintf("t%d c%d a%d %s", s.Term, s.Commit, s.Applied, s.RaftState)
			})
			sb.WriteString(" " + st)
		}
	}
	fmt.Fprintf(&sb, "|snap%d", w.counts.snapshots)
	return sb.String()
}

var limits struct{ creates, deletes, snapshots, restarts int }

func enabled(w *wld) []event {
	var out []event
	for _, n := range w.Nodes {
		if n.Crashed {
			continue
		}
		if w.counts.creates < limits.creates {
			out = append(out, event{Kind: "create", Node: n.ID, P: 1, R: 1, Space: 0})
			if n.ID == 1 {
				out = append(out, event{Kind: "create", Node: n.ID, P: 2, R: 2, Space: 2})
			}
		}
		if w.counts.deletes < limits.deletes {
			for i := range w.created {
				out = append(out, event{Kind: "delete", Node: n.ID, DS: i})
			}
		}
		if w.counts.snapshots < limits.snapshots {
			out = append(out, event{Kind: "snapshot", Node: n.ID})
		}
		if w.counts.restarts < limits.restarts {
			out = append(out, event{Kind: "restart", Node: n.ID})
		}
	}
	return out
}

// ---- E1: start-up wiring ----

func wiringScenario(withSnapshot bool) *explore.Scenario {
	name := "restart-wiring-from-log"
	if withSnapshot {
		name = "restart-wiring-from-compacted-log"
	}
	return &explore.Scenario{
		Name:      name,
		Configure: func(s *vrt.Sched) { s.Horizon = 2000000; s.SpawnPoints = true; s.DelayBounding = true },
		Build: func(x *explore.Exec) func(vrt.EndReason) *explore.Violation {
			// first life, sequential: one server, two committed creates (and optionally a snapshot)
			world.Quiet()
			fakes.Reset()
			n := world.NewSNode(1, nil)
			x.OnCleanup(n.Close)
			x.S.SpawnPoints = false
			x.S.Spawn("n1/setup", false, func() {
				if err := n.Setup(); err != nil {
					panic(err)
				}
			})
			x.Quiesce()
			tick := func(k int, d time.Duration) {
				for i := 0; i < k; i++ {
					for _, t := range x.S.Timers() {
						if t.Kind == "ticker" && t.D == d && t.Armed() {
							x.S.Fire(t)
						}
					}
					x.Quiesce()
				}
			}
			tick(10, 100*time.Millisecond)
			var ids []string
			for i := 0; i < 2; i++ {
				x.S.Spawn(fmt.Sprintf("n1/create%d", i), false, func() {
					resp, err := fakes.Registry[world.ServerAddr(1)].Datasets.Create(context.Background(), &pb.Dataset{Dimension: 2, PartitionCount: 1, ReplicationFactor: 1})
					if err != nil {
						panic(err)
					}
					ids = append(ids, fmt.Sprintf("%x", resp.Id))
				})
				x.Quiesce()
			}
			if withSnapshot {
				tick(1, 10*time.Second)
			}
			// crash
			x.S.KillPrefix("n1/")
			// second life: the real setup() races with the zero group's ready loop
			x.S.SpawnPoints = true
			var serr error
			setupDone := false
			x.S.Spawn("n1/setup-restart", true, func() {
				serr = n.Setup()
				setupDone = true
			})
			return func(end vrt.EndReason) *explore.Violation {
				if !setupDone {
					x.Outcome = "setup-blocked"
					return &explore.Violation{Key: deadlockKey(x, "restart-setup-never-returns"), Desc: "setup() of the restarting server never returns: " + strings.Join(x.S.Blocked(), "; ")}
				}
				if serr != nil {
					return &explore.Violation{Key: "restart-setup-fails", Desc: serr.Error()}
				}
				// let time pass (election) so that the committed log is applied
				x.S.SpawnPoints = false
				for i := 0; i < 12; i++ {
					for _, t := range x.S.Timers() {
						if t.Kind == "ticker" && t.D == 100*time.Millisecond && t.Armed() {
							x.S.Fire(t)
						}
					}
					x.S.Run(defaultPick{}, nil)
				}
				if t := x.S.Panicked(); t != nil {
					return nil // reported as panic:<site>
				}
				listed := map[string]bool{}
				lsDone := false
				x.S.Spawn("n1/list", false, func() {
					st := &fakes.DatasetServerStream{Ctx: context.Background()}
					n.Srv.VerifDatasetManager()
					fakes.Registry[world.ServerAddr(1)].Datasets.List(&pb.ListDatasetsRequest{}, st)
					for _, d := range st.Items {
						listed[fmt.Sprintf("%x", d.Id)] = true
					}
					lsDone = true
				})
				x.S.Run(defaultPick{}, nil)
				x.Outcome = fmt.Sprintf("listed=%d", len(listed))
				if !lsDone {
					key := deadlockKey(x, "list-never-returns-after-restart")
					return &explore.Violation{Key: key, Desc: strings.Join(x.S.Blocked(), "; ")}
				}
				for _, id := range ids {
					if !listed[id] {
						return &explore.Violation{Key: "acknowledged-dataset-missing-after-restart", Desc: fmt.Sprintf("the restarted node lists %d of the 2 acknowledged datasets: entries replayed by the zero group before the dataset manager registered its consumer are dropped", len(listed))}
					}
				}
				return nil
			}
		},
	}
}

// deadlockKey names a control-plane deadlock by the allocator functions involved (C18's family).
func deadlockKey(x *explore.Exec, generic string) string {
	var roles []string
	for _, t := range x.S.Threads() {
		if t.Finished() {
			continue
		}
		fn := vrt.SiteFunc(t.Where())
		if strings.Contains(fn, "(*Allocator).") && !strings.HasSuffix(fn, ".run") {
			roles = append(roles, strings.TrimPrefix(fn, "storage.")+" on "+t.Kind().String())
		}
	}
	if len(roles) == 0 {
		return generic
	}
	sort.Strings(roles)
	return "control-plane-deadlock-at-restart(C18): " + strings.Join(roles, " | ")
}

type defaultPick struct{}

func (defaultPick) Pick(s *vrt.Sched, alts []vrt.Alt, costs []int) int { return 0 }

func main() {
	thorough := os.Getenv("VERIF_TIER") == "thorough"
	os.Setenv("VERIF_TUNABLE_snapshotOffset", "0")
	before := func(run *ev.Run) ev.Coverage {
		type ph struct {
			nodes, depth                          int
			creates, deletes, snapshots, restarts int
		}
		phases := []ph{{1, 5, 2, 1, 1, 2}, {2, 3, 1, 1, 1, 1}}
		if thorough {
			phases = []ph{{1, 7, 3, 2, 2, 2}, {2, 5, 2, 1, 1, 2}, {3, 3, 1, 1, 1, 1}}
		}
		states, transitions := 0, 0
		complete := true
		deadline := time.Now().Add(60 * time.Second)
		if thorough {
			deadline = time.Now().Add(20 * time.Minute)
		}
		catlogOnly := os.Getenv("VERIF_AS") != "" && os.Getenv("VERIF_PART_MODE") == "catlog"
		if catlogOnly {
			phases = nil // borrowed phase "catlog": only the catalogue-log part
		}
		for _, p := range phases {
			p := p
			limits.creates, limits.deletes, limits.snapshots, limits.restarts = p.creates, p.deletes, p.snapshots, p.restarts
			st := seq.BFS(seq.Config[*wld, event]{
				Depth: p.depth, Workers: 1, Deadline: deadline,
				Build: func(wi int, path []event) (*wld, string, string) {
					w, k, d := build(p.nodes, path)
					if k != "" {
						w.Close()
					}
					return w, k, d
				},
				Enabled: func(w *wld) []event { e := enabled(w); w.Close(); return e },
				Canon:   func(w *wld) string { c := w.canon(); w.Close(); return c },
				OnViolation: func(key, desc string, path []event) {
					run.Violation(key, fmt.Sprintf("N=%d %v: %s", p.nodes, path, desc), map[string]interface{}{"nodes": p.nodes, "path": path})
				},
			})
			states += st.States
			transitions += st.Transitions
			complete = complete && st.Complete
		}
		// crash points inside a request: the serving node dies before / after each durable write the request makes it
		// perform and comes back; what was acknowledged must be there, what was not may be - the same on every node
		crashCases := 0
		for _, nodes := range []int{1, 2} {
			for _, via := range []uint64{1, 2} {
				if int(via) > nodes || catlogOnly {
					continue
				}
				c1 := event{Kind: "create", Node: via, P: 1, R: 1}
				for _, base := range [][]event{{c1}, {c1, {Kind: "create", Node: via, P: 2, R: 1, Space: 1}}, {c1, {Kind: "delete", Node: via, DS: 0}}, {c1, {Kind: "snapshot", Node: via}, {Kind: "delete", Node: via, DS: 0}}} {
					if time.Now().After(deadline) {
						complete = false
						break
					}
					limits.creates, limits.deletes, limits.snapshots, limits.restarts = 99, 99, 99, 99
					w, k, d := build(nodes, base)
					n := w.lastDurable
					w.Close()
					if k != "" {
						run.Violation(k, fmt.Sprintf("N=%d %v: %s", nodes, base, d), map[string]interface{}{"nodes": nodes, "path": base})
						continue
					}
					for j := 1; j <= n; j++ {
						for _, mode := range [][2]bool{{false, false}, {true, false}, {false, true}, {true, true}} {
							after, opp := mode[0], mode[1]
							var path []event
							if opp {
								// the same crash point with every transition under the opposite of the default schedule
								path = append(path, event{Kind: "opposite-schedule"})
							}
							path = append(path, base...)
							path[len(path)-1].CrashAt, path[len(path)-1].CrashAfter = j, after
							// afterwards the node is used again: one more create must work and be listed everywhere
							path = append(path, event{Kind: "create", Node: via, P: 1, R: 1, Space: 2})
							w, k, d := build(nodes, path)
							w.Close()
							crashCases++
							if k != "" {
								run.Violation(k+":crash-inside-request", fmt.Sprintf("N=%d %v: %s", nodes, path, d), map[string]interface{}{"nodes": nodes, "path": path})
							}
						}
					}
				}
			}
		}
		transitions += crashCases
		// catalogue log determinism: every log up to a depth x every cut point x {fresh, used}
		logDepth := 3
		if thorough {
			logDepth = 4
		}
		logs, cuts := 0, 0
		alpha := catalogueAlphabet()
		var rec func(log []centry)
		rec = func(log []centry) {
			if len(log) > 0 {
				logs++
				if k, d := catalogueLog(log); k != "" {
					run.Violation(k, d, map[string]interface{}{"log": log})
					return
				}
				if k, d := catalogueBackToBack(log); k != "" {
					run.Violation(k, d, map[string]interface{}{"log": log, "back_to_back": true})
					return
				}
				for c := 0; c <= len(log); c++ {
					for _, used := range []bool{false, true} {
						cuts++
						if k, d := catalogueCut(log, c, used); k != "" {
							run.Violation(k, d, map[string]interface{}{"log": log, "cut": c, "used": used})
						}
					}
				}
			}
			if len(log) >= logDepth || time.Now().After(deadline) {
				return
			}
			for _, e := range alpha {
				rec(append(append([]centry{}, log...), e))
			}
		}
		rec(nil)
		uses := 0
		for _, lg := range useLogs() {
			uses++
			if k, d := catalogueUse(lg); k != "" {
				run.Violation(k, d, map[string]interface{}{"log": lg, "use": true})
			}
		}
		transitions += uses
		transitions += logs + cuts
		states += logs
		return ev.Coverage{"crash_inside_request_cases": crashCases, "catalogue_logs": logs, "catalogue_cut_checks": cuts, "evaluations": transitions, "distinct_nontrivial": states, "traces_validated_against_impl": transitions,
			"catalogue_states": states, "catalogue_transitions": transitions, "catalogue_bfs_complete": complete,
			"rule": "E2: BFS over create/delete/snapshot/restart histories on 1- and 2-node clusters of real servers (every event followed by settling the cluster); after each event every live node's List() must equal the acknowledged catalogue"}
	}
	if len(os.Args) > 2 && os.Args[1] == "--replay" {
		var f struct {
			Replay struct {
				Nodes int     `json:"nodes"`
				Path  []event `json:"path"`
			} `json:"replay"`
		}
		b, _ := os.ReadFile(os.Args[2])
		json.Unmarshal(b, &f)
		var lf struct {
			Replay struct {
				Log        []centry `json:"log"`
				Cut        *int     `json:"cut"`
				Used       bool     `json:"used"`
				BackToBack bool     `json:"back_to_back"`
				Use        bool     `json:"use"`
			} `json:"replay"`
		}
		json.Unmarshal(b, &lf)
		if len(lf.Replay.Log) > 0 {
			var k, d string
			switch {
			case lf.Replay.Use:
				k, d = catalogueUse(lf.Replay.Log)
			case lf.Replay.BackToBack:
				k, d = catalogueBackToBack(lf.Replay.Log)
			case lf.Replay.Cut != nil:
				k, d = catalogueCut(lf.Replay.Log, *lf.Replay.Cut, lf.Replay.Used)
			default:
				k, d = catalogueLog(lf.Replay.Log)
			}
			if k != "" && ev.Counts(k) {
				fmt.Printf("VIOLATION property=%s replay=%s\n  %s: %s\n", ev.As("C14"), os.Args[2], k, d)
				os.Exit(1)
			}
			fmt.Println("replay: property held")
			return
		}
		if f.Replay.Nodes > 0 {
			limits.creates, limits.deletes, limits.snapshots, limits.restarts = 99, 99, 99, 99
			w, k, d := build(f.Replay.Nodes, f.Replay.Path)
			for _, n := range w.Nodes {
				if !n.Crashed && n.Srv != nil {
					fmt.Printf("node %d knows %v\n", n.ID, n.Srv.VerifConn().Nodes())
				}
			}
			w.Close()
			if k != "" {
				fmt.Printf("VIOLATION property=%s replay=%s\n  %s: %s\n", ev.As("C14"), os.Args[2], k, d)
				os.Exit(1)
			}
			fmt.Println("replay: property held")
			return
		}
	}
	scs := []*explore.Scenario{wiringScenario(false), wiringScenario(true)}
	explore.Main("C14", scs, explore.Plan{QuickBound: 2, ThoroughBound: 3, QuickBudget: 60 * time.Second, ThoroughBudget: 15 * time.Minute, Shards: 4, Before: before},
		"model_checking", []string{
			"servers are built by the real Server.setup() (only the Badger path, the TCP listener and the wire are simulated); the zero-group snapshot offset is lowered to 0",
			"E2 part: one event at a time, the cluster settles in between (sequential histories; message faults are C05's business)",
			"crash points inside a request: create / delete served by node v on 1- and 2-node clusters, v crashing before and after every durable write the request makes it perform (zero group and partition logs), then restarting; one more create afterwards",
			"E1 part: a `go` statement is a scheduling point, so the zero group's ready loop may run before setup() continues",
		})
}
