// C10 — item routing is a stable, total function of the id and the partition count.
//
// Function level (E3, exhaustive product): utils.UuidMod for all n in 1..1024 x a boundary set
// of 128-bit ids, against math/big. System level: simulated clusters of real nodes (real
// Dataset / partition / single- and two-replica raft groups over badgerWAL, wire replaced by
// in-memory fakes), every write path x every entry node x ids hitting every partition, driven
// sequentially to quiescence under the scheduler; after every write exactly the replicas of
// the owner partition hold the id; rebuilt Dataset objects and a snapshot-restored catalogue
// route identically.
package main

import (
	"context"
	"encoding/json"
	"fmt"
	"math/big"
	"os"
	"strings"
	"time"

	"anndbverif/explore"
	"anndbverif/lib/ev"
	"anndbverif/vrt"
	"anndbverif/vrt/fakes"
	"anndbverif/world"

	"github.com/golang/protobuf/proto"
	"github.com/marekgalovic/anndb/index"
	pb "github.com/marekgalovic/anndb/protobuf"
	"github.com/marekgalovic/anndb/storage"
	"github.com/marekgalovic/anndb/utils"
	uuid "github.com/satori/go.uuid"
)

// ---- function level ----

func boundary(n uint64) []uint64 {
	b := []uint64{0, 1, 2, n - 1, n, n + 1, 1<<32 - 1, 1 << 32, 1<<32 + 1, 1<<63 - 1, 1 << 63, 1<<63 + 1, ^uint64(0), ^uint64(0) - n, ^uint64(0) - n + 1,
		0x0123456789abcdef, 0xfedcba9876543210, 0x8000000080000000, 0x7fffffff7fffffff, 0xdeadbeefcafef00d, 0x00000000ffffffff, 0xffffffff00000000, 0x5555555555555555}
	return b
}

func functionLevel(run *ev.Run) (int, int) {
	evals, distinct := 0, 0
	check := func(lo, hi, n uint64) {
		id := world.ID(lo, hi)
		got := utils.UuidMod(id, n)
		evals++
		bn := new(big.Int).SetUint64(n)
		a := new(big.Int).Mod(new(big.Int).SetUint64(lo), bn)
		b := new(big.Int).Mod(new(big.Int).SetUint64(hi), bn)
		want := new(big.Int).Mod(new(big.Int).Add(a, b), bn).Uint64()
		if got >= n {
			run.Violation("owner-out-of-range", fmt.Sprintf("UuidMod(%x,%x ; %d) = %d", lo, hi, n, got), map[string]interface{}{"lo": lo, "hi": hi, "n": n})
		} else if got != want {
			run.Violation("owner-differs-from-definition", fmt.Sprintf("UuidMod(%x,%x ; %d) = %d, ((lo mod n)+(hi mod n)) mod n = %d", lo, hi, n, got, want), map[string]interface{}{"lo": lo, "hi": hi, "n": n})
		}
		if got2 := utils.UuidMod(id, n); got2 != got {
			run.Violation("owner-not-stable", "two evaluations differ", map[string]interface{}{"lo": lo, "hi": hi, "n": n})
		}
	}
	for n := uint64(1); n <= 1024; n++ {
		bs := boundary(n)
		for _, lo := range bs {
			for _, hi := range bs {
				check(lo, hi, n)
			}
		}
		distinct += len(bs) * len(bs)
	}
	for _, n := range []uint64{1<<31 - 1, 1 << 32, 1<<62 + 1, 1<<63 - 1, 1 << 63} /* beyond 2^63 the inner sum may wrap; the property quantifies over 1..1024 */ {
		for _, lo := range boundary(n) {
			for _, hi := range boundary(n) {
				check(lo, hi, n)
			}
		}
	}
	return evals, distinct
}

// ---- system level ----

type sysCase struct {
	Nodes     int        `json:"nodes"`
	Placement [][]uint64 `json:"placement"`
}

// idsFor returns ids covering every partition of a P-partition dataset (two per partition).
func idsFor(P int) []uuid.UUID {
	var out []uuid.UUID
	count := make([]int, P)
	mix := func(z uint64) uint64 {
		z += 0x9E3779B97F4A7C15
		z = (z ^ (z >> 30)) * 0xBF58476D1CE4E5B9
		z = (z ^ (z >> 27)) * 0x94D049BB133111EB
		return z ^ (z >> 31)
	}
	for k := uint64(1); len(out) < 2*P && k < 4000; k++ {
		id := world.ID(mix(k), mix(k+77777))
		p := int(utils.UuidMod(id, uint64(P)))
		if count[p] < 2 {
			count[p]++
			out = append(out, id)
		}
	}
	for p, c := range count {
		if c != 2 {
			ev.Tool("idsFor(%d): partition %d not covered", P, p)
		}
	}
	// boundary ids are ids like any other: the all-zero and the all-ones UUID
	out = append(out, uuid.Nil, uuid.UUID{0xff, 0xff, 0xff, 0xff, 0xff, 0xff, 0xff, 0xff, 0xff, 0xff, 0xff, 0xff, 0xff, 0xff, 0xff, 0xff})
	// halves whose sum passes 2^64 (a formula that adds before it reduces wraps there), with residues that are not zero
	max := ^uint64(0)
	out = append(out, world.ID(1, max), world.ID(max-1, max-1), world.ID(5, max-2))
	return out
}

type sys struct {
	s     *vrt.Sched
	nodes []*world.RNode
	meta  *pb.Dataset
	c     sysCase
	calls int
}

func (y *sys) runThread(name string, f func()) string {
	done := false
	y.s.Spawn(name, true, func() { f(); done = true })
	end := y.s.Run(def{}, nil)
	if t := y.s.Panicked(); t != nil {
		return fmt.Sprintf("panic in %s: %v\n%s", t.Name, t.Panic, t.Stack)
	}
	if !done || end != vrt.Quiescent {
		return "did not finish: " + strings.Join(y.s.Blocked(), "; ")
	}
	return ""
}

type def struct{}

func (def) Pick(s *vrt.Sched, alts []vrt.Alt, costs []int) int { return 0 }

// rev is the opposite of the default schedule: the last enabled alternative first (threads started later run earlier,
// whatever they build completes in the opposite order).
type rev struct{}

func (rev) Pick(s *vrt.Sched, alts []vrt.Alt, costs []int) int { return len(alts) - 1 }

func newSys(c sysCase) (*sys, string) {
	fakes.Reset()
	vrt.ResetContexts()
	y := &sys{s: vrt.New(), c: c}
	y.s.Horizon = 5000000
	y.s.Begin()
	y.meta = world.DatasetMeta(2, pb.Space_Euclidean, c.Placement, 2)
	peers := []uint64{}
	for i := 1; i <= c.Nodes; i++ {
		peers = append(peers, uint64(i))
	}
	y.nodes = make([]*world.RNode, c.Nodes)
	for i := 1; i <= c.Nodes; i++ {
		i := i
		if e := y.runThread(fmt.Sprintf("n%d/setup", i), func() {
			y.nodes[i-1] = world.NewRNode(uint64(i), world.MemDB(), peers)
			if err := y.nodes[i-1].ApplyCreate(y.meta); err != nil {
				panic(err)
			}
		}); e != "" {
			return y, "setup: " + e
		}
	}
	for i := 1; i <= c.Nodes; i++ {
		i := i
		if e := y.runThread(fmt.Sprintf("n%d/campaign", i), func() { y.nodes[i-1].Campaign(y.meta) }); e != "" {
			return y, "campaign: " + e
		}
	}
	return y, ""
}

func (y *sys) close() {
	y.s.End()
	for _, n := range y.nodes {
		if n != nil {
			n.Close()
		}
	}
}

func (y *sys) hosts(node uint64, p int) bool {
	for _, id := range y.c.Placement[p] {
		if id == node {
			return true
		}
	}
	return false
}

// holders lists "node/partition" pairs whose index holds id.
func (y *sys) holders(id uuid.UUID) []string {
	var out []string
	for _, n := range y.nodes {
		ds := n.Dataset(y.meta)
		for p := 0; p < ds.VerifPartitionCount(); p++ {
			if _, err := ds.VerifPartition(p).Index().Get(id); err == nil {
				out = append(out, fmt.Sprintf("n%d/p%d", n.ID, p))
			}
		}
	}
	return out
}

func (y *sys) expectHolders(id uuid.UUID, present bool) []string {
	if !present {
		return nil
	}
	P := len(y.c.Placement)
	owner := int(utils.UuidMod(id, uint64(P)))
	var out []string
	for _, n := range y.nodes {
		if y.hosts(n.ID, owner) {
			out = append(out, fmt.Sprintf("n%d/p%d", n.ID, owner))
		}
	}
	return out
}

// write performs one API call through entry node e and returns its error string.
func (y *sys) write(path string, e int, id uuid.UUID, vec []float32) (string, string) {
	ds := y.nodes[e].Dataset(y.meta)
	var err error
	var berrs map[uuid.UUID]error
	item := []*pb.BatchItem{{Id: id.Bytes(), Value: vec, Metadata: map[string]string{"k": "v"}}}
	y.calls++
	if te := y.runThread(fmt.Sprintf("n%d/call%d", e+1, y.calls), func() {
		ctx := context.Background()
		switch path {
		case "Insert":
			err = ds.Insert(ctx, id, vec, index.Metadata{"k": "v"})
		case "Update":
			err = ds.Update(ctx, id, vec, index.Metadata{"k": "w"})
		case "Remove":
			err = ds.Remove(ctx, id)
		case "BatchInsert":
			berrs, err = ds.BatchInsert(ctx, item)
		case "BatchUpdate":
			berrs, err = ds.BatchUpdate(ctx, item)
		case "BatchRemove":
			berrs, err = ds.BatchRemove(ctx, item)
		}
	}); te != "" {
		return "", te
	}
	if err != nil {
		return err.Error(), ""
	}
	if e2, ok := berrs[id]; ok && e2 != nil {
		return e2.Error(), ""
	}
	return "", ""
}

// writeBatch sends all ids in ONE batch through entry node e; returns the per-id errors.
func (y *sys) writeBatch(path string, e int, ids []uuid.UUID, vec []float32) (map[uuid.UUID]string, string) {
	ds := y.nodes[e].Dataset(y.meta)
	var items []*pb.BatchItem
	for _, id := range ids {
		items = append(items, &pb.BatchItem{Id: id.Bytes(), Value: vec, Metadata: map[string]string{"k": path}})
	}
	var err error
	var berrs map[uuid.UUID]error
	y.calls++
	if te := y.runThread(fmt.Sprintf("n%d/call%d", e+1, y.calls), func() {
		ctx := context.Background()
		switch path {
		case "BatchInsert":
			berrs, err = ds.BatchInsert(ctx, items)
		case "BatchUpdate":
			berrs, err = ds.BatchUpdate(ctx, items)
		case "BatchRemove":
			berrs, err = ds.BatchRemove(ctx, items)
		}
	}); te != "" {
		return nil, te
	}
	out := map[uuid.UUID]string{}
	if err != nil {
		out[uuid.Nil] = "call failed: " + err.Error()
	}
	for id, e2 := range berrs {
		if e2 != nil {
			out[id] = e2.Error()
		}
	}
	return out, ""
}

func systemCase(run *ev.Run, c sysCase) (calls int) {
	y, e := newSys(c)
	defer y.close()
	bad := func(key, desc string, hist []string) {
		run.Violation(key, fmt.Sprintf("nodes=%d placement=%v: %s", c.Nodes, c.Placement, desc), map[string]interface{}{"case": c, "history": hist})
	}
	if e != "" {
		bad("cluster-setup-failed", e, nil)
		return 0
	}
	P := len(c.Placement)
	ids := idsFor(P)
	var hist []string
	step := func(path string, entry int, id uuid.UUID, vec []float32, wantErr string, present bool) bool {
		hist = append(hist, fmt.Sprintf("%s(%x) via n%d", path, id[:3], entry+1))
		got, te := y.write(path, entry, id, vec)
		if te != "" {
			bad("write-path-wedged-or-panicked", fmt.Sprintf("%s: %s", hist[len(hist)-1], te), hist)
			return false
		}
		if got != wantErr {
			bad("operation-does-not-find-item:"+path, fmt.Sprintf("%s returned %q, expected %q (owner partition %d)", hist[len(hist)-1], got, wantErr, utils.UuidMod(id, uint64(P))), hist)
			return false
		}
		have, want := fmt.Sprint(y.holders(id)), fmt.Sprint(y.expectHolders(id, present))
		if have != want {
			bad("item-stored-outside-owner-replicas:"+path, fmt.Sprintf("after %s the id is held by %s, owner replicas are %s", hist[len(hist)-1], have, want), hist)
			return false
		}
		return true
	}
	n := c.Nodes
	for k, id := range ids {
		for _, variant := range []int{0, 1} {
			ins, upd, rem := "Insert", "Update", "Remove"
			if variant == 1 {
				ins, upd, rem = "BatchInsert", "BatchUpdate", "BatchRemove"
			}
			e0 := (k + variant) % n
			if !step(ins, e0, id, []float32{1, 2}, "", true) {
				return y.calls
			}
			// every other node must find it (duplicate insert is rejected by the owner)
			for e := 0; e < n; e++ {
				if !step(ins, e, id, []float32{3, 4}, index.ItemAlreadyExistsError.Error(), true) {
					return y.calls
				}
			}
			if !step(upd, (e0+1)%n, id, []float32{5, 6}, "", true) {
				return y.calls
			}
			if !step(rem, (e0+2)%n, id, nil, "", false) {
				return y.calls
			}
			if !step(rem, e0, id, nil, index.ItemNotFoundError.Error(), false) {
				return y.calls
			}
		}
	}
	// one batch spanning every partition (local and remote owners at once), through every entry node: each item
	// must land at exactly its owner's replicas, be updated there and disappear from there
	for e0 := 0; e0 < n; e0++ {
		for i, path := range []string{"BatchInsert", "BatchUpdate", "BatchRemove"} {
			entry := (e0 + i) % n
			hist = append(hist, fmt.Sprintf("%s(all %d ids in one batch) via n%d", path, len(ids), entry+1))
			errs, te := y.writeBatch(path, entry, ids, []float32{float32(i + 1), 2})
			if te != "" {
				bad("write-path-wedged-or-panicked", fmt.Sprintf("%s: %s", hist[len(hist)-1], te), hist)
				return y.calls
			}
			if len(errs) != 0 {
				bad("whole-batch-reports-errors:"+path, fmt.Sprintf("%s on a healthy cluster returned %v", hist[len(hist)-1], errs), hist)
				return y.calls
			}
			for _, id := range ids {
				have, want := fmt.Sprint(y.holders(id)), fmt.Sprint(y.expectHolders(id, path != "BatchRemove"))
				if have != want {
					bad("item-stored-outside-owner-replicas:whole-"+path, fmt.Sprintf("after %s id %x (owner partition %d) is held by %s, owner replicas are %s", hist[len(hist)-1], id[:3], utils.UuidMod(id, uint64(P)), have, want), hist)
					return y.calls
				}
			}
		}
	}
	// restart: Dataset objects rebuilt from the same descriptor route identically, and so does a
	// catalogue restored from a snapshot taken after the descriptor was served to clients
	owners := map[uuid.UUID]string{}
	ds0 := y.nodes[0].Dataset(y.meta)
	for _, id := range ids {
		owners[id] = ds0.VerifPartition(ds0.VerifPartitionIndexFor(id)).Id().String()
	}
	var restoreErr string
	if te := y.runThread("n1/restart-probe", func() {
		for _, nd := range y.nodes {
			srv := fakes.Registry[world.Addr(nd.ID)].Datasets
			if _, err := srv.Get(context.Background(), &pb.GetDatasetRequest{DatasetId: y.meta.Id}); err != nil {
				restoreErr = "Get: " + err.Error()
				return
			}
			srv.List(&pb.ListDatasetsRequest{}, &fakes.DatasetServerStream{Ctx: context.Background()})
			snap, err := nd.DM.VerifSnapshot()
			if err != nil {
				restoreErr = "snapshot: " + err.Error()
				return
			}
			fresh := storage.VerifBareDatasetManager(nd.DB, nd.Transport, nd.Conn, nd.Allocator)
			// restoring re-registers partitions with the allocator: already watched, so no load
			if err := fresh.VerifRestore(snap); err != nil {
				restoreErr = "restore: " + err.Error()
				return
			}
			rds, err := fresh.Get(uuid.FromBytesOrNil(y.meta.Id))
			if err != nil {
				restoreErr = "restored catalogue lacks the dataset"
				return
			}
			m2 := proto.Clone(y.meta).(*pb.Dataset)
			rebuilt, err := storage.VerifNewDataset(uuid.FromBytesOrNil(y.meta.Id), *m2, nd.DB, nd.Transport, nd.Conn, nd.DM)
			if err != nil {
				restoreErr = err.Error()
				return
			}
			for _, id := range ids {
				if o := rds.VerifPartition(rds.VerifPartitionIndexFor(id)).Id().String(); o != owners[id] {
					restoreErr = fmt.Sprintf("node %d: after snapshot+restore of the catalogue id %x is owned by partition %s, before by %s", nd.ID, id[:3], o, owners[id])
					return
				}
				if o := rebuilt.VerifPartition(rebuilt.VerifPartitionIndexFor(id)).Id().String(); o != owners[id] {
					restoreErr = fmt.Sprintf("node %d: a rebuilt Dataset routes id %x to %s, before %s", nd.ID, id[:3], o, owners[id])
					return
				}
			}
		}
	}); te != "" {
		bad("restart-probe-wedged-or-panicked", te, hist)
	} else if restoreErr != "" {
		bad("owner-changes-across-restart", restoreErr, hist)
	}
	// the same construction under the opposite schedule (whatever runs concurrently inside it completes in the other
	// order): another node, or this node after a restart, is exactly that
	var rebuilt *storage.Dataset
	done := false
	y.s.Spawn("n1/rebuild-under-the-opposite-schedule", true, func() {
		nd := y.nodes[0]
		m2 := proto.Clone(y.meta).(*pb.Dataset)
		var err error
		rebuilt, err = storage.VerifNewDataset(uuid.FromBytesOrNil(y.meta.Id), *m2, nd.DB, nd.Transport, nd.Conn, nd.DM)
		if err != nil {
			panic(err)
		}
		done = true
	})
	y.s.Run(rev{}, nil)
	if t := y.s.Panicked(); t != nil || !done {
		bad("restart-probe-wedged-or-panicked", "rebuilding the Dataset under the opposite schedule did not finish", hist)
		return y.calls
	}
	for _, id := range ids {
		if o := rebuilt.VerifPartition(rebuilt.VerifPartitionIndexFor(id)).Id().String(); o != owners[id] {
			bad("owner-changes-across-restart", fmt.Sprintf("a Dataset rebuilt from the same descriptor under another schedule routes id %x to %s, before %s", id[:3], o, owners[id]), hist)
			return y.calls
		}
	}
	// a partition without any replica (replication factor 1, its node has left, the replacement is not assigned yet): a
	// write for one of its ids through any node must fail - not crash the node, not land elsewhere; once a replica is
	// assigned again the id is absent and can be stored, and is then found from everywhere
	if len(c.Placement[P-1]) == 1 {
		victim := P - 1
		gone := c.Placement[victim][0]
		var vid uuid.UUID
		for _, id := range ids {
			if int(utils.UuidMod(id, uint64(P))) == victim {
				vid = id
				break
			}
		}
		change := func(add bool, node uint64, seq uint64) string {
			t := pb.DatasetPartitionNodesChangeType_DatasetPartitionNodesChangeRemoveNode
			if add {
				t = pb.DatasetPartitionNodesChangeType_DatasetPartitionNodesChangeAddNode
			}
			cdata, _ := proto.Marshal(&pb.DatasetPartitionNodesChange{Type: t, DatasetId: y.meta.Id, PartitionId: y.meta.Partitions[victim].Id, NodeId: node})
			ch, _ := proto.Marshal(&pb.DatasetManagerChange{Type: pb.DatasetManagerChangeType_DatasetManagerUpdatePartitionNodes, NotificationId: world.ID(0x7700+seq, 3).Bytes(), Data: cdata})
			for _, nd := range y.nodes {
				nd := nd
				y.calls++
				if te := y.runThread(fmt.Sprintf("n%d/catalogue%d", nd.ID, y.calls), func() {
					if err := nd.DM.VerifApply(ch); err != nil {
						panic(err)
					}
				}); te != "" {
					return te
				}
			}
			return ""
		}
		hist = append(hist, fmt.Sprintf("catalogue: partition %d loses its only replica n%d", victim, gone))
		if te := change(false, gone, 1); te != "" {
			bad("write-path-wedged-or-panicked", "replica removal: "+te, hist)
			return y.calls
		}
		for e0 := 0; e0 < n; e0++ {
			// a search of the whole dataset cannot reach that partition: an error, not a crash and not a partial answer
			var serr error
			var sres index.SearchResult
			hist = append(hist, fmt.Sprintf("Search via n%d while partition %d has no replica", e0+1, victim))
			y.calls++
			if te := y.runThread(fmt.Sprintf("n%d/call%d", e0+1, y.calls), func() {
				sres, serr = y.nodes[e0].Dataset(y.meta).Search(context.Background(), []float32{1, 2}, 3)
			}); te != "" {
				bad("write-path-wedged-or-panicked", fmt.Sprintf("%s: %s", hist[len(hist)-1], te), hist)
				return y.calls
			}
			if serr == nil {
				bad("search-succeeds-without-a-partition", fmt.Sprintf("%s returned %d items and no error", hist[len(hist)-1], len(sres)), hist)
				return y.calls
			}
			for _, path := range []string{"Insert", "BatchInsert", "Update", "Remove"} {
				hist = append(hist, fmt.Sprintf("%s(%x) via n%d while partition %d has no replica", path, vid[:3], e0+1, victim))
				got, te := y.write(path, e0, vid, []float32{7, 7})
				if te != "" {
					bad("write-path-wedged-or-panicked", fmt.Sprintf("%s: %s", hist[len(hist)-1], te), hist)
					return y.calls
				}
				if got == "" {
					bad("write-acknowledged-by-a-partition-without-replicas:"+path, fmt.Sprintf("%s returned success", hist[len(hist)-1]), hist)
					return y.calls
				}
				if have := y.holders(vid); len(have) != 0 {
					bad("item-stored-outside-owner-replicas:"+path, fmt.Sprintf("after %s the id is held by %v although its owner partition %d has no replica", hist[len(hist)-1], have, victim), hist)
					return y.calls
				}
			}
		}
	}
	return y.calls
}

// noQuorumBatch: the entry node hosts every partition a batch touches, but one of them cannot apply anything (its group has
// two replicas and the other one is down: no leader). The batch's other items must land at their owners - acknowledged
// means stored - and the items of the stuck partition must come back with an error, whichever group is handled first.
func noQuorumBatch(run *ev.Run) int {
	calls := 0
	for _, op := range []string{"BatchInsert", "BatchRemove"} {
		for _, stuck := range []int{0, 1, 2} {
			calls++
			func() {
				fakes.Reset()
				vrt.ResetContexts()
				s := vrt.New()
				s.Horizon = 5000000
				s.Begin()
				placement := [][]uint64{{1}, {1}, {1}}
				placement[stuck] = []uint64{1, 2}
				meta := world.DatasetMeta(2, pb.Space_Euclidean, placement, 2)
				var node *world.RNode
				defer func() {
					s.End()
					if node != nil {
						node.Close()
					}
				}()
				phase := func(name string, f func()) bool {
					done := false
					s.Spawn("n1/"+name, true, func() { f(); done = true })
					s.Run(def{}, nil)
					return done && s.Panicked() == nil
				}
				if !phase("setup", func() {
					node = world.NewRNode(1, world.MemDB(), []uint64{1, 2}) // node 2 never starts
					if err := node.ApplyCreate(meta); err != nil {
						panic(err)
					}
				}) || !phase("campaign", func() { node.Campaign(meta) }) {
					run.Violation("cluster-setup-failed", "no-quorum batch world", map[string]interface{}{"no_quorum_batch": true})
					return
				}
				ids := idsFor(3)
				ds := node.Dataset(meta)
				if op == "BatchRemove" {
					for _, id := range ids {
						o := int(utils.UuidMod(id, 3))
						if o != stuck {
							ds.VerifPartition(o).Index().Insert(id, []float32{9, 9}, nil, 0)
						}
					}
				}
				var items []*pb.BatchItem
				for _, id := range ids {
					items = append(items, &pb.BatchItem{Id: id.Bytes(), Value: []float32{1, 2}})
				}
				var errs map[uuid.UUID]error
				var err error
				done := false
				s.Spawn("n1/caller", true, func() {
					if op == "BatchInsert" {
						errs, err = ds.BatchInsert(context.Background(), items)
					} else {
						errs, err = ds.BatchRemove(context.Background(), items)
					}
					done = true
				})
				s.Run(def{}, nil)
				for round := 0; round < 6 && !done; round++ {
					// time passes for the caller: its proposal deadlines fire
					for _, t := range s.Timers() {
						if t.Kind == "deadline" && t.Armed() {
							s.Fire(t)
						}
					}
					s.Run(def{}, nil)
				}
				what := fmt.Sprintf("%s of ids of all 3 partitions through the node that hosts them all, partition %d's group has no leader", op, stuck)
				payload := map[string]interface{}{"no_quorum_batch": true, "op": op, "stuck": stuck}
				if t := s.Panicked(); t != nil {
					run.Violation("write-path-wedged-or-panicked", fmt.Sprintf("%s: panic in %s: %v", what, t.Name, t.Panic), payload)
					return
				}
				if !done {
					run.Violation("write-path-wedged-or-panicked", what+": the call did not return although every deadline fired: "+strings.Join(s.Blocked(), "; "), payload)
					return
				}
				if os.Getenv("VERIF_DEBUG") != "" {
					fmt.Fprintf(os.Stderr, "%s: done=%v err=%v item-errors=%d\n", what, done, err, len(errs))
				}
				if err != nil {
					return // the whole call failed loudly: nothing is claimed
				}
				for _, id := range ids {
					o := int(utils.UuidMod(id, 3))
					_, gerr := ds.VerifPartition(o).Index().Get(id)
					stored := gerr == nil
					switch {
					case o == stuck && errs[id] == nil:
						run.Violation("batch-item-acknowledged-by-a-group-without-leader:"+op, fmt.Sprintf("%s: id %x of the stuck partition is reported without an error (errors: %d)", what, id[:3], len(errs)), payload)
						return
					case o != stuck && errs[id] == nil && op == "BatchInsert" && !stored:
						run.Violation("acknowledged-batch-item-stored-nowhere:"+op, fmt.Sprintf("%s: id %x (owner partition %d, healthy) is acknowledged but not stored at its owner", what, id[:3], o), payload)
						return
					case o != stuck && errs[id] == nil && op == "BatchRemove" && stored:
						run.Violation("acknowledged-batch-item-stored-nowhere:"+op, fmt.Sprintf("%s: id %x (owner partition %d, healthy) is acknowledged as removed but still stored", what, id[:3], o), payload)
						return
					}
				}
			}()
		}
	}
	return calls
}

// batchScenario: one batch spanning two remote partitions, explored over interleavings.
func batchScenario(kind string) *explore.Scenario {
	c := sysCase{3, [][]uint64{{2}, {3}}}
	return &explore.Scenario{
		Name:      "batch-" + kind + "-spanning-two-remote-partitions",
		Configure: func(s *vrt.Sched) { s.Horizon = 200000; s.DelayBounding = true },
		Build: func(x *explore.Exec) func(vrt.EndReason) *explore.Violation {
			fakes.Reset()
			meta := world.DatasetMeta(2, pb.Space_Euclidean, c.Placement, 1)
			nodes := make([]*world.RNode, 3)
			for i := 1; i <= 3; i++ {
				i := i
				x.S.Spawn(fmt.Sprintf("n%d/setup", i), false, func() {
					nodes[i-1] = world.NewRNode(uint64(i), world.MemDB(), []uint64{1, 2, 3})
					if err := nodes[i-1].ApplyCreate(meta); err != nil {
						panic(err)
					}
				})
				x.Quiesce()
			}
			x.OnCleanup(func() {
				for _, n := range nodes {
					n.Close()
				}
			})
			for i := 1; i <= 3; i++ {
				i := i
				x.S.Spawn(fmt.Sprintf("n%d/campaign", i), false, func() { nodes[i-1].Campaign(meta) })
				x.Quiesce()
			}
			ids := idsFor(2)
			var items []*pb.BatchItem
			for _, id := range ids {
				items = append(items, &pb.BatchItem{Id: id.Bytes(), Value: []float32{1, 2}})
			}
			if kind != "insert" {
				// preload through the owners so that update / remove have something to act on
				for _, id := range ids {
					o := int(utils.UuidMod(id, 2))
					nodes[c.Placement[o][0]-1].Dataset(meta).VerifPartition(o).Index().Insert(id, []float32{9, 9}, nil, 0)
				}
			}
			var errs map[uuid.UUID]error
			var err error
			done := false
			x.S.Spawn("n1/caller", true, func() {
				ds := nodes[0].Dataset(meta)
				switch kind {
				case "insert":
					errs, err = ds.BatchInsert(context.Background(), items)
				case "update":
					errs, err = ds.BatchUpdate(context.Background(), items)
				case "remove":
					errs, err = ds.BatchRemove(context.Background(), items)
				}
				done = true
			})
			return func(end vrt.EndReason) *explore.Violation {
				if !done {
					x.Outcome = "blocked"
					return &explore.Violation{Key: "batch-never-returns", Desc: strings.Join(x.S.Blocked(), "; ")}
				}
				x.Outcome = fmt.Sprintf("err=%v errs=%d", err != nil, len(errs))
				if err != nil || len(errs) != 0 {
					return &explore.Violation{Key: "batch-fails-on-healthy-cluster", Desc: fmt.Sprintf("%v %v", err, errs)}
				}
				for _, id := range ids {
					o := int(utils.UuidMod(id, 2))
					var have []string
					for _, n := range nodes {
						ds := n.Dataset(meta)
						for p := 0; p < 2; p++ {
							if v, e := ds.VerifPartition(p).Index().Get(id); e == nil && (kind != "update" || v[0] == 1) {
								have = append(have, fmt.Sprintf("n%d/p%d", n.ID, p))
							}
						}
					}
					want := fmt.Sprintf("[n%d/p%d]", c.Placement[o][0], o)
					if kind == "remove" {
						want = "[]"
					}
					if fmt.Sprint(have) != want {
						return &explore.Violation{Key: "batch-item-lands-outside-owner", Desc: fmt.Sprintf("batch %s: id %x (owner partition %d) ends up held/updated at %v, expected %s", kind, id[:3], o, have, want)}
					}
				}
				return nil
			}
		},
	}
}

func main() {
	world.Quiet()
	if len(os.Args) > 2 && os.Args[1] == "--replay" {
		// sequential cases are deterministic: the replay file names the failing case; schedules replay below
		var f struct {
			Replay struct {
				Case *sysCase `json:"case"`
			} `json:"replay"`
		}
		if b, err := os.ReadFile(os.Args[2]); err == nil && strings.Contains(string(b), "no_quorum_batch") {
			run := ev.Start("C10", "model_checking")
			noQuorumBatch(run)
			if run.NewViolations() > 0 {
				fmt.Printf("VIOLATION property=%s replay=%s\n  no-quorum batch\n", ev.As("C10"), os.Args[2])
				os.Exit(1)
			}
			fmt.Println("replay: property held")
			return
		}
		if b, err := os.ReadFile(os.Args[2]); err == nil && json.Unmarshal(b, &f) == nil && f.Replay.Case != nil {
			run := ev.Start("C10", "model_checking")
			systemCase(run, *f.Replay.Case)
			if run.NewViolations() > 0 {
				fmt.Printf("VIOLATION property=%s replay=%s\n  system case %+v\n", ev.As("C10"), os.Args[2], *f.Replay.Case)
				os.Exit(1)
			}
			fmt.Println("replay: property held")
			return
		}
	}
	before := func(run *ev.Run) ev.Coverage {
		evals, distinct := functionLevel(run)
		cases := []sysCase{
			{1, [][]uint64{{1}}},
			{2, [][]uint64{{1}, {2}}},
			{3, [][]uint64{{2}, {3}}},
			{3, [][]uint64{{1}, {2}, {3}}},
			{3, [][]uint64{{3}, {3}, {1}, {2}}},
			{2, [][]uint64{{1, 2}, {2, 1}}},
		}
		if run.Thorough() {
			cases = append(cases, sysCase{3, [][]uint64{{1, 2}, {2, 3}, {3, 1}}}, sysCase{3, [][]uint64{{2}, {2}, {2}, {2}}}, sysCase{3, [][]uint64{{1, 2, 3}, {3, 2, 1}}})
		}
		calls := 0
		for _, c := range cases {
			calls += systemCase(run, c)
		}
		calls += noQuorumBatch(run)
		return ev.Coverage{
			"evaluations":                   evals + calls,
			"distinct_nontrivial":           distinct + calls,
			"traces_validated_against_impl": evals + calls,
			"rule":                          "function level: full product moduli x boundary ids vs math/big; system level: for each cluster case, for ids covering every partition twice: insert / duplicate insert through every node / update / remove / remove again, single and batch forms, rotating entry nodes; then catalogue snapshot+restore and rebuilt Dataset objects; batch fan-out spanning two remote partitions explored over interleavings",
			"function_evaluations":          evals,
			"system_calls":                  calls,
			"system_cases":                  cases,
			"samples":                       []interface{}{"UuidMod(lo=2^64-1, hi=2^64-1; n=1000)", cases[3]},
		}
	}
	scs := []*explore.Scenario{batchScenario("insert"), batchScenario("update"), batchScenario("remove")}
	explore.Main("C10", scs, explore.Plan{QuickBound: 1, ThoroughBound: 2, QuickBudget: 100 * time.Second, ThoroughBudget: 15 * time.Minute, Shards: 4, Before: before},
		"model_checking", []string{
			"function level: n in 1..1024 plus 5 large moduli up to 2^63 x 23x23 boundary halves (0,1,n-1,n,n+1,2^32+-1,2^63+-1,2^64-1,2^64-n, mixed patterns)",
			"system level: sequential (default schedule, run to quiescence after every call) except the batch fan-out scenarios, which are explored over interleavings up to the deviation bound",
			"remote calls are synchronous in-memory invocations of the target node's real handlers; raft groups are real (single- and two-replica)",
		})
}
