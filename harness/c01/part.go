package main

// Partition-level phase of C01: the same clauses on the path a served search takes - the replicated
// partition state machine (insert / update with metadata merge / remove, single and batch entries) and the
// snapshot a lagging or re-used replica restores - with the full search oracle after every step.

import (
	"fmt"
	"time"

	"anndbverif/idxlib"
	"anndbverif/lib/ev"
	"anndbverif/partlib"
	"anndbverif/seq"
)

type pOp struct {
	partlib.Op
	Restore string `json:"restore,omitempty"` // "fresh" / "used": snapshot this replica, restore it there, continue on that one
}

func (o pOp) String() string {
	if o.Restore != "" {
		return "snapshot->restore-into-" + o.Restore
	}
	return o.Op.String()
}

type pWorld struct {
	r   *partlib.Replica
	ref idxlib.Ref
	n   int
}

func pBuild(path []pOp) (*pWorld, string, string) {
	w := &pWorld{r: partlib.NewReplica(), ref: idxlib.Ref{}}
	for _, o := range path {
		if o.Restore != "" {
			snap, err := w.r.P.Snapshot()
			if err != nil {
				return w, "partition:snapshot-error", fmt.Sprintf("%v: %v", o, err)
			}
			nr := partlib.NewReplica()
			if o.Restore == "used" {
				nr = partlib.UsedReplica()
			}
			if err := nr.P.Restore(snap); err != nil {
				return w, "partition:restore-error", fmt.Sprintf("%v: restoring the %d-byte snapshot: %v", o, len(snap), err)
			}
			w.r = nr
		} else {
			partlib.RefApply(w.ref, o.Op)
			_, aerr, pan := w.r.Apply(w.n, partlib.Entry(o.Op, partlib.NotifID(w.n)), partlib.IsBatch(o.Op))
			w.n++
			if pan != nil {
				return w, "partition:apply-panic", fmt.Sprintf("applying %v panicked: %v", o, pan)
			}
			if aerr != nil {
				return w, "partition:apply-returns-error", fmt.Sprintf("applying %v returned %v", o, aerr)
			}
		}
		// only what C01 states: the searches (outcomes and counters of the entries are C02's and C04's)
		if k, d := idxlib.CheckSearch(w.r.P.Index(), w.ref, idxlib.Space("euclidean"), idxlib.Queries, []uint{0, 1, 2, 5}); k != "" {
			return w, "partition:" + k, fmt.Sprintf("after %v: %s", o, d)
		}
	}
	return w, "", ""
}

func partitionPhase(run *ev.Run, deadline time.Time) map[string]interface{} {
	depth := 3
	if run.Thorough() {
		depth = 4
	}
	var alphabet []pOp
	for _, o := range partlib.Alphabet(run.Thorough()) {
		alphabet = append(alphabet, pOp{Op: o})
	}
	alphabet = append(alphabet, pOp{Restore: "fresh"}, pOp{Restore: "used"})
	samples := &ev.Samples{N: 3}
	st := seq.BFS(seq.Config[*pWorld, pOp]{
		Depth: depth, Workers: 16, Deadline: deadline, HangCPU: 20 * time.Second,
		Build:   func(wi int, path []pOp) (*pWorld, string, string) { return pBuild(path) },
		Enabled: func(w *pWorld) []pOp { return alphabet },
		Canon:   func(w *pWorld) string { return idxlib.DumpKey(w.r.P.Index().VerifDump()) },
		OnViolation: func(key, desc string, path []pOp) {
			run.Violation(key, desc, map[string]interface{}{"partition_ops": path})
		},
		OnNew: func(path []pOp) {
			if len(path) == depth {
				samples.Add(fmt.Sprint(path))
			}
		},
	})
	return map[string]interface{}{
		"rule":            fmt.Sprintf("BFS over replicated partition entries (%d operations enabled in every state: the C02 alphabet + snapshot->restore into a fresh / a used replica) on the real partition state machine; after every step 3 queries x k in {0,1,2,5} against a Go map", len(alphabet)),
		"states":          st.States,
		"transitions":     st.Transitions,
		"depth":           depth,
		"depth_completed": st.DepthCompleted,
		"complete":        st.Complete,
		"outcome_classes": st.Outcomes,
		"samples":         samples.List(),
	}
}
