#!/bin/bash
set -u
cd "$(dirname "$0")/../.."
w="${VERIF_WORK:-$PWD/.work/c01.$$}"; mkdir -p "$w"
if ! lib/instr_build.sh harness/c01 "$w/bin" 2> "$w/build.log"; then
  cat "$w/build.log" >&2; echo "TOOL-ERROR: instrumented build failed" >&2; exit 2
fi
# borrowed phase: the dataset-level search scenarios of C09 (the clauses C01 states for a search "on a whole dataset")
if ! INSTR_REUSE=1 lib/instr_build.sh harness/c09 "$w/bin-c09" 2> "$w/build2.log"; then
  cat "$w/build2.log" >&2; echo "TOOL-ERROR: instrumented build failed" >&2; exit 2
fi
[ "${1:-}" = "--warm" ] && exit 0
{ flock -u 9 && exec 9>&-; } 2>/dev/null  # the build is done: release the shared lock on /repo's working tree (.work/repo.lock)
VERIF_BIN_C09="$w/bin-c09" exec "$w/bin" "$@"
