package main

import (
	"context"
	"fmt"
	"math"

	"anndbverif/idxlib"
	"anndbverif/lib/ev"

	"github.com/marekgalovic/anndb/index"
)

// widePhase is the directed part for "a score equal to the distance between the query and its current vector" beyond
// the two-dimensional BFS alphabet: the distance kernels pick different code paths by vector length (vector units of
// 4/8 lanes, unrolled strides of 32, a scalar tail), so for EVERY dimension up to maxDim, every metric and EVERY
// component position j an index holds the all-ones vector (a) and the all-ones vector with 3 added at position j (b);
// Search(ones, 2) must return a with score 0 and b with the distance contributed by that one component. For the
// Euclidean and Manhattan metrics the expected score (3) is exact in float32 whatever the order of summation; for the
// cosine metric the reference is computed here in float64 (tolerance 1e-5).
func widePhase(run *ev.Run, maxDim int) map[string]interface{} {
	evals := 0
	for _, sp := range []string{"euclidean", "manhattan", "cosine"} {
		reported := false
		for dim := 1; dim <= maxDim && !reported; dim++ {
			ones := make([]float32, dim)
			for i := range ones {
				ones[i] = 1
			}
			for j := 0; j < dim && !reported; j++ {
				evals++
				if k, d := wideCase(sp, dim, j, ones); k != "" {
					run.Violation(k+":wide-vectors:"+sp, d, map[string]interface{}{"wide": map[string]interface{}{"space": sp, "dim": dim, "pos": j}})
					reported = true
				}
			}
		}
	}
	return map[string]interface{}{
		"rule":        fmt.Sprintf("every dimension 1..%d x every component position x 3 metrics: two stored vectors differing in that one component, scores of Search(ones,2) against an independently computed distance", maxDim),
		"evaluations": evals,
	}
}

func wideCase(sp string, dim, j int, ones []float32) (key, desc string) {
	defer func() {
		if r := recover(); r != nil {
			key, desc = "panic", fmt.Sprintf("%s dim=%d pos=%d: %v", sp, dim, j, r)
		}
	}()
	b := append([]float32{}, ones...)
	b[j] += 3
	ix := index.NewHnsw(uint(dim), idxlib.Space(sp))
	if err := ix.Insert(idxlib.IDs[0], append([]float32{}, ones...), nil, 0); err != nil {
		return "insert-error", fmt.Sprint(err)
	}
	if err := ix.Insert(idxlib.IDs[1], b, nil, 0); err != nil {
		return "insert-error", fmt.Sprint(err)
	}
	res, err := ix.Search(context.Background(), append([]float32{}, ones...), 2)
	if err != nil {
		return "search-error", fmt.Sprint(err)
	}
	want := 3.0
	tol := 0.0
	if sp == "cosine" {
		d := float64(dim)
		want = 1 - (d+3)/(math.Sqrt(d)*math.Sqrt(d-1+16))
		tol = 1e-5
	}
	if len(res) != 2 {
		return "missing-items", fmt.Sprintf("%s dim=%d pos=%d: Search(ones,2) returned %d of 2 stored items", sp, dim, j, len(res))
	}
	for _, it := range res {
		w := want
		if it.Id == idxlib.IDs[0] {
			w = 0
		}
		if math.Abs(float64(it.Score)-w) > tol || math.IsNaN(float64(it.Score)) {
			return "stale-score", fmt.Sprintf("%s dim=%d: the item differing from the query by 3 in component %d only: %s has score %v, the distance is %v", sp, dim, j, idxlib.Name(it.Id), it.Score, w)
		}
	}
	if res[0].Id != idxlib.IDs[0] && !(sp == "cosine" && dim == 1) {
		return "unsorted", fmt.Sprintf("%s dim=%d pos=%d: the query's own vector is not first: %v then %v", sp, dim, j, res[0].Score, res[1].Score)
	}
	return "", ""
}
