// C01 — search returns only live items with true scores, sorted, unique, at most k, non-empty.
//
// E3: explicit-state BFS over insert / remove / update / save-and-load histories on the REAL
// index.Hnsw (instrumented build: map iteration order is a fixed, enumerable policy, so every
// history is replayable), small M so that pruning and asymmetric links happen; after every
// step: Search for 3 queries x k in {0,1,2,5} checked against a Go map.
package main

import (
	"bytes"
	"encoding/json"
	"fmt"
	"os"
	"time"

	"anndbverif/idxlib"
	"anndbverif/lib/ev"
	"anndbverif/seq"
	"anndbverif/vrt"
	"anndbverif/world"

	"github.com/marekgalovic/anndb/index"
	uuid "github.com/satori/go.uuid"
)

type op struct {
	Kind  string `json:"op"` // ins rem upd saveload
	ID    int    `json:"id"`
	Vec   int    `json:"vec,omitempty"`
	Level int    `json:"level,omitempty"`
	Meta  int    `json:"meta,omitempty"` // 0 nil, 1 {k:v1}, 2 {k:v2}
	Used  bool   `json:"used,omitempty"` // saveload: load into an index that already holds other items
}

func (o op) String() string {
	n := string(rune('a' + o.ID))
	switch o.Kind {
	case "ins":
		return fmt.Sprintf("I %s%v@%d m%d", n, idxlib.Grid[o.Vec], o.Level, o.Meta)
	case "rem":
		return "R " + n
	case "upd":
		return fmt.Sprintf("U %s%v m%d", n, idxlib.Grid[o.Vec], o.Meta)
	}
	if o.Used {
		return "saveload-into-used"
	}
	return "saveload"
}

type config struct {
	Space      string `json:"space"`
	M, Ef, EfC int
	Heuristic  bool
	Extend     bool
	KeepPruned bool
	Policy     int `json:"map_policy"`
}

func (c config) options() []index.HnswOption {
	o := []index.HnswOption{index.HnswM(c.M), index.HnswEf(c.Ef), index.HnswEfConstruction(c.EfC)}
	if c.Heuristic {
		o = append(o, index.HnswSearchAlgorithm(index.HnswSearchHeuristic), index.HnswHeuristicExtendCandidates(c.Extend), index.HnswHeuristicKeepPruned(c.KeepPruned))
	}
	return o
}

type wld struct {
	cfg config
	ix  *index.Hnsw
	ref idxlib.Ref
}

func meta(i int) index.Metadata {
	switch i {
	case 1:
		return index.Metadata{"k": "v1"}
	case 2:
		return index.Metadata{"k": "v2", "j": "w"}
	}
	return nil
}

// vectors each id may take: collisions between ids on purpose (ties)
var vecsOf = [][]int{{0, 4}, {1, 4}, {2, 3}, {3, 5}}

func (w *wld) apply(o op) (key, desc string) {
	defer func() {
		if r := recover(); r != nil {
			key, desc = "panic", fmt.Sprintf("%v panicked: %v", o, r)
		}
	}()
	id := idxlib.IDs[o.ID]
	switch o.Kind {
	case "ins":
		m := meta(o.Meta)
		err := w.ix.Insert(id, append([]float32{}, idxlib.Grid[o.Vec]...), m, o.Level)
		if _, exists := w.ref[id]; exists {
			if err != index.ItemAlreadyExistsError {
				return "insert-existing-not-rejected", fmt.Sprintf("%v on a stored id returned %v", o, err)
			}
		} else {
			if err != nil {
				return "insert-error", fmt.Sprintf("%v returned %v", o, err)
			}
			w.ref[id] = &idxlib.Item{Vec: idxlib.Grid[o.Vec], Meta: m, Level: o.Level}
		}
	case "rem":
		err := w.ix.Remove(id)
		if _, exists := w.ref[id]; exists {
			if err != nil {
				return "remove-error", fmt.Sprintf("%v returned %v", o, err)
			}
			delete(w.ref, id)
		} else if err != index.ItemNotFoundError {
			return "remove-absent-not-rejected", fmt.Sprintf("%v on an absent id returned %v", o, err)
		}
	case "upd":
		// exactly what partition.updateValue does, through the public API
		vertex, err := w.ix.GetVertex(id)
		if err != nil {
			if _, exists := w.ref[id]; exists {
				return "update-lookup-error", fmt.Sprintf("%v: %v", o, err)
			}
			return "", ""
		}
		if err := w.ix.Remove(id); err != nil {
			return "update-remove-error", fmt.Sprintf("%v: %v", o, err)
		}
		m := meta(o.Meta)
		if m == nil {
			m = index.Metadata{}
		}
		for k, v := range vertex.Metadata() {
			if _, exists := m[k]; !exists {
				m[k] = v
			}
		}
		if err := w.ix.Insert(id, append([]float32{}, idxlib.Grid[o.Vec]...), m, vertex.Level()); err != nil {
			return "update-insert-error", fmt.Sprintf("%v: %v", o, err)
		}
		w.ref[id] = &idxlib.Item{Vec: idxlib.Grid[o.Vec], Meta: m, Level: w.ref[id].Level}
	case "saveload":
		var buf bytes.Buffer
		if err := w.ix.Save(&buf, false); err != nil {
			return "save-error", fmt.Sprintf("Save: %v", err)
		}
		nx := index.NewHnsw(2, idxlib.Space(w.cfg.Space), w.cfg.options()...)
		if o.Used {
			// a lagging replica: holds different items (other vectors, one extra id, one stale id)
			nx.Insert(idxlib.IDs[0], []float32{4, 1}, index.Metadata{"k": "old"}, 1)
			nx.Insert(idxlib.IDs[1], []float32{3, 3}, nil, 0)
			nx.Insert(idxlib.IDs[4], []float32{2, 2}, nil, 0)
			nx.Remove(idxlib.IDs[1])
		}
		if err := nx.Load(bytes.NewReader(buf.Bytes()), false); err != nil {
			if len(w.ref) == 0 {
				return "load-empty-snapshot-fails", fmt.Sprintf("Load of the %d bytes Save wrote for an empty index: %v", buf.Len(), err)
			}
			return "load-error", fmt.Sprintf("Load of own Save output: %v", err)
		}
		w.ix = nx
	}
	return w.check(o)
}

var ks = []uint{0, 1, 2, 5}

func (w *wld) check(after op) (string, string) {
	if k, d := idxlib.CheckContents(w.ix, w.ref, idxlib.IDs[:5]); k != "" {
		return "contents-" + k, fmt.Sprintf("after %v: %s", after, d)
	}
	if k, d := idxlib.CheckSearch(w.ix, w.ref, idxlib.Space(w.cfg.Space), idxlib.Queries, ks); k != "" {
		return k + ":" + idxlib.Cause(w.ix.VerifDump()), fmt.Sprintf("after %v: %s", after, d)
	}
	return "", ""
}

func build(cfg config, path []op) (*wld, string, string) {
	w := &wld{cfg: cfg, ix: index.NewHnsw(2, idxlib.Space(cfg.Space), cfg.options()...), ref: idxlib.Ref{}}
	for _, o := range path {
		if k, d := w.apply(o); k != "" {
			return w, k, d
		}
	}
	return w, "", ""
}

func enabled(w *wld) []op {
	var out []op
	for id := 0; id < 4; id++ {
		if _, live := w.ref[idxlib.IDs[id]]; live {
			out = append(out, op{Kind: "rem", ID: id})
			for _, v := range vecsOf[id] {
				out = append(out, op{Kind: "upd", ID: id, Vec: v})
			}
			if id == 0 {
				out = append(out, op{Kind: "upd", ID: id, Vec: vecsOf[id][0], Meta: 2})
			}
		} else {
			for _, v := range vecsOf[id] {
				for lvl := 0; lvl <= 1; lvl++ {
					out = append(out, op{Kind: "ins", ID: id, Vec: v, Level: lvl})
				}
			}
			if id == 0 {
				out = append(out, op{Kind: "ins", ID: id, Vec: vecsOf[id][0], Level: 2, Meta: 1})
			}
		}
	}
	// error paths (no state change): one representative each
	out = append(out, op{Kind: "saveload"})
	out = append(out, op{Kind: "saveload", Used: true})
	return out
}

func main() {
	world.Quiet()
	if len(os.Args) > 2 && os.Args[1] == "--replay" {
		replay(os.Args[2])
		return
	}
	run := ev.Start("C01", "model_checking")
	depth := 5
	budget := 150 * time.Second
	cfgs := []config{
		{Space: "euclidean", M: 1, Ef: 1, EfC: 1},
		{Space: "euclidean", M: 2, Ef: 2, EfC: 4},
		{Space: "manhattan", M: 1, Ef: 2, EfC: 2, Heuristic: true, KeepPruned: true},
		{Space: "cosine", M: 1, Ef: 2, EfC: 2, Heuristic: true, Extend: true},
	}
	if run.Thorough() {
		depth = 6
		budget = 25 * time.Minute
		cfgs = nil
		for _, sp := range []string{"euclidean", "manhattan", "cosine"} {
			for _, m := range [][3]int{{1, 1, 1}, {1, 2, 2}, {2, 2, 4}} {
				cfgs = append(cfgs, config{Space: sp, M: m[0], Ef: m[1], EfC: m[2]})
				cfgs = append(cfgs, config{Space: sp, M: m[0], Ef: m[1], EfC: m[2], Heuristic: true, KeepPruned: true})
				cfgs = append(cfgs, config{Space: sp, M: m[0], Ef: m[1], EfC: m[2], Heuristic: true, Extend: true})
			}
		}
	}
	policies := []int{0, 1}
	if run.Thorough() {
		policies = []int{0, 1, 2}
	}
	deadline := time.Now().Add(budget)
	states, transitions := 0, 0
	outcomes := map[string]int{}
	samples := &ev.Samples{N: 5}
	per := []map[string]interface{}{}
	complete := true
	minDepth := depth
	for _, cfg := range cfgs {
		for _, pol := range policies {
			cfg.Policy = pol
			vrt.InactiveMapPolicy = pol
			c := cfg
			st := seq.BFS(seq.Config[*wld, op]{
				Depth: depth, Workers: 16, Deadline: deadline,
				Build:   func(wi int, path []op) (*wld, string, string) { return build(c, path) },
				Enabled: enabled,
				Canon:   func(w *wld) string { return idxlib.DumpKey(w.ix.VerifDump()) },
				OnViolation: func(key, desc string, path []op) {
					run.Violation(key, desc, map[string]interface{}{"config": c, "ops": path})
				},
				OnNew: func(path []op) {
					if len(path) == depth {
						samples.Add(fmt.Sprintf("%+v %v", c, path))
					}
				},
			})
			states += st.States
			transitions += st.Transitions
			for k, v := range st.Outcomes {
				outcomes[k] += v
			}
			complete = complete && st.Complete
			if st.DepthCompleted < minDepth {
				minDepth = st.DepthCompleted
			}
			per = append(per, map[string]interface{}{"config": c, "states": st.States, "transitions": st.Transitions, "depth_completed": st.DepthCompleted, "complete": st.Complete})
		}
	}
	run.Assumptions = []string{
		"ids {a,b,c,d}, vectors from a 6-point grid in R^2 (ties included), levels {0,1,2}, metadata {nil,{k:v1},{k:v2,j:w}}; queries: one stored point and two off-grid points; k in {0,1,2,5}",
		"update = partition.updateValue's lookup/remove/merge/insert through the public API (the partition's own code path is exercised by C02/C04)",
		"map iteration inside the index follows a fixed order policy (ascending / descending / rotated ids) so histories are replayable; other orders are not explored",
	}
	run.Finish(ev.Coverage{
		"states":                        states,
		"transitions":                   transitions,
		"traces_validated_against_impl": transitions,
		"evaluations":                   transitions,
		"distinct_nontrivial":           states,
		"rule":                          "BFS over insert/remove/update/saveload histories on the real index per (metric, M, ef, efConstruction, selection mode, map-order policy); after every step Get/Len for the universe and 12 searches vs a Go map; distinct = canonical dump (vertices, levels, tombstones, link sets with distances, entry point incl. a dead entry point's own links)",
		"depth":                         depth,
		"min_depth_completed":           minDepth,
		"per_config":                    per,
		"outcome_classes":               outcomes,
		"samples":                       samples.List(),
		"exhaustive":                    complete,
	})
}

func replay(path string) {
	var f struct {
		Replay struct {
			Config config `json:"config"`
			Ops    []op   `json:"ops"`
		} `json:"replay"`
	}
	b, err := os.ReadFile(path)
	if err != nil {
		ev.Tool("%v", err)
	}
	if err := json.Unmarshal(b, &f); err != nil {
		ev.Tool("%v", err)
	}
	vrt.InactiveMapPolicy = f.Replay.Config.Policy
	w, k, d := build(f.Replay.Config, f.Replay.Ops)
	fmt.Println(idxlib.DumpKey(w.ix.VerifDump()))
	if k != "" {
		fmt.Printf("VIOLATION property=C01 replay=%s\n  %s: %s\n", path, k, d)
		os.Exit(1)
	}
	fmt.Println("replay: property held")
}

var _ = uuid.Nil
