// C01 — search returns only live items with true scores, sorted, unique, at most k, non-empty.
//
// E3: explicit-state BFS over insert / remove / update / save-and-load histories on the REAL
// index.Hnsw (instrumented build: map iteration order is a fixed, enumerable policy, so every
// history is replayable), small M so that pruning and asymmetric links happen; after every
// step: Search for 3 queries x k in {0,1,2,5} checked against a Go map.
package main

import (
	"encoding/json"
	"fmt"
	"os"
	"time"

	"anndbverif/idxbfs"
	"anndbverif/idxlib"
	"anndbverif/lib/ev"
	"anndbverif/seq"
	"anndbverif/vrt"
	"anndbverif/world"
)

type op = idxbfs.Op
type config = idxbfs.Config
type wld = idxbfs.World

var build = idxbfs.Build
var enabled = idxbfs.Enabled

func main() {
	world.Quiet()
	if len(os.Args) > 2 && os.Args[1] == "--replay" {
		replay(os.Args[2])
		return
	}
	run := ev.Start("C01", "model_checking")
	depth := 5
	budget := 150 * time.Second
	cfgs := []config{
		{Space: "euclidean", M: 1, Ef: 1, EfC: 1},
		{Space: "euclidean", M: 2, Ef: 2, EfC: 4},
		{Space: "manhattan", M: 1, Ef: 2, EfC: 2, Heuristic: true, KeepPruned: true},
		{Space: "cosine", M: 1, Ef: 2, EfC: 2, Heuristic: true, Extend: true},
	}
	if run.Thorough() {
		depth = 6
		budget = 25 * time.Minute
		cfgs = nil
		for _, sp := range []string{"euclidean", "manhattan", "cosine"} {
			for _, m := range [][3]int{{1, 1, 1}, {1, 2, 2}, {2, 2, 4}} {
				cfgs = append(cfgs, config{Space: sp, M: m[0], Ef: m[1], EfC: m[2]})
				cfgs = append(cfgs, config{Space: sp, M: m[0], Ef: m[1], EfC: m[2], Heuristic: true, KeepPruned: true})
				cfgs = append(cfgs, config{Space: sp, M: m[0], Ef: m[1], EfC: m[2], Heuristic: true, Extend: true})
			}
		}
	}
	policies := []int{0, 1}
	if run.Thorough() {
		policies = []int{0, 1, 2}
	}
	deadline := time.Now().Add(budget)
	states, transitions := 0, 0
	outcomes := map[string]int{}
	samples := &ev.Samples{N: 5}
	per := []map[string]interface{}{}
	complete := true
	minDepth := depth
	hung := false
	for _, cfg := range cfgs {
		for _, pol := range policies {
			if hung {
				break
			}
			cfg.Policy = pol
			vrt.InactiveMapPolicy = pol
			c := cfg
			st := seq.BFS(seq.Config[*wld, op]{
				Depth: depth, Workers: 16, Deadline: deadline, HangCPU: 20 * time.Second,
				Build:   func(wi int, path []op) (*wld, string, string) { return build(c, path) },
				Enabled: enabled,
				Canon:   func(w *wld) string { return idxlib.DumpKey(w.Ix.VerifDump()) },
				OnViolation: func(key, desc string, path []op) {
					run.Violation(key, desc, map[string]interface{}{"config": c, "ops": path})
				},
				OnNew: func(path []op) {
					if len(path) == depth {
						samples.Add(fmt.Sprintf("%+v %v", c, path))
					}
				},
			})
			states += st.States
			transitions += st.Transitions
			for k, v := range st.Outcomes {
				outcomes[k] += v
			}
			complete = complete && st.Complete
			if st.DepthCompleted < minDepth {
				minDepth = st.DepthCompleted
			}
			per = append(per, map[string]interface{}{"config": c, "states": st.States, "transitions": st.Transitions, "depth_completed": st.DepthCompleted, "complete": st.Complete})
			hung = hung || st.Hung
		}
		if hung {
			break // reported; every further configuration would wait for the same call again
		}
	}
	// the same clauses one level up: the partition state machine (with the snapshot a replica restores) ...
	partCov := partitionPhase(run, time.Now().Add(budget))
	complete = complete && partCov["complete"].(bool)
	states += partCov["states"].(int)
	transitions += partCov["transitions"].(int)
	maxDim := 130
	if run.Thorough() {
		maxDim = 520
	}
	wideCov := widePhase(run, maxDim)
	transitions += wideCov["evaluations"].(int)
	// ... and a search "on a whole dataset": C09's fan-out/fan-in scenarios on healthy clusters at bounds 0..1,
	// counted here only for the per-item clauses C01 states (stored, true score and metadata, ascending, unique, <= k, non-empty)
	run.RunPart("dataset-search-C09", os.Getenv("VERIF_BIN_C09"), c09Keys, c09Env...)
	run.Assumptions = []string{
		"ids {a,b,c,d}, vectors from a 6-point grid in R^2 (ties included), levels {0,1,2}, metadata {nil,{k:v1},{k:v2,j:w}}; queries: one stored point and two off-grid points; k in {0,1,2,5}",
		"update = partition.updateValue's lookup/remove/merge/insert through the public API (the partition's own code path is exercised by C02/C04)",
		"scores on wide vectors (directed): every dimension up to " + fmt.Sprint(maxDim) + ", every component position, all metrics - see wide_vectors",
		"map iteration inside the index follows a fixed order policy (ascending / descending / rotated ids) so histories are replayable; other orders are not explored",
	}
	run.Finish(ev.Coverage{
		"states":                        states,
		"transitions":                   transitions,
		"traces_validated_against_impl": transitions,
		"evaluations":                   transitions,
		"distinct_nontrivial":           states,
		"rule":                          "BFS over insert/remove/update/saveload histories on the real index per (metric, M, ef, efConstruction, selection mode, map-order policy); after every step Get/Len for the universe and 12 searches vs a Go map; distinct = canonical dump (vertices, levels, tombstones, link sets with distances, entry point incl. a dead entry point's own links)",
		"depth":                         depth,
		"min_depth_completed":           minDepth,
		"per_config":                    per,
		"partition_level":               partCov,
		"wide_vectors":                  wideCov,
		"outcome_classes":               outcomes,
		"samples":                       samples.List(),
		"exhaustive":                    complete,
	})
}

const c09Keys = `:(more-than-k|empty|not-stored|duplicate-id|stale-score|wrong-metadata|unsorted)$`

var c09Env = []string{"VERIF_PART_MAXBOUND=1", "VERIF_PART_SCENARIOS=^(inner-P[123]|outer-P1-local|outer-P2-two-nodes|outer-P3-R2|outer-P2-k0|outer-P2-kall|full-P2-two-nodes|full-P3-all|full-P2-two-searches|full-P3-R2)"}

func replay(path string) {
	if ev.PartOf(path) == "C09" {
		ev.ReplayPart("C01", os.Getenv("VERIF_BIN_C09"), c09Keys, path, c09Env...)
	}
	var pf struct {
		Replay struct {
			Ops []pOp `json:"partition_ops"`
		} `json:"replay"`
	}
	if b, err := os.ReadFile(path); err == nil && json.Unmarshal(b, &pf) == nil && len(pf.Replay.Ops) > 0 {
		if _, k, d := pBuild(pf.Replay.Ops); k != "" {
			fmt.Printf("VIOLATION property=%s replay=%s\n  %s: %s\n", ev.As("C01"), path, k, d)
			os.Exit(1)
		}
		fmt.Println("replay: property held")
		return
	}
	var wf struct {
		Replay struct {
			Wide *struct {
				Space    string
				Dim, Pos int
			} `json:"wide"`
		} `json:"replay"`
	}
	if b, err := os.ReadFile(path); err == nil && json.Unmarshal(b, &wf) == nil && wf.Replay.Wide != nil {
		wd := wf.Replay.Wide
		ones := make([]float32, wd.Dim)
		for i := range ones {
			ones[i] = 1
		}
		if k, d := wideCase(wd.Space, wd.Dim, wd.Pos, ones); k != "" {
			fmt.Printf("VIOLATION property=%s replay=%s\n  %s: %s\n", ev.As("C01"), path, k, d)
			os.Exit(1)
		}
		fmt.Println("replay: property held")
		return
	}
	var f struct {
		Replay struct {
			Config config `json:"config"`
			Ops    []op   `json:"ops"`
		} `json:"replay"`
	}
	b, err := os.ReadFile(path)
	if err != nil {
		ev.Tool("%v", err)
	}
	if err := json.Unmarshal(b, &f); err != nil {
		ev.Tool("%v", err)
	}
	vrt.InactiveMapPolicy = f.Replay.Config.Policy
	w, k, d := build(f.Replay.Config, f.Replay.Ops)
	fmt.Println(idxlib.DumpKey(w.Ix.VerifDump()))
	if k != "" {
		fmt.Printf("VIOLATION property=%s replay=%s\n  %s: %s\n", ev.As("C01"), path, k, d)
		os.Exit(1)
	}
	fmt.Println("replay: property held")
}
