#!/bin/bash
set -u
cd "$(dirname "$0")/../.."
export GOFLAGS=-mod=mod GOPROXY=off GOSUMDB=off GOTOOLCHAIN=local
w="${VERIF_WORK:-$PWD/.work/c16.$$}"; mkdir -p "$w"
if ! lib/instr_build.sh harness/c16 "$w/bin" 2> "$w/build.log"; then
  cat "$w/build.log" >&2; echo "TOOL-ERROR: instrumented build failed" >&2; exit 2
fi
# separate free-running race pass: un-instrumented build with the race detector
# (checkptr off: the repository's SIMD wrappers pass lengths as unsafe.Pointer)
if ! go build -race -gcflags=all=-d=checkptr=0 -tags verif -o "$w/bin-race" ./harness/c16 2> "$w/build2.log"; then
  cat "$w/build2.log" >&2; echo "TOOL-ERROR: race build failed" >&2; exit 2
fi
# borrowed phase: C20's directed membership histories on real servers
if ! INSTR_REUSE=1 lib/instr_build.sh harness/c20 "$w/bin-c20" 2> "$w/build3.log"; then
  cat "$w/build3.log" >&2; echo "TOOL-ERROR: instrumented build failed" >&2; exit 2
fi
[ "${1:-}" = "--warm" ] && exit 0
{ flock -u 9 && exec 9>&-; } 2>/dev/null  # the build is done: release the shared lock on /repo's working tree (.work/repo.lock)
VERIF_C16_RACE="$w/bin-race" VERIF_BIN_C20="$w/bin-c20" exec "$w/bin" "$@"
