// C16 — every partition is placed on min(R, N) distinct member nodes, independently.
//
// E1 (choice enumeration): the real Allocator placement function on a real cluster.Conn with N
// members; math/rand inside allocator.go is the scheduler's choice seam, so EVERY outcome of
// every shuffle is enumerated (complete for N <= 4, R <= 4, P <= 3), and all N<=16, R<=8,
// P<=64 under fixed random streams for the cardinality clause.
package main

import (
	"context"
	"fmt"
	"os"
	"sort"
	"strings"
	"sync"
	"time"

	"anndbverif/explore"
	"anndbverif/lib/ev"
	"anndbverif/lib/racepass"
	"anndbverif/vrt"
	"anndbverif/vrt/fakes"
	"anndbverif/world"

	"github.com/marekgalovic/anndb/cluster"
	pb "github.com/marekgalovic/anndb/protobuf"
	"github.com/marekgalovic/anndb/storage"
	"github.com/marekgalovic/anndb/storage/raft"
	uuid "github.com/satori/go.uuid"
)

// scriptedGroup is the catalogue's raft group for createScenario: proposals go to one log that a single apply
// thread consumes in order.
type scriptedGroup struct {
	log       chan []byte
	processFn raft.ProcessFn
}

func (g *scriptedGroup) RegisterProcessFn(fn raft.ProcessFn) error         { g.processFn = fn; return nil }
func (g *scriptedGroup) RegisterProcessSnapshotFn(fn raft.ProcessFn) error { return nil }
func (g *scriptedGroup) RegisterSnapshotFn(fn raft.SnapshotFn) error       { return nil }
func (g *scriptedGroup) LeaderId() uint64                                  { return 1 }
func (g *scriptedGroup) Propose(ctx context.Context, data []byte) error {
	tok := vrt.BeforeSend(g.log)
	g.log <- data
	vrt.After(tok)
	return nil
}

// createScenario: the property's own observation point - the metadata returned by the real DatasetManager.Create
// over a scripted raft.Group - for requests a client may send: plain, or carrying a partition list already (a
// description obtained from Get/List/Create and sent again, or one naming nodes of another cluster).
func createScenario(n, r, p int, prefill string) *explore.Scenario {
	return &explore.Scenario{
		Name:             fmt.Sprintf("create-N%d-R%d-P%d-request-%s", n, r, p, prefill),
		MaxBound:         0,
		StopWhenMainDone: true,
		Configure:        func(s *vrt.Sched) { s.RandChoose = false; s.Horizon = 1000000; s.DelayBounding = true }, // one schedule: placement is sequential code
		Build: func(x *explore.Exec) func(vrt.EndReason) *explore.Violation {
			fakes.Reset()
			world.Quiet()
			db := world.MemDB()
			g := &scriptedGroup{log: make(chan []byte, 16)}
			var conn *cluster.Conn
			var dm *storage.DatasetManager
			x.OnCleanup(func() {
				if conn != nil {
					conn.Close()
				}
				db.Close()
			})
			x.S.Spawn("n1/setup", false, func() {
				conn = newConn(n)
				var err error
				dm, err = storage.NewDatasetManager(g, db, raft.NewTransport(1, world.Addr(1), conn), conn, storage.NewAllocator(conn))
				if err != nil {
					panic(err)
				}
			})
			x.Quiesce()
			x.S.Spawn("n1/apply", false, func() {
				for {
					if err := g.processFn(vrt.Recv(g.log)); err != nil {
						panic(fmt.Sprintf("apply returned %v", err))
					}
				}
			})
			req := &pb.Dataset{Dimension: 2, Space: pb.Space_Euclidean, PartitionCount: uint32(p), ReplicationFactor: uint32(r)}
			switch prefill {
			case "resent-description":
				// what an earlier Create on a one-node cluster returned
				for i := 0; i < p; i++ {
					req.Partitions = append(req.Partitions, &pb.Partition{Id: world.ID(uint64(0x50+i), 5).Bytes(), NodeIds: []uint64{1}})
				}
				req.Id = world.ID(0x99, 5).Bytes()
			case "foreign-nodes":
				req.Partitions = append(req.Partitions, &pb.Partition{Id: world.ID(0x60, 5).Bytes(), NodeIds: []uint64{99, 1, 1}})
			}
			var got *pb.Dataset
			var err error
			done := false
			x.S.Spawn("caller", true, func() {
				var ds *storage.Dataset
				ds, err = dm.Create(context.Background(), req)
				if err == nil {
					got = ds.Meta()
				}
				done = true
			})
			return func(end vrt.EndReason) *explore.Violation {
				if !done {
					return &explore.Violation{Key: "create-never-returns", Desc: strings.Join(x.S.Blocked(), "; ")}
				}
				if err != nil {
					return &explore.Violation{Key: "create-fails-on-healthy-node", Desc: fmt.Sprint(err)}
				}
				var pl [][]uint64
				ids := map[string]bool{}
				for _, part := range got.Partitions {
					pl = append(pl, part.NodeIds)
					ids[string(part.Id)] = true
				}
				x.Outcome = fmt.Sprint(pl)
				if d := clause1(pl, n, r, p); d != "" {
					return &explore.Violation{Key: "created-dataset-wrong-cardinality-or-membership", Desc: fmt.Sprintf("request %s: %s", prefill, d)}
				}
				if len(ids) != p {
					return &explore.Violation{Key: "created-dataset-partition-ids-not-distinct", Desc: fmt.Sprintf("%d distinct partition ids for %d partitions", len(ids), p)}
				}
				for i := 0; i < p; i++ {
					if ids[string(world.ID(uint64(0x50+i), 5).Bytes())] || ids[string(world.ID(0x60, 5).Bytes())] {
						return &explore.Violation{Key: "created-dataset-reuses-request-partitions", Desc: "a partition id supplied in the request was kept (it may belong to another dataset)"}
					}
				}
				return nil
			}
		},
	}
}

// replayScenario: "all of them current members" after a restart. A partition was placed on {1,2,3}; node 3 has
// left the cluster; node 1 restarts: its catalogue replay loads the partition's raft group again, which replays
// its own log (bootstrap entries naming 1, 2 and 3). The member list placement draws from must still be {1,2}.
func replayScenario() *explore.Scenario {
	return &explore.Scenario{
		Name:             "placement-after-restart-with-a-departed-replica",
		MaxBound:         0,
		StopWhenMainDone: false,
		Configure:        func(s *vrt.Sched) { s.RandChoose = false; s.Horizon = 2000000; s.DelayBounding = true },
		Build: func(x *explore.Exec) func(vrt.EndReason) *explore.Violation {
			fakes.Reset()
			world.Quiet()
			db := world.MemDB()
			meta := world.DatasetMeta(2, pb.Space_Euclidean, [][]uint64{{1, 2, 3}}, 3)
			entry := world.CreateEntry(meta, world.ID(0x701, 9))
			var a, b *world.RNode
			x.OnCleanup(func() {
				if b != nil {
					b.Close()
				}
				db.Close()
			})
			phase := func(name string, f func()) {
				x.S.Spawn("n1/"+name, false, f)
				x.Quiesce()
			}
			phase("boot", func() { a = world.NewRNode(1, db, []uint64{1, 2, 3}) })
			phase("apply", func() {
				if err := a.DM.VerifApply(entry); err != nil {
					panic(err)
				}
			})
			// the process stops; meanwhile node 3 leaves (the zero group's log says so when it is replayed)
			x.S.KillPrefix("n1/")
			a.Conn.Close()
			phase("reboot", func() { b = world.NewRNode(1, db, []uint64{1, 2}) })
			phase("replay", func() {
				if err := b.DM.VerifApply(entry); err != nil {
					panic(err)
				}
			})
			var members []uint64
			var pl [][]uint64
			phase("place", func() {
				members = b.Conn.NodeIds()
				pl = b.Allocator.VerifPlacement(4, 3)
			})
			return func(end vrt.EndReason) *explore.Violation {
				sort.Slice(members, func(i, j int) bool { return members[i] < members[j] })
				x.Outcome = fmt.Sprint(members, pl)
				if fmt.Sprint(members) != "[1 2]" {
					return &explore.Violation{Key: "departed-node-is-a-member-again-after-restart", Desc: fmt.Sprintf("members after the restart: %v, the cluster is {1,2}", members)}
				}
				if d := clause1(pl, 2, 3, 4); d != "" {
					return &explore.Violation{Key: "wrong-cardinality-or-membership", Desc: "after the restart: " + d}
				}
				return nil
			}
		},
	}
}

var _ = uuid.Nil

func newConn(n int) *cluster.Conn {
	conn, err := cluster.NewConn(1, world.Addr(1), "")
	if err != nil {
		panic(err)
	}
	for j := 1; j <= n; j++ {
		conn.AddNode(uint64(j), world.Addr(uint64(j)))
	}
	return conn
}

// clause1 checks one placement result.
func clause1(pl [][]uint64, n, r, p int) string {
	want := r
	if n < want {
		want = n
	}
	if len(pl) != p {
		return fmt.Sprintf("N=%d R=%d P=%d: %d partitions placed", n, r, p, len(pl))
	}
	for i, nodes := range pl {
		if len(nodes) != want {
			return fmt.Sprintf("N=%d R=%d P=%d: partition %d got %d nodes %v, want min(R,N)=%d", n, r, p, i, len(nodes), nodes, want)
		}
		seen := map[uint64]bool{}
		for _, id := range nodes {
			if id < 1 || id > uint64(n) {
				return fmt.Sprintf("N=%d R=%d P=%d: partition %d placed on %d which is not a member", n, r, p, i, id)
			}
			if seen[id] {
				return fmt.Sprintf("N=%d R=%d P=%d: partition %d placed twice on node %d (%v)", n, r, p, i, id, nodes)
			}
			seen[id] = true
		}
	}
	return ""
}

func enumScenario(n, r, p int) *explore.Scenario {
	return &explore.Scenario{
		Name:             fmt.Sprintf("all-shuffles-N%d-R%d-P%d", n, r, p),
		MaxBound:         0,
		StopWhenMainDone: true,
		Configure:        func(s *vrt.Sched) { s.RandChoose = true },
		Build: func(x *explore.Exec) func(vrt.EndReason) *explore.Violation {
			world.Quiet()
			var pl [][]uint64
			done := false
			x.S.Spawn("caller", true, func() {
				conn := newConn(n)
				a := storage.NewAllocator(conn)
				pl = a.VerifPlacement(uint(p), uint(r))
				// observe AFTER the call returned, as Create does when it builds the dataset
				cp := make([][]uint64, len(pl))
				for i := range pl {
					cp[i] = append([]uint64{}, pl[i]...)
				}
				pl = cp
				done = true
			})
			return func(end vrt.EndReason) *explore.Violation {
				if !done {
					return &explore.Violation{Key: "placement-never-returns", Desc: strings.Join(x.S.Blocked(), "; ")}
				}
				x.Outcome = fmt.Sprint(pl)
				if d := clause1(pl, n, r, p); d != "" {
					return &explore.Violation{Key: "wrong-cardinality-or-membership", Desc: d}
				}
				return nil
			}
		},
		PostCheck: func(outcomes map[string]int) *explore.Violation {
			// independence (possibilistic): reachable tuples == product of per-partition reachable sets
			if p < 2 {
				return nil
			}
			per := make([]map[string]bool, p)
			tuples := map[string]bool{}
			for o := range outcomes {
				parts := strings.Split(strings.Trim(o, "[]"), "] [")
				if len(parts) != p {
					continue
				}
				for i, s := range parts {
					if per[i] == nil {
						per[i] = map[string]bool{}
					}
					per[i][s] = true
				}
				tuples[strings.Join(parts, "|")] = true
			}
			prod := 1
			for i := range per {
				prod *= len(per[i])
			}
			if len(tuples) != prod {
				var ex []string
				for t := range tuples {
					ex = append(ex, t)
				}
				sort.Strings(ex)
				if len(ex) > 4 {
					ex = ex[:4]
				}
				return &explore.Violation{Key: "placements-not-independent", Desc: fmt.Sprintf("N=%d R=%d P=%d: each partition can individually land on %d placements, so %d combinations should be reachable; over ALL shuffle outcomes only %d are (e.g. %v)", n, r, p, len(per[0]), prod, len(tuples), ex)}
			}
			return nil
		},
	}
}

// historyScenario: membership changes before the placement. Members = {1..n} minus removed.
// dialed says whether this node had opened a client connection to the removed node.
func historyScenario(n int, removed uint64, dialed bool, readd bool) *explore.Scenario {
	return &explore.Scenario{
		Name:             fmt.Sprintf("history-N%d-remove%d-dialed%v-readd%v", n, removed, dialed, readd),
		MaxBound:         0,
		StopWhenMainDone: true,
		Configure:        func(s *vrt.Sched) { s.RandChoose = true },
		Build: func(x *explore.Exec) func(vrt.EndReason) *explore.Violation {
			world.Quiet()
			var pl [][]uint64
			done := false
			var conn *cluster.Conn
			x.OnCleanup(func() {
				if conn != nil {
					conn.Close()
				}
			})
			x.S.Spawn("caller", true, func() {
				conn = newConn(n)
				if dialed {
					conn.Dial(removed)
				}
				conn.RemoveNode(removed)
				if readd {
					conn.AddNode(removed, world.Addr(removed))
				}
				a := storage.NewAllocator(conn)
				pl = a.VerifPlacement(2, 2)
				done = true
			})
			return func(end vrt.EndReason) *explore.Violation {
				if !done {
					return &explore.Violation{Key: "placement-never-returns", Desc: strings.Join(x.S.Blocked(), "; ")}
				}
				x.Outcome = fmt.Sprint(pl)
				members := n - 1
				if readd {
					members = n
				}
				want := 2
				if members < want {
					want = members
				}
				for i, nodes := range pl {
					if len(nodes) != want {
						return &explore.Violation{Key: "wrong-cardinality-or-membership", Desc: fmt.Sprintf("%d members after removing node %d: partition %d got %v, want %d nodes", members, removed, i, nodes, want)}
					}
					seen := map[uint64]bool{}
					for _, id := range nodes {
						if id == removed && !readd || id < 1 || id > uint64(n) || seen[id] {
							return &explore.Violation{Key: "placed-on-non-member", Desc: fmt.Sprintf("node %d was removed (dialed before: %v); partition %d placed on %v", removed, dialed, i, nodes)}
						}
						seen[id] = true
					}
				}
				return nil
			}
		},
	}
}

// replaceScenario: one allocator lives through the membership changes (as the server's does): it places, then a node
// leaves and another one joins with no placement in between (the member COUNT is what it was), then it places again.
func replaceScenario(n int, leaves, joins uint64) *explore.Scenario {
	return &explore.Scenario{
		Name:             fmt.Sprintf("history-N%d-place-then-node%d-replaced-by-node%d-then-place", n, leaves, joins),
		MaxBound:         0,
		StopWhenMainDone: true,
		Configure:        func(s *vrt.Sched) { s.RandChoose = true },
		Build: func(x *explore.Exec) func(vrt.EndReason) *explore.Violation {
			world.Quiet()
			var first, pl [][]uint64
			done := false
			var conn *cluster.Conn
			x.OnCleanup(func() {
				if conn != nil {
					conn.Close()
				}
			})
			x.S.Spawn("caller", true, func() {
				conn = newConn(n)
				a := storage.NewAllocator(conn)
				first = a.VerifPlacement(1, uint(n))
				// a member that is announced again - under the same and under another address (restarted on another port) - stays one
				conn.AddNode(1, world.Addr(1))
				conn.AddNode(uint64(n), world.Addr(uint64(n))+"0")
				if leaves == uint64(n) {
					conn.AddNode(uint64(n-1), world.Addr(uint64(n-1))+"0")
				}
				conn.RemoveNode(leaves)
				conn.AddNode(joins, world.Addr(joins))
				pl = a.VerifPlacement(2, uint(n))
				done = true
			})
			return func(end vrt.EndReason) *explore.Violation {
				if !done {
					return &explore.Violation{Key: "placement-never-returns", Desc: strings.Join(x.S.Blocked(), "; ")}
				}
				x.Outcome = fmt.Sprint(first, pl)
				if d := clause1(first, n, n, 1); d != "" {
					return &explore.Violation{Key: "wrong-cardinality-or-membership", Desc: "before the replacement: " + d}
				}
				for i, nodes := range pl {
					seen := map[uint64]bool{}
					for _, id := range nodes {
						member := id >= 1 && id <= uint64(n) && id != leaves || id == joins
						if !member || seen[id] {
							return &explore.Violation{Key: "placed-on-non-member", Desc: fmt.Sprintf("node %d left and node %d joined after the first placement; partition %d of the next one is placed on %v", leaves, joins, i, nodes)}
						}
						seen[id] = true
					}
					if len(nodes) != n {
						return &explore.Violation{Key: "wrong-cardinality-or-membership", Desc: fmt.Sprintf("%d members, R=%d: partition %d got %v", n, n, i, nodes)}
					}
				}
				return nil
			}
		},
	}
}

// racePass: the free-running twin (plain build, race detector): several placements at once on one allocator, as
// concurrent Create requests make them, while a node joins and leaves. Sampling, reported as such.
func racePass() {
	world.Quiet()
	const n = 16
	conn := newConn(n)
	a := storage.NewAllocator(conn)
	var wg sync.WaitGroup
	var mu sync.Mutex
	bad := ""
	iters := 150
	if os.Getenv("VERIF_TIER") == "thorough" {
		iters = 1500
	}
	stop := make(chan struct{})
	go func() {
		for {
			select {
			case <-stop:
				return
			default:
			}
			conn.AddNode(17, world.Addr(17))
			conn.RemoveNode(17)
		}
	}()
	for g := 0; g < 8; g++ {
		wg.Add(1)
		go func() {
			defer wg.Done()
			for i := 0; i < iters; i++ {
				pl := a.VerifPlacement(64, 3)
				for pi, nodes := range pl {
					seen := map[uint64]bool{}
					for _, id := range nodes {
						if id < 1 || id > 17 || seen[id] {
							mu.Lock()
							if bad == "" {
								bad = fmt.Sprintf("concurrent placements on 16(+1 coming and going) members, R=3: partition %d placed on %v", pi, nodes)
							}
							mu.Unlock()
						}
						seen[id] = true
					}
					if len(nodes) != 3 {
						mu.Lock()
						if bad == "" {
							bad = fmt.Sprintf("concurrent placements, R=3: partition %d got %v", pi, nodes)
						}
						mu.Unlock()
					}
				}
			}
		}()
	}
	wg.Wait()
	close(stop)
	if bad != "" {
		fmt.Println("FREE-RUNNING-VIOLATION placed-on-non-member-or-twice: " + bad)
	}
	fmt.Printf("RACEPASS placements=%d\n", 8*iters)
}

// streamScenario: clause 1 for all N<=16, R<=8, P<=64 under one fixed random stream.
func streamScenario(seed int) *explore.Scenario {
	return &explore.Scenario{
		Name:             fmt.Sprintf("all-configs-stream%d", seed),
		MaxBound:         0,
		StopWhenMainDone: true,
		Configure: func(s *vrt.Sched) {
			s.RandChoose = false
			s.Horizon = 10000000
			for i := 0; i < seed*7; i++ {
				vrt.S = s
				vrt.RandUint64()
				vrt.S = nil
			}
		},
		Build: func(x *explore.Exec) func(vrt.EndReason) *explore.Violation {
			world.Quiet()
			bad := ""
			count := 0
			done := false
			x.S.Spawn("caller", true, func() {
				for n := 1; n <= 16; n++ {
					a := storage.NewAllocator(newConn(n))
					for r := 1; r <= 8; r++ {
						for _, p := range []int{1, 2, 3, 5, 8, 16, 33, 64} {
							pl := a.VerifPlacement(uint(p), uint(r))
							count++
							if d := clause1(pl, n, r, p); d != "" && bad == "" {
								bad = d
							}
						}
					}
				}
				done = true
			})
			return func(end vrt.EndReason) *explore.Violation {
				x.Outcome = fmt.Sprintf("configs=%d ok=%v", count, bad == "")
				if !done {
					return &explore.Violation{Key: "placement-never-returns", Desc: strings.Join(x.S.Blocked(), "; ")}
				}
				if bad != "" {
					return &explore.Violation{Key: "wrong-cardinality-or-membership", Desc: bad}
				}
				return nil
			}
		},
	}
}

const c20Keys = `^(node-listed-before-its-membership-change-is-applied|member-missing-from-view|member-listed-with-wrong-address|member-listed-without-address|removed-node-still-listed)`

func main() {
	if len(os.Args) > 2 && os.Args[1] == "--replay" && ev.PartOf(os.Args[2]) == "C20" {
		ev.ReplayPart("C16", os.Getenv("VERIF_BIN_C20"), c20Keys, os.Args[2], "VERIF_PART_MODE=directed", "VERIF_TUNABLE_snapshotOffset=0")
	}
	if len(os.Args) > 1 && os.Args[1] == "--race-pass" {
		racePass()
		return
	}
	var scs []*explore.Scenario
	for n := 1; n <= 4; n++ {
		for r := 1; r <= 4; r++ {
			for p := 1; p <= 3; p++ {
				scs = append(scs, enumScenario(n, r, p))
			}
		}
	}
	for _, n := range []int{2, 3} {
		for rem := uint64(2); rem <= uint64(n); rem++ {
			for _, dialed := range []bool{false, true} {
				for _, readd := range []bool{false, true} {
					scs = append(scs, historyScenario(n, rem, dialed, readd))
				}
			}
		}
	}
	for seed := 0; seed < 8; seed++ {
		scs = append(scs, streamScenario(seed))
	}
	for _, nrp := range [][3]int{{1, 1, 1}, {2, 3, 2}, {3, 2, 3}, {4, 3, 2}} {
		for _, pre := range []string{"plain", "resent-description", "foreign-nodes"} {
			scs = append(scs, createScenario(nrp[0], nrp[1], nrp[2], pre))
		}
	}
	scs = append(scs, replayScenario())
	scs = append(scs, replaceScenario(3, 3, 7), replaceScenario(2, 2, 5), replaceScenario(4, 2, 9))
	before := func(run *ev.Run) ev.Coverage {
		// "all of them current members": placement draws from the node's address book. What that book holds after joins,
		// removals, compactions, restarts, lagging and joins that cannot commit yet is decided on real servers by C20's
		// directed membership histories, counted here for a book that differs from the membership
		run.RunPart("address-book-C20", os.Getenv("VERIF_BIN_C20"), c20Keys, "VERIF_PART_MODE=directed", "VERIF_TUNABLE_snapshotOffset=0")
		return racepass.Run(run, os.Getenv("VERIF_C16_RACE"))
	}
	explore.Main("C16", scs, explore.Plan{QuickBound: 0, ThoroughBound: 0, QuickBudget: 200 * time.Second, ThoroughBudget: 15 * time.Minute, Shards: 1, Before: before},
		"model_checking", []string{
			"every outcome of math/rand.Shuffle (Fisher-Yates over rand.Intn) is enumerated through the scheduler's choice seam for N<=4, R<=4, P<=3; N<=16, R<=8, P in {1,2,3,5,8,16,33,64} under 8 fixed streams for the cardinality clause only",
			"independence is checked possibilistically: the set of reachable placement tuples must equal the product of the per-partition reachable sets",
			"the placement is observed after the call returned (as DatasetManager.Create uses it)",
			"membership histories: add N nodes, optionally dial one, remove it, optionally add it again, then place",
			"create scenarios: the metadata returned by the real DatasetManager.Create over a scripted raft.Group, for plain requests and requests that already carry a partition list; one fixed random stream",
			"one allocator living through a replacement (place, a node leaves and another joins, place again); a free-running -race twin with 8 concurrent placements while a node comes and goes (sampling)",
			"restart scenario: a partition group placed on {1,2,3} is replayed by a restarted node 1 after node 3 left; members and placement observed afterwards",
		})
}
