// C16 — every partition is placed on min(R, N) distinct member nodes, independently.
//
// E1 (choice enumeration): the real Allocator placement function on a real cluster.Conn with N
// members; math/rand inside allocator.go is the scheduler's choice seam, so EVERY outcome of
// every shuffle is enumerated (complete for N <= 4, R <= 4, P <= 3), and all N<=16, R<=8,
// P<=64 under fixed random streams for the cardinality clause.
package main

import (
	"fmt"
	"sort"
	"strings"
	"time"

	"anndbverif/explore"
	"anndbverif/vrt"
	"anndbverif/world"

	"github.com/marekgalovic/anndb/cluster"
	"github.com/marekgalovic/anndb/storage"
)

func newConn(n int) *cluster.Conn {
	conn, err := cluster.NewConn(1, world.Addr(1), "")
	if err != nil {
		panic(err)
	}
	for j := 1; j <= n; j++ {
		conn.AddNode(uint64(j), world.Addr(uint64(j)))
	}
	return conn
}

// clause1 checks one placement result.
func clause1(pl [][]uint64, n, r, p int) string {
	want := r
	if n < want {
		want = n
	}
	if len(pl) != p {
		return fmt.Sprintf("N=%d R=%d P=%d: %d partitions placed", n, r, p, len(pl))
	}
	for i, nodes := range pl {
		if len(nodes) != want {
			return fmt.Sprintf("N=%d R=%d P=%d: partition %d got %d nodes %v, want min(R,N)=%d", n, r, p, i, len(nodes), nodes, want)
		}
		seen := map[uint64]bool{}
		for _, id := range nodes {
			if id < 1 || id > uint64(n) {
				return fmt.Sprintf("N=%d R=%d P=%d: partition %d placed on %d which is not a member", n, r, p, i, id)
			}
			if seen[id] {
				return fmt.Sprintf("N=%d R=%d P=%d: partition %d placed twice on node %d (%v)", n, r, p, i, id, nodes)
			}
			seen[id] = true
		}
	}
	return ""
}

func enumScenario(n, r, p int) *explore.Scenario {
	return &explore.Scenario{
		Name:             fmt.Sprintf("all-shuffles-N%d-R%d-P%d", n, r, p),
		MaxBound:         0,
		StopWhenMainDone: true,
		Configure:        func(s *vrt.Sched) { s.RandChoose = true },
		Build: func(x *explore.Exec) func(vrt.EndReason) *explore.Violation {
			world.Quiet()
			var pl [][]uint64
			done := false
			x.S.Spawn("caller", true, func() {
				conn := newConn(n)
				a := storage.NewAllocator(conn)
				pl = a.VerifPlacement(uint(p), uint(r))
				// observe AFTER the call returned, as Create does when it builds the dataset
				cp := make([][]uint64, len(pl))
				for i := range pl {
					cp[i] = append([]uint64{}, pl[i]...)
				}
				pl = cp
				done = true
			})
			return func(end vrt.EndReason) *explore.Violation {
				if !done {
					return &explore.Violation{Key: "placement-never-returns", Desc: strings.Join(x.S.Blocked(), "; ")}
				}
				x.Outcome = fmt.Sprint(pl)
				if d := clause1(pl, n, r, p); d != "" {
					return &explore.Violation{Key: "wrong-cardinality-or-membership", Desc: d}
				}
				return nil
			}
		},
		PostCheck: func(outcomes map[string]int) *explore.Violation {
			// independence (possibilistic): reachable tuples == product of per-partition reachable sets
			if p < 2 {
				return nil
			}
			per := make([]map[string]bool, p)
			tuples := map[string]bool{}
			for o := range outcomes {
				parts := strings.Split(strings.Trim(o, "[]"), "] [")
				if len(parts) != p {
					continue
				}
				for i, s := range parts {
					if per[i] == nil {
						per[i] = map[string]bool{}
					}
					per[i][s] = true
				}
				tuples[strings.Join(parts, "|")] = true
			}
			prod := 1
			for i := range per {
				prod *= len(per[i])
			}
			if len(tuples) != prod {
				var ex []string
				for t := range tuples {
					ex = append(ex, t)
				}
				sort.Strings(ex)
				if len(ex) > 4 {
					ex = ex[:4]
				}
				return &explore.Violation{Key: "placements-not-independent", Desc: fmt.Sprintf("N=%d R=%d P=%d: each partition can individually land on %d placements, so %d combinations should be reachable; over ALL shuffle outcomes only %d are (e.g. %v)", n, r, p, len(per[0]), prod, len(tuples), ex)}
			}
			return nil
		},
	}
}

// historyScenario: membership changes before the placement. Members = {1..n} minus removed.
// dialed says whether this node had opened a client connection to the removed node.
func historyScenario(n int, removed uint64, dialed bool, readd bool) *explore.Scenario {
	return &explore.Scenario{
		Name:             fmt.Sprintf("history-N%d-remove%d-dialed%v-readd%v", n, removed, dialed, readd),
		MaxBound:         0,
		StopWhenMainDone: true,
		Configure:        func(s *vrt.Sched) { s.RandChoose = true },
		Build: func(x *explore.Exec) func(vrt.EndReason) *explore.Violation {
			world.Quiet()
			var pl [][]uint64
			done := false
			var conn *cluster.Conn
			x.OnCleanup(func() {
				if conn != nil {
					conn.Close()
				}
			})
			x.S.Spawn("caller", true, func() {
				conn = newConn(n)
				if dialed {
					conn.Dial(removed)
				}
				conn.RemoveNode(removed)
				if readd {
					conn.AddNode(removed, world.Addr(removed))
				}
				a := storage.NewAllocator(conn)
				pl = a.VerifPlacement(2, 2)
				done = true
			})
			return func(end vrt.EndReason) *explore.Violation {
				if !done {
					return &explore.Violation{Key: "placement-never-returns", Desc: strings.Join(x.S.Blocked(), "; ")}
				}
				x.Outcome = fmt.Sprint(pl)
				members := n - 1
				if readd {
					members = n
				}
				want := 2
				if members < want {
					want = members
				}
				for i, nodes := range pl {
					if len(nodes) != want {
						return &explore.Violation{Key: "wrong-cardinality-or-membership", Desc: fmt.Sprintf("%d members after removing node %d: partition %d got %v, want %d nodes", members, removed, i, nodes, want)}
					}
					seen := map[uint64]bool{}
					for _, id := range nodes {
						if id == removed && !readd || id < 1 || id > uint64(n) || seen[id] {
							return &explore.Violation{Key: "placed-on-non-member", Desc: fmt.Sprintf("node %d was removed (dialed before: %v); partition %d placed on %v", removed, dialed, i, nodes)}
						}
						seen[id] = true
					}
				}
				return nil
			}
		},
	}
}

// streamScenario: clause 1 for all N<=16, R<=8, P<=64 under one fixed random stream.
func streamScenario(seed int) *explore.Scenario {
	return &explore.Scenario{
		Name:             fmt.Sprintf("all-configs-stream%d", seed),
		MaxBound:         0,
		StopWhenMainDone: true,
		Configure: func(s *vrt.Sched) {
			s.RandChoose = false
			s.Horizon = 10000000
			for i := 0; i < seed*7; i++ {
				vrt.S = s
				vrt.RandUint64()
				vrt.S = nil
			}
		},
		Build: func(x *explore.Exec) func(vrt.EndReason) *explore.Violation {
			world.Quiet()
			bad := ""
			count := 0
			done := false
			x.S.Spawn("caller", true, func() {
				for n := 1; n <= 16; n++ {
					a := storage.NewAllocator(newConn(n))
					for r := 1; r <= 8; r++ {
						for _, p := range []int{1, 2, 3, 5, 8, 16, 33, 64} {
							pl := a.VerifPlacement(uint(p), uint(r))
							count++
							if d := clause1(pl, n, r, p); d != "" && bad == "" {
								bad = d
							}
						}
					}
				}
				done = true
			})
			return func(end vrt.EndReason) *explore.Violation {
				x.Outcome = fmt.Sprintf("configs=%d ok=%v", count, bad == "")
				if !done {
					return &explore.Violation{Key: "placement-never-returns", Desc: strings.Join(x.S.Blocked(), "; ")}
				}
				if bad != "" {
					return &explore.Violation{Key: "wrong-cardinality-or-membership", Desc: bad}
				}
				return nil
			}
		},
	}
}

func main() {
	var scs []*explore.Scenario
	for n := 1; n <= 4; n++ {
		for r := 1; r <= 4; r++ {
			for p := 1; p <= 3; p++ {
				scs = append(scs, enumScenario(n, r, p))
			}
		}
	}
	for _, n := range []int{2, 3} {
		for rem := uint64(2); rem <= uint64(n); rem++ {
			for _, dialed := range []bool{false, true} {
				for _, readd := range []bool{false, true} {
					scs = append(scs, historyScenario(n, rem, dialed, readd))
				}
			}
		}
	}
	for seed := 0; seed < 8; seed++ {
		scs = append(scs, streamScenario(seed))
	}
	explore.Main("C16", scs, explore.Plan{QuickBound: 0, ThoroughBound: 0, QuickBudget: 200 * time.Second, ThoroughBudget: 15 * time.Minute, Shards: 1},
		"model_checking", []string{
			"every outcome of math/rand.Shuffle (Fisher-Yates over rand.Intn) is enumerated through the scheduler's choice seam for N<=4, R<=4, P<=3; N<=16, R<=8, P in {1,2,3,5,8,16,33,64} under 8 fixed streams for the cardinality clause only",
			"independence is checked possibilistically: the set of reachable placement tuples must equal the product of the per-partition reachable sets",
			"the placement is observed after the call returned (as DatasetManager.Create uses it)",
			"membership histories: add N nodes, optionally dial one, remove it, optionally add it again, then place",
		})
}
