// C11 — write acknowledgements are truthful and reach the right caller.
//
// E1 on simulated nodes built from the real objects (Dataset, partition, RaftGroup over
// badgerWAL, etcd node; wire = in-memory fakes):
//
//	A. propose/notify protocol: 1-2 callers racing the partition's ready loop and the etcd node
//	   thread, every interleaving up to a deviation bound; the proposal timer firing is an
//	   environment deviation.
//	B. unreachable owner: dial error / rpc error / node down / healthy, explored likewise.
//	C. batches (sequential product): every batch of <= 3 items over {new, existing, duplicate
//	   inside the batch, absent, wrong dimension} x insert/update/remove, spread over a local and
//	   a remote partition.
package main

import (
	"context"
	"fmt"
	"sort"
	"strings"
	"time"

	"anndbverif/explore"
	"anndbverif/lib/ev"
	"anndbverif/vrt"
	vctx "anndbverif/vrt/context"
	"anndbverif/vrt/fakes"
	"anndbverif/world"

	"github.com/marekgalovic/anndb/index"
	pb "github.com/marekgalovic/anndb/protobuf"
	"github.com/marekgalovic/anndb/utils"
	uuid "github.com/satori/go.uuid"
)

type call struct {
	Kind string // ins upd rem
	ID   int
	Vec  float32
}

type variantA struct {
	name    string
	pre     []call // applied sequentially first
	callers [][]call
	timers  bool
	maxQ    int
}

var ids = func() []uuid.UUID {
	// ids owned by partition 0 of a 1- or 2-partition dataset
	var out []uuid.UUID
	for k := uint64(1); len(out) < 4; k++ {
		id := world.ID(k*0x9E3779B97F4A7C15+k, k*0xBF58476D1CE4E5B9+3)
		if utils.UuidMod(id, 2) == 0 {
			out = append(out, id)
		}
	}
	return out
}()

// ids owned by partition 1 of a 2-partition dataset
var ids1 = func() []uuid.UUID {
	var out []uuid.UUID
	for k := uint64(1); len(out) < 4; k++ {
		id := world.ID(k*0x9E3779B97F4A7C15+k, k*0xBF58476D1CE4E5B9+3)
		if utils.UuidMod(id, 2) == 1 {
			out = append(out, id)
		}
	}
	return out
}()

type result struct {
	c      call
	err    error
	done   bool
	thread string
	// state of the id on the owner at the instant the call returned (single-caller scenarios)
	presentAtReturn bool
	vecAtReturn     float32
}

// cluster builds nodes 1..n with one dataset and elects leaders; runs set-up to quiescence.
func cluster(x *explore.Exec, n int, placement [][]uint64, knows func(a, b uint64) bool) ([]*world.RNode, *pb.Dataset) {
	fakes.Reset()
	meta := world.DatasetMeta(1, pb.Space_Euclidean, placement, 1)
	nodes := make([]*world.RNode, n)
	for i := 1; i <= n; i++ {
		i := i
		var peers []uint64
		for j := 1; j <= n; j++ {
			if knows == nil || knows(uint64(i), uint64(j)) {
				peers = append(peers, uint64(j))
			}
		}
		x.S.Spawn(fmt.Sprintf("n%d/setup", i), false, func() {
			nodes[i-1] = world.NewRNode(uint64(i), world.MemDB(), peers)
			if err := nodes[i-1].ApplyCreate(meta); err != nil {
				panic(err)
			}
		})
		x.Quiesce()
	}
	x.OnCleanup(func() {
		for _, nd := range nodes {
			nd.Close()
		}
	})
	for i := 1; i <= n; i++ {
		i := i
		x.S.Spawn(fmt.Sprintf("n%d/campaign", i), false, func() { nodes[i-1].Campaign(meta) })
		x.Quiesce()
	}
	return nodes, meta
}

func do(ds interface {
	Insert(context.Context, uuid.UUID, []float32, index.Metadata) error
}, c call) error {
	return nil
}

func scenarioA(v variantA) *explore.Scenario {
	return &explore.Scenario{
		Name:          "A-" + v.name,
		MaxBoundQuick: v.maxQ,
		Configure: func(s *vrt.Sched) {
			s.Horizon = 200000
			s.DelayBounding = len(v.callers) > 1
		},
		Build: func(x *explore.Exec) func(vrt.EndReason) *explore.Violation {
			nodes, meta := cluster(x, 1, [][]uint64{{1}}, nil)
			ds := nodes[0].Dataset(meta)
			ix := ds.VerifPartition(0).Index()
			for _, c := range v.pre {
				ix.Insert(ids[c.ID], []float32{c.Vec}, nil, 0)
			}
			// only the callers' proposal timers may fire (ticks and snapshot tickers stay quiet)
			for _, t := range x.S.Timers() {
				t.Stop()
			}
			x.S.OfferTimers = v.timers
			var results []*result
			for ti, cs := range v.callers {
				for ci, c := range cs {
					r := &result{c: c, thread: fmt.Sprintf("n1/caller%d", ti)}
					results = append(results, r)
					if ci > 0 {
						continue // second call of a thread is issued inside the same thread below
					}
				}
				ti, cs := ti, cs
				x.S.Spawn(fmt.Sprintf("n1/caller%d", ti), true, func() {
					k := 0
					for _, r := range results {
						if r.thread != fmt.Sprintf("n1/caller%d", ti) {
							continue
						}
						c := cs[k]
						k++
						switch c.Kind {
						case "ins":
							r.err = ds.Insert(context.Background(), ids[c.ID], []float32{c.Vec}, nil)
						case "upd":
							r.err = ds.Update(context.Background(), ids[c.ID], []float32{c.Vec}, nil)
						case "rem":
							r.err = ds.Remove(context.Background(), ids[c.ID])
						}
						if vec, gerr := ix.Get(ids[c.ID]); gerr == nil {
							r.presentAtReturn, r.vecAtReturn = true, vec[0]
						}
						r.done = true
					}
				})
			}
			return func(end vrt.EndReason) *explore.Violation {
				for _, r := range results {
					if !r.done {
						letTimePass(x)
						break
					}
				}
				// the k-th proposal timer created by a caller thread belongs to its k-th call
				fired := map[string]bool{}
				perThread := map[string]int{}
				for _, t := range x.S.Timers() {
					if t.Kind == "deadline" && strings.Contains(t.Creator, "caller") {
						if t.Fired > 0 {
							fired[fmt.Sprintf("%s#%d", t.Creator, perThread[t.Creator])] = true
						}
						perThread[t.Creator]++
					}
				}
				seq := map[string]int{}
				for _, r := range results {
					r.thread = fmt.Sprintf("%s#%d", strings.Split(r.thread, "#")[0], seq[strings.Split(r.thread, "#")[0]])
					seq[strings.Split(r.thread, "#")[0]]++
				}
				var outs []string
				for _, r := range results {
					if !r.done {
						x.Outcome = "blocked"
						return &explore.Violation{Key: "caller-never-returns", Desc: fmt.Sprintf("%v by %s did not return although no timer is pending: %s", r.c, r.thread, strings.Join(x.S.Blocked(), "; "))}
					}
					outs = append(outs, fmt.Sprint(r.err))
				}
				x.Outcome = strings.Join(outs, " | ")
				// reference: some order of the calls (consistent with per-thread order) must explain
				// every outcome of a caller whose timer did not fire, and the final contents;
				// a caller whose timer fired must have got an error, its op may or may not be applied
				state := map[int]float32{}
				for _, c := range v.pre {
					state[c.ID] = c.Vec
				}
				final := map[int]float32{}
				for i := range ids {
					if vec, err := ix.Get(ids[i]); err == nil {
						final[i] = vec[0]
					}
				}
				for _, r := range results {
					// success is truthful only if the change had been applied when the call returned
					// (checked where no other caller can have touched the id in between)
					if len(v.callers) == 1 && r.err == nil {
						applied := r.presentAtReturn
						if r.c.Kind == "rem" {
							applied = !r.presentAtReturn
						} else if r.c.Kind == "upd" || r.c.Kind == "ins" {
							applied = r.presentAtReturn && r.vecAtReturn == r.c.Vec
						}
						if !applied {
							return &explore.Violation{Key: "success-before-applied", Desc: fmt.Sprintf("%v by %s returned success but the owner had not applied it when the call returned (proposal timer fired: %v)", r.c, r.thread, fired[r.thread])}
						}
					}
					if fired[r.thread] && r.err == nil {
						fired[r.thread+"/ok"] = true
					}
				}
				for k := range fired {
					if strings.HasSuffix(k, "/ok") {
						// the outcome arrived together with the timer: the caller took the outcome; treat as untimed
						delete(fired, strings.TrimSuffix(k, "/ok"))
					}
				}
				if ok, why := explain(results, fired, state, final); !ok {
					key := "outcome-not-explained-by-any-apply-order"
					for _, r := range results {
						if r.err == nil && !fired[r.thread] {
							if _, present := final[r.c.ID]; r.c.Kind == "ins" && !present && !removedBy(results, r.c.ID) {
								key = "success-but-not-applied"
							}
						}
						if r.err != nil && !fired[r.thread] && strings.Contains(r.err.Error(), "deadline") {
							key = "timeout-without-timer"
						}
					}
					return &explore.Violation{Key: key, Desc: fmt.Sprintf("outcomes %s, timers fired for %v, final contents %v: %s", describe(results), fired, final, why)}
				}
				return nil
			}
		},
	}
}

type defaultPick struct{}

func (defaultPick) Pick(s *vrt.Sched, alts []vrt.Alt, costs []int) int { return 0 }

// letTimePass: before the verdict on a caller that has not returned, time passes - every armed timer that belongs to
// a caller (its 5 s proposal timer, its own deadline) fires, whether or not anything is waiting for it, and the
// system runs to quiescence. A write that ignores its timers stays blocked and is reported.
func letTimePass(x *explore.Exec) {
	if x.S.Panicked() != nil {
		return
	}
	for round := 0; round < 4; round++ {
		any := false
		for _, t := range x.S.Timers() {
			if t.Kind == "deadline" && strings.Contains(t.Creator, "caller") && t.Armed() {
				x.S.Fire(t)
				any = true
			}
		}
		if !any {
			return
		}
		if r := x.S.Run(defaultPick{}, nil); r != vrt.Quiescent {
			return
		}
	}
}

// scenarioD: the partition's group has no leader (its other replica never answers). A write must come back with an
// error once its time is up - the 5 s proposal timer or the caller's own deadline, both virtual and offered to the
// explorer - and must never be acknowledged.
func scenarioD(kind string, callerDeadline bool) *explore.Scenario {
	return &explore.Scenario{
		Name:      fmt.Sprintf("D-no-leader-%s-caller-deadline-%v", kind, callerDeadline),
		Configure: func(s *vrt.Sched) { s.Horizon = 200000; s.DelayBounding = true },
		Build: func(x *explore.Exec) func(vrt.EndReason) *explore.Violation {
			fakes.Reset()
			meta := world.DatasetMeta(1, pb.Space_Euclidean, [][]uint64{{1, 2}}, 2)
			var node *world.RNode
			x.S.Spawn("n1/setup", false, func() {
				node = world.NewRNode(1, world.MemDB(), []uint64{1, 2}) // node 2 is never started: no quorum, no leader
				if err := node.ApplyCreate(meta); err != nil {
					panic(err)
				}
			})
			x.Quiesce()
			x.OnCleanup(func() { node.Close() })
			for _, t := range x.S.Timers() {
				t.Stop() // raft ticks stay quiet; only the write's own timers may fire
			}
			x.S.OfferTimers = true
			ds := node.Dataset(meta)
			var err error
			done := false
			x.S.Spawn("n1/caller0", true, func() {
				ctx := context.Background()
				if callerDeadline {
					var cancel func()
					ctx, cancel = vctx.WithTimeout(ctx, time.Second)
					defer cancel()
				}
				switch kind {
				case "ins":
					err = ds.Insert(ctx, ids[0], []float32{1}, nil)
				case "rem":
					err = ds.Remove(ctx, ids[0])
				}
				done = true
			})
			return func(end vrt.EndReason) *explore.Violation {
				if !done {
					letTimePass(x)
				}
				fired := 0
				pending := 0
				for _, t := range x.S.Timers() {
					if t.Kind == "deadline" && strings.Contains(t.Creator, "caller") {
						if t.Fired > 0 {
							fired++
						} else if t.Armed() {
							pending++
						}
					}
				}
				x.Outcome = fmt.Sprintf("done=%v err=%v fired=%d pending=%d", done, err != nil, fired, pending)
				if done && err == nil {
					return &explore.Violation{Key: "success-without-leader", Desc: "a write was acknowledged although the partition's group has no leader"}
				}
				if !done && pending == 0 {
					return &explore.Violation{Key: "caller-never-returns", Desc: fmt.Sprintf("no leader: the write did not return although %d of its timers fired and none is pending: %s", fired, strings.Join(x.S.Blocked(), "; "))}
				}
				return nil
			}
		},
	}
}

// scenarioDBatch: as D, for the batch calls: the only partition's group has no leader, the batch's proposal is never
// applied. Every id of the batch must come back with an error (or the call itself must fail) - never as a success.
func scenarioDBatch(kind string) *explore.Scenario {
	return &explore.Scenario{
		Name:      fmt.Sprintf("D-no-leader-batch-%s", kind),
		Configure: func(s *vrt.Sched) { s.Horizon = 200000; s.DelayBounding = true },
		Build: func(x *explore.Exec) func(vrt.EndReason) *explore.Violation {
			fakes.Reset()
			meta := world.DatasetMeta(1, pb.Space_Euclidean, [][]uint64{{1, 2}}, 2)
			var node *world.RNode
			x.S.Spawn("n1/setup", false, func() {
				node = world.NewRNode(1, world.MemDB(), []uint64{1, 2}) // node 2 is never started: no quorum, no leader
				if err := node.ApplyCreate(meta); err != nil {
					panic(err)
				}
			})
			x.Quiesce()
			x.OnCleanup(func() { node.Close() })
			for _, t := range x.S.Timers() {
				t.Stop()
			}
			x.S.OfferTimers = true
			ds := node.Dataset(meta)
			items := []*pb.BatchItem{{Id: ids[0].Bytes(), Value: []float32{1}}, {Id: ids[1].Bytes(), Value: []float32{2}}}
			var errs map[uuid.UUID]error
			var err error
			done := false
			x.S.Spawn("n1/caller0", true, func() {
				switch kind {
				case "ins":
					errs, err = ds.BatchInsert(context.Background(), items)
				case "upd":
					errs, err = ds.BatchUpdate(context.Background(), items)
				case "rem":
					errs, err = ds.BatchRemove(context.Background(), items)
				}
				done = true
			})
			return func(end vrt.EndReason) *explore.Violation {
				if !done {
					letTimePass(x)
				}
				pending := 0
				for _, t := range x.S.Timers() {
					if t.Kind == "deadline" && strings.Contains(t.Creator, "caller") && t.Fired == 0 && t.Armed() {
						pending++
					}
				}
				x.Outcome = fmt.Sprintf("done=%v err=%v errs=%d", done, err != nil, len(errs))
				if !done {
					if pending == 0 {
						return &explore.Violation{Key: "caller-never-returns", Desc: "no leader: the batch did not return although none of its timers is pending: " + strings.Join(x.S.Blocked(), "; ")}
					}
					return nil
				}
				if err != nil {
					return nil
				}
				for _, id := range ids[:2] {
					if errs[id] == nil {
						return &explore.Violation{Key: "batch-success-without-leader", Desc: fmt.Sprintf("the partition's group has no leader, nothing was applied, yet id %x of the batch is reported without an error (errors: %v)", id[:2], errs)}
					}
				}
				return nil
			}
		},
	}
}

func removedBy(results []*result, id int) bool {
	for _, r := range results {
		if r.c.Kind == "rem" && r.c.ID == id {
			return true
		}
	}
	return false
}

func describe(results []*result) string {
	var s []string
	for _, r := range results {
		s = append(s, fmt.Sprintf("%s:%s(%d)=%v", r.thread, r.c.Kind, r.c.ID, r.err))
	}
	return strings.Join(s, "; ")
}

// explain searches an apply order (respecting per-thread program order) under which every
// non-timed-out caller got exactly the outcome a sequential map gives, timed-out callers' ops
// are applied or not, and the final contents match.
func explain(results []*result, fired map[string]bool, init map[int]float32, final map[int]float32) (bool, string) {
	n := len(results)
	used := make([]bool, n)
	var rec func(state map[int]float32, placed int) bool
	rec = func(state map[int]float32, placed int) bool {
		if placed == n {
			if len(state) != len(final) {
				return false
			}
			for k, v := range state {
				if fv, ok := final[k]; !ok || fv != v {
					return false
				}
			}
			return true
		}
		for i, r := range results {
			if used[i] {
				continue
			}
			// program order: earlier ops of the same thread first
			blocked := false
			for j := 0; j < i; j++ {
				if !used[j] && strings.Split(results[j].thread, "#")[0] == strings.Split(r.thread, "#")[0] {
					blocked = true
				}
			}
			if blocked {
				continue
			}
			try := func(apply bool) bool {
				ns := map[int]float32{}
				for k, v := range state {
					ns[k] = v
				}
				var want error
				if apply {
					_, present := ns[r.c.ID]
					switch r.c.Kind {
					case "ins":
						if present {
							want = index.ItemAlreadyExistsError
						} else {
							ns[r.c.ID] = r.c.Vec
						}
					case "upd":
						if !present {
							want = index.ItemNotFoundError
						} else {
							ns[r.c.ID] = r.c.Vec
						}
					case "rem":
						if !present {
							want = index.ItemNotFoundError
						} else {
							delete(ns, r.c.ID)
						}
					}
				}
				if !fired[r.thread] {
					if !apply {
						return false // an untimed caller's op must have been applied (or rejected by the owner)
					}
					if fmt.Sprint(r.err) != fmt.Sprint(want) {
						return false
					}
				}
				used[i] = true
				ok := rec(ns, placed+1)
				used[i] = false
				return ok
			}
			if try(true) {
				return true
			}
			if fired[r.thread] && try(false) {
				return true
			}
		}
		return false
	}
	if rec(init, 0) {
		return true, ""
	}
	return false, "no apply order of the calls yields these outcomes and contents"
}

// ---- B: unreachable owner ----

type variantB struct {
	name string
	mode string // "healthy", "unknown-address", "rpc-error", "down"
	kind string
}

func scenarioB(v variantB) *explore.Scenario {
	return &explore.Scenario{
		Name:      "B-" + v.name,
		Configure: func(s *vrt.Sched) { s.Horizon = 200000; s.DelayBounding = true },
		Build: func(x *explore.Exec) func(vrt.EndReason) *explore.Violation {
			var knows func(a, b uint64) bool
			if v.mode == "unknown-address" {
				knows = func(a, b uint64) bool { return !(a == 1 && b == 2) }
			}
			nodes, meta := cluster(x, 2, [][]uint64{{2}}, knows)
			owner := nodes[1].Dataset(meta).VerifPartition(0).Index()
			if v.kind != "ins" {
				owner.Insert(ids[0], []float32{7}, nil, 0)
			}
			switch v.mode {
			case "rpc-error":
				fakes.Intercept = func(target, method string, ctx context.Context, req interface{}) (bool, interface{}, error) {
					if target == world.Addr(2) && (method == "Insert" || method == "Update" || method == "Remove") {
						return true, nil, fakes.ErrUnavailable
					}
					return false, nil, nil
				}
			case "down":
				fakes.Registry[world.Addr(2)].Down = true
			}
			for _, t := range x.S.Timers() {
				t.Stop()
			}
			var err error
			done := false
			x.S.Spawn("n1/caller", true, func() {
				ds := nodes[0].Dataset(meta)
				switch v.kind {
				case "ins":
					err = ds.Insert(context.Background(), ids[0], []float32{1}, nil)
				case "upd":
					err = ds.Update(context.Background(), ids[0], []float32{1}, nil)
				case "rem":
					err = ds.Remove(context.Background(), ids[0])
				}
				done = true
			})
			return func(end vrt.EndReason) *explore.Violation {
				if !done {
					x.Outcome = "blocked"
					return &explore.Violation{Key: "caller-never-returns", Desc: strings.Join(x.S.Blocked(), "; ")}
				}
				x.Outcome = fmt.Sprint(err)
				vec, gerr := owner.Get(ids[0])
				applied := false
				switch v.kind {
				case "ins":
					applied = gerr == nil
				case "upd":
					applied = gerr == nil && vec[0] == 1
				case "rem":
					applied = gerr != nil
				}
				if v.mode == "healthy" {
					if err != nil || !applied {
						return &explore.Violation{Key: "healthy-proxy-write-fails", Desc: fmt.Sprintf("%s through a non-hosting node: err=%v applied=%v", v.kind, err, applied)}
					}
					return nil
				}
				if err == nil {
					return &explore.Violation{Key: "success-although-owner-unreachable:" + v.mode, Desc: fmt.Sprintf("%s: the owner could not be reached (%s) but the call returned success (applied on owner: %v)", v.kind, v.mode, applied)}
				}
				if applied {
					return &explore.Violation{Key: "error-but-applied", Desc: fmt.Sprintf("%s: returned %v but the owner applied it", v.kind, err)}
				}
				return nil
			}
		},
	}
}

// ---- C: batches (sequential product, run in the parent) ----

type itemKind int

const (
	kNew itemKind = iota
	kExisting
	kAbsent
	kWrongDim
	kDupOfFirst
)

func batches(run *ev.Run) (int, int) {
	world.Quiet()
	evals, distinct := 0, 0
	kinds := []itemKind{kNew, kExisting, kWrongDim, kDupOfFirst}
	names := map[itemKind]string{kNew: "new", kExisting: "existing", kAbsent: "absent", kWrongDim: "wrong-dimension", kDupOfFirst: "duplicate-of-first"}
	for _, op := range []string{"BatchInsert", "BatchUpdate", "BatchRemove"} {
		for n := 1; n <= 3; n++ {
			total := 1
			for i := 0; i < n; i++ {
				total *= len(kinds)
			}
			for code := 0; code < total; code++ {
				shape := make([]itemKind, n)
				c := code
				for i := range shape {
					shape[i] = kinds[c%len(kinds)]
					c /= len(kinds)
				}
				if shape[0] == kDupOfFirst {
					continue
				}
				evals++
				distinct++
				for _, fault := range []string{"", "rpc-error", "no-address"} {
					remoteFails := fault != ""
					if remoteFails && n < 2 {
						continue
					}
					if remoteFails {
						evals++
						distinct++
					}
					if k, d := oneBatch(op, shape, names, fault); k != "" {
						var sn []string
						for _, s := range shape {
							sn = append(sn, names[s])
						}
						if remoteFails {
							k += ":remote-partition-unreachable"
						}
						run.Violation(k+":"+op, fmt.Sprintf("%s%v (remote partition's node: %q): %s", op, sn, fault, d), map[string]interface{}{"op": op, "shape": sn, "remote_fault": fault})
					}
				}
			}
		}
	}
	return evals, distinct
}

type def struct{}

func (def) Pick(s *vrt.Sched, alts []vrt.Alt, costs []int) int { return 0 }

// directPartitionBatches: the forwarded batch calls are calls in their own right (any sender can make them): a value of
// the wrong length must be refused before anything is proposed - an error, nothing stored, a stored vector unchanged.
func directPartitionBatches(run *ev.Run) int {
	evals := 0
	for _, op := range []string{"PartitionBatchInsert", "PartitionBatchUpdate"} {
		for _, shape := range [][]int{{2}, {1, 2}, {2, 1}, {0}, {3}} { // value lengths of the items (the dataset has dimension 1)
			evals++
			func() {
				fakes.Reset()
				vrt.ResetContexts()
				s := vrt.New()
				s.Horizon = 2000000
				s.Begin()
				x := &explore.Exec{S: s}
				nodes, meta := cluster(x, 1, [][]uint64{{1}}, nil)
				defer func() {
					s.End()
					for _, n := range nodes {
						n.Close()
					}
				}()
				ds := nodes[0].Dataset(meta)
				ix := ds.VerifPartition(0).Index()
				ix.Insert(ids[3], []float32{5}, nil, 0)
				var items []*pb.BatchItem
				for i, l := range shape {
					id := ids[i]
					if op == "PartitionBatchUpdate" {
						id = ids[3]
					}
					items = append(items, &pb.BatchItem{Id: id.Bytes(), Value: make([]float32, l)})
				}
				var errs map[uuid.UUID]error
				var err error
				done := false
				s.Spawn("n1/caller", true, func() {
					pid := uuid.FromBytesOrNil(meta.Partitions[0].Id)
					if op == "PartitionBatchInsert" {
						errs, err = ds.PartitionBatchInsert(context.Background(), pid, items)
					} else {
						errs, err = ds.PartitionBatchUpdate(context.Background(), pid, items)
					}
					done = true
				})
				s.Run(def{}, nil)
				desc := fmt.Sprintf("%s with value lengths %v on a dataset of dimension 1", op, shape)
				if t := s.Panicked(); t != nil {
					run.Violation("panic:direct-partition-batch", fmt.Sprintf("%s: %v", desc, t.Panic), map[string]interface{}{"op": op, "lengths": shape})
					return
				}
				if !done {
					run.Violation("caller-never-returns:direct-partition-batch", desc, map[string]interface{}{"op": op, "lengths": shape})
					return
				}
				if err == nil {
					run.Violation("wrong-dimension-accepted:"+op, fmt.Sprintf("%s returned no error (item errors %v): a value of the wrong length reached the proposal", desc, errs), map[string]interface{}{"op": op, "lengths": shape})
					return
				}
				for i := range shape {
					if _, gerr := ix.Get(ids[i]); gerr == nil && op == "PartitionBatchInsert" {
						run.Violation("wrong-dimension-batch-partly-applied:"+op, desc+": refused, yet an item of the batch is stored", map[string]interface{}{"op": op, "lengths": shape})
						return
					}
				}
				if v, gerr := ix.Get(ids[3]); gerr != nil || len(v) != 1 || v[0] != 5 {
					run.Violation("wrong-dimension-batch-partly-applied:"+op, fmt.Sprintf("%s: refused, yet the stored vector is now %v (%v)", desc, v, gerr), map[string]interface{}{"op": op, "lengths": shape})
				}
			}()
		}
	}
	return evals
}

// scenarioRestart: a node that restarts replays its log - every replayed entry notifies the id its proposer waited on in
// the previous life. A caller of the new life, racing the replay, must get the outcome of ITS proposal: removing an id
// that is not stored fails, whatever the replayed entries report to whomever.
func scenarioRestart() *explore.Scenario {
	return &explore.Scenario{
		Name:      "F-caller-races-the-log-replay-after-a-restart",
		Configure: func(s *vrt.Sched) { s.Horizon = 400000; s.DelayBounding = true },
		Build: func(x *explore.Exec) func(vrt.EndReason) *explore.Violation {
			fakes.Reset()
			db := world.MemDB()
			meta := world.DatasetMeta(1, pb.Space_Euclidean, [][]uint64{{1}}, 1)
			var node *world.RNode
			boot := func(life string) {
				x.S.Spawn("n1/setup-"+life, false, func() {
					node = world.NewRNode(1, db, []uint64{1})
					if err := node.ApplyCreate(meta); err != nil {
						panic(err)
					}
				})
				x.Quiesce()
			}
			boot("first")
			x.S.Spawn("n1/campaign-first", false, func() { node.Campaign(meta) })
			x.Quiesce()
			// first life: two acknowledged inserts
			x.S.Spawn("n1/first-life-writer", false, func() {
				ds := node.Dataset(meta)
				if err := ds.Insert(context.Background(), ids[0], []float32{1}, nil); err != nil {
					panic(err)
				}
				if err := ds.Insert(context.Background(), ids[1], []float32{2}, nil); err != nil {
					panic(err)
				}
			})
			x.Quiesce()
			// crash (the disk survives), restart: the new life's set-up runs only until the catalogue lists the dataset again -
			// loading the partition's raft group and replaying its log is left to race with the first caller
			x.S.KillPrefix("n1/")
			node.Conn.Close()
			// the new life's set-up (catalogue replay: the dataset reappears, its partition's raft group is loaded, the group's
			// log is replayed) and the new life's first client race each other; a client that comes too early is told so
			var node2 *world.RNode
			x.S.Spawn("n1/setup-second", true, func() {
				n := world.NewRNode(1, db, []uint64{1})
				node2 = n
				if err := n.ApplyCreate(meta); err != nil {
					panic(err)
				}
			})
			x.OnCleanup(func() {
				if node2 != nil {
					node2.Conn.Close()
				}
				db.Close()
			})
			var err error
			done, early := false, false
			x.S.Spawn("n1/caller0", true, func() {
				if node2 == nil {
					early = true
					return
				}
				ds, gerr := node2.DM.Get(uuid.FromBytesOrNil(meta.Id))
				if gerr != nil {
					early = true
					return
				}
				err = ds.Remove(context.Background(), ids[2]) // never stored
				done = true
			})
			return func(end vrt.EndReason) *explore.Violation {
				if !done && !early && x.S.Panicked() == nil && node2 != nil {
					// time passes: the group elects its leader (the caller's proposal can go ahead), then the caller's deadlines
					x.S.Spawn("n1/campaign-second", false, func() { node2.Campaign(meta) })
					x.S.Run(defaultPick{}, nil)
				}
				if !done && !early {
					letTimePass(x)
				}
				x.Outcome = fmt.Sprintf("early=%v done=%v err=%v", early, done, err)
				if done && err == nil {
					return &explore.Violation{Key: "outcome-of-a-replayed-entry-delivered-to-a-new-caller", Desc: "after the restart a caller removed an id that was never stored and was told it succeeded: it received the outcome of an entry replayed from the previous life"}
				}
				return nil
			}
		},
	}
}

// scenarioTwoBatches: two callers' batch removals on one partition, each with a stored and an absent id. Each caller must get
// exactly its own absent id back - whatever the order in which the two entries are applied and the callers read their answers.
func scenarioTwoBatches() *explore.Scenario {
	return &explore.Scenario{
		Name:      "E-two-concurrent-batch-removals-on-one-partition",
		Configure: func(s *vrt.Sched) { s.Horizon = 200000; s.DelayBounding = true },
		Build: func(x *explore.Exec) func(vrt.EndReason) *explore.Violation {
			nodes, meta := cluster(x, 1, [][]uint64{{1}}, nil)
			ds := nodes[0].Dataset(meta)
			ix := ds.VerifPartition(0).Index()
			ix.Insert(ids[0], []float32{1}, nil, 0)
			ix.Insert(ids[1], []float32{2}, nil, 0)
			for _, t := range x.S.Timers() {
				t.Stop()
			}
			type res struct {
				errs map[uuid.UUID]error
				snap string
				err  error
				done bool
			}
			rs := make([]*res, 2)
			for c := 0; c < 2; c++ {
				c := c
				rs[c] = &res{}
				stored, absent := ids[c], ids[2+c]
				x.S.Spawn(fmt.Sprintf("n1/caller%d", c), true, func() {
					pid := uuid.FromBytesOrNil(meta.Partitions[0].Id)
					rs[c].errs, rs[c].err = ds.PartitionBatchRemove(context.Background(), pid, []*pb.BatchItem{{Id: stored.Bytes()}, {Id: absent.Bytes()}})
					rs[c].snap = fmt.Sprint(len(rs[c].errs))
					rs[c].done = true
				})
			}
			return func(end vrt.EndReason) *explore.Violation {
				for c := 0; c < 2; c++ {
					if !rs[c].done {
						return &explore.Violation{Key: "caller-never-returns", Desc: strings.Join(x.S.Blocked(), "; ")}
					}
					if rs[c].err != nil {
						return &explore.Violation{Key: "batch-fails-on-healthy-partition", Desc: fmt.Sprint(rs[c].err)}
					}
					absent, otherAbsent, stored := ids[2+c], ids[3-c], ids[c]
					if rs[c].errs[absent] == nil || rs[c].errs[otherAbsent] != nil || rs[c].errs[stored] != nil || len(rs[c].errs) != 1 {
						return &explore.Violation{Key: "batch-outcome-of-another-caller", Desc: fmt.Sprintf("caller %d removed [stored %x, absent %x] and was told %v (its answer had %s entries when it returned) - exactly its own absent id must be reported", c, stored[:2], absent[:2], rs[c].errs, rs[c].snap)}
					}
				}
				x.Outcome = "ok"
				return nil
			}
		},
	}
}

// oneBatch runs one batch through node 1 of a 2-node cluster: partition 0 on node 1, 1 on node 2.
func oneBatch(op string, shape []itemKind, names map[itemKind]string, fault string) (key, desc string) {
	remoteFails := fault != ""
	fakes.Reset()
	vrt.ResetContexts()
	s := vrt.New()
	s.Horizon = 2000000
	s.Begin()
	x := &explore.Exec{S: s}
	var nodes []*world.RNode
	defer func() {
		s.End()
		for _, n := range nodes {
			n.Close()
		}
	}()
	var meta *pb.Dataset
	var knows func(a, b uint64) bool
	if fault == "no-address" {
		// the entry node has no address for the remote partition's node (it left the cluster but is still listed)
		knows = func(a, b uint64) bool { return !(a == 1 && b == 2) }
	}
	nodes, meta = cluster(x, 2, [][]uint64{{1}, {2}}, knows)
	idx := []*index.Hnsw{nodes[0].Dataset(meta).VerifPartition(0).Index(), nodes[1].Dataset(meta).VerifPartition(1).Index()}
	if fault == "rpc-error" {
		fakes.Intercept = func(target, method string, ctx context.Context, req interface{}) (bool, interface{}, error) {
			if target == world.Addr(2) && strings.HasPrefix(method, "PartitionBatch") {
				return true, nil, fakes.ErrUnavailable
			}
			return false, nil, nil
		}
	}
	// existing items: one per partition
	idx[0].Insert(ids[3], []float32{5}, nil, 0)
	idx[1].Insert(ids1[3], []float32{5}, nil, 0)
	ref := map[uuid.UUID]float32{ids[3]: 5, ids1[3]: 5}
	var items []*pb.BatchItem
	wantErr := map[uuid.UUID]string{}
	// items alternate between the local and the remote partition
	for i, k := range shape {
		pool, existing := ids, ids[3]
		if i%2 == 1 {
			pool, existing = ids1, ids1[3]
		}
		var id uuid.UUID
		vec := []float32{float32(10 + i)}
		switch k {
		case kNew:
			id = pool[i]
		case kExisting:
			id = existing
		case kWrongDim:
			id = pool[i]
			vec = []float32{1, 2}
		case kDupOfFirst:
			id = uuid.FromBytesOrNil(items[0].Id)
			vec = append([]float32{}, items[0].Value...)
		}
		items = append(items, &pb.BatchItem{Id: id.Bytes(), Value: vec})
	}
	// reference: wrong-dimension items are rejected up front (insert/update); the rest is applied
	// per partition in order
	for _, it := range items {
		id := uuid.FromBytesOrNil(it.Id)
		if op != "BatchRemove" && len(it.Value) != 1 {
			wantErr[id] = "dimension"
			continue
		}
		if remoteFails && utils.UuidMod(id, 2) == 1 {
			// the remote partition cannot be reached: every one of its items fails, nothing is applied there
			wantErr[id] = "unreachable"
			continue
		}
		_, present := ref[id]
		switch op {
		case "BatchInsert":
			if present {
				wantErr[id] = index.ItemAlreadyExistsError.Error()
			} else {
				ref[id] = it.Value[0]
			}
		case "BatchUpdate":
			if !present {
				wantErr[id] = index.ItemNotFoundError.Error()
			} else {
				ref[id] = it.Value[0]
			}
		case "BatchRemove":
			if !present {
				wantErr[id] = index.ItemNotFoundError.Error()
			} else {
				delete(ref, id)
			}
		}
	}
	var errs map[uuid.UUID]error
	var err error
	done := false
	s.Spawn("n1/caller", true, func() {
		ds := nodes[0].Dataset(meta)
		switch op {
		case "BatchInsert":
			errs, err = ds.BatchInsert(context.Background(), items)
		case "BatchUpdate":
			errs, err = ds.BatchUpdate(context.Background(), items)
		case "BatchRemove":
			errs, err = ds.BatchRemove(context.Background(), items)
		}
		done = true
	})
	s.Run(def{}, nil)
	if t := s.Panicked(); t != nil {
		return "batch-panics", fmt.Sprintf("%v\n%s", t.Panic, t.Stack)
	}
	if !done {
		return "batch-never-returns", strings.Join(s.Blocked(), "; ")
	}
	if err != nil {
		return "batch-call-fails", err.Error()
	}
	var gotKeys, wantKeys []string
	for id, e := range errs {
		if e != nil {
			gotKeys = append(gotKeys, fmt.Sprintf("%x", id[:2]))
		}
	}
	for id := range wantErr {
		wantKeys = append(wantKeys, fmt.Sprintf("%x", id[:2]))
	}
	sort.Strings(gotKeys)
	sort.Strings(wantKeys)
	if fmt.Sprint(gotKeys) != fmt.Sprint(wantKeys) {
		return "batch-error-ids-wrong", fmt.Sprintf("errors reported for ids %v, ids that failed are %v (%v)", gotKeys, wantKeys, errs)
	}
	for id, e := range errs {
		w := wantErr[id]
		if w == "dimension" {
			if !strings.Contains(strings.ToLower(e.Error()), "dimension") {
				return "batch-error-kind-wrong", fmt.Sprintf("id %x: %v, expected a dimension error", id[:2], e)
			}
		} else if w == "unreachable" {
			// any error will do
		} else if e.Error() != w {
			return "batch-error-kind-wrong", fmt.Sprintf("id %x: %v, expected %s", id[:2], e, w)
		}
	}
	// contents
	for pi, ix := range idx {
		pool := ids
		if pi == 1 {
			pool = ids1
		}
		for _, id := range pool {
			vec, gerr := ix.Get(id)
			want, present := ref[id]
			if present != (gerr == nil) || present && (len(vec) != 1 || vec[0] != want) {
				return "batch-contents-wrong", fmt.Sprintf("partition %d id %x holds %v (err %v), reference %v present=%v", pi, id[:2], vec, gerr, want, present)
			}
		}
	}
	return "", ""
}

func clusterSeq(x *explore.Exec, n int, placement [][]uint64) ([]*world.RNode, *pb.Dataset) {
	return cluster(x, n, placement, nil)
}

func main() {
	I := func(id int, v float32) call { return call{"ins", id, v} }
	U := func(id int, v float32) call { return call{"upd", id, v} }
	R := func(id int) call { return call{"rem", id, 0} }
	as := []variantA{
		{name: "one-insert", callers: [][]call{{I(0, 1)}}},
		{name: "one-insert-timer", callers: [][]call{{I(0, 1)}}, timers: true},
		// one caller after another: whatever the first call left behind (an outcome that arrived while it was timing out)
		// must not reach the second
		{name: "insert-twice-one-caller-timer", callers: [][]call{{I(0, 1), I(0, 2)}}, timers: true},
		{name: "insert-then-remove-absent-one-caller-timer", callers: [][]call{{I(0, 1), R(1)}}, timers: true},
		{name: "insert-same-id-twice", callers: [][]call{{I(0, 1)}, {I(0, 2)}}},
		{name: "insert-vs-remove", pre: []call{I(0, 9)}, callers: [][]call{{R(0)}, {I(0, 2)}}},
		{name: "update-vs-remove", pre: []call{I(0, 9)}, callers: [][]call{{U(0, 3)}, {R(0)}}, maxQ: 2},
		{name: "insert-then-update-vs-remove-timer", callers: [][]call{{I(0, 1), U(0, 2)}, {R(0)}}, timers: true, maxQ: 2},
	}
	var scs []*explore.Scenario
	for _, v := range as {
		scs = append(scs, scenarioA(v))
	}
	for _, mode := range []string{"healthy", "unknown-address", "rpc-error", "down"} {
		for _, kind := range []string{"ins", "upd", "rem"} {
			scs = append(scs, scenarioB(variantB{mode + "-" + kind, mode, kind}))
		}
	}
	for _, kind := range []string{"ins", "rem"} {
		for _, dl := range []bool{false, true} {
			scs = append(scs, scenarioD(kind, dl))
		}
	}
	for _, kind := range []string{"ins", "upd", "rem"} {
		scs = append(scs, scenarioDBatch(kind))
	}
	scs = append(scs, scenarioTwoBatches(), scenarioRestart())
	before := func(run *ev.Run) ev.Coverage {
		evals, distinct := batches(run)
		direct := directPartitionBatches(run)
		evals += direct
		distinct += direct
		return ev.Coverage{"evaluations": evals, "distinct_nontrivial": distinct, "traces_validated_against_impl": evals, "batch_shapes": evals,
			"rule": "C: every batch of 1-3 items over {new, existing, wrong dimension, duplicate of the first item} x BatchInsert/Update/Remove on a 2-node cluster (items alternate between a local and a remote partition), error ids and contents vs a reference"}
	}
	explore.Main("C11", scs, explore.Plan{QuickBound: 2, ThoroughBound: 3, QuickBudget: 120 * time.Second, ThoroughBudget: 20 * time.Minute, Shards: 4, Before: before},
		"model_checking", []string{
			"single-replica partition groups (commit needs no peer); the caller's 5 s proposal timer is virtual and fires only as an explored environment deviation; raft tick / snapshot tickers never fire",
			"remote calls are synchronous in-memory invocations of the target node's real handlers",
			"A and B are explored over interleavings (single-caller A: preemption bounding; two-caller A and B: delay bounding); C is a sequential product",
		})
}
