#!/bin/bash
set -u
cd "$(dirname "$0")/../.."
w="${VERIF_WORK:-$PWD/.work/c08.$$}"; mkdir -p "$w"
if ! lib/instr_build.sh harness/c08 "$w/bin" 2> "$w/build.log"; then
  cat "$w/build.log" >&2; echo "TOOL-ERROR: instrumented build failed" >&2; exit 2
fi
[ "${1:-}" = "--warm" ] && exit 0
{ flock -u 9 && exec 9>&-; } 2>/dev/null  # the build is done: release the shared lock on /repo's working tree (.work/repo.lock)
exec "$w/bin" "$@"
