// C08 — index snapshots round-trip exactly for every reachable state and any reader.
//
// E3: every distinct index state reached by the C01 BFS (insert / remove / update /
// save-and-load histories, small M so that tombstones, pruned and dangling links exist) is
// saved (with and without header) and loaded into a fresh and into a used index through
// readers that fragment the stream: whole, one byte at a time, EVERY two-fragment split and
// every split with a zero-length read in between. Plus a product of metadata shapes.
package main

import (
	"bytes"
	"encoding/json"
	"fmt"
	"io"
	"os"
	"runtime"
	"strings"
	"time"

	"anndbverif/idxbfs"
	"anndbverif/idxlib"
	"anndbverif/lib/ev"
	"anndbverif/lib/shard"
	"anndbverif/seq"
	"anndbverif/vrt"
	"anndbverif/world"

	"github.com/marekgalovic/anndb/index"
)

// ---- readers ----

type countingReader struct {
	data     []byte
	pos      int
	plan     func(pos, want int) int // how many bytes to hand out now (0 = a zero-length read)
	afterEOF int
}

func (r *countingReader) Read(p []byte) (int, error) {
	if len(p) == 0 {
		return 0, nil
	}
	if r.pos >= len(r.data) {
		r.afterEOF++
		return 0, io.EOF
	}
	n := r.plan(r.pos, len(p))
	if n > len(p) {
		n = len(p)
	}
	if n > len(r.data)-r.pos {
		n = len(r.data) - r.pos
	}
	copy(p, r.data[r.pos:r.pos+n])
	r.pos += n
	return n, nil
}

type readerSpec struct {
	name string
	plan func(pos, want int) int
}

func readers(n int, allSplits bool) []readerSpec {
	rs := []readerSpec{
		{"whole", func(pos, want int) int { return want }},
		{"one-byte", func(pos, want int) int { return 1 }},
		{"whole-then-more-data", func(pos, want int) int { return want }},
	}
	if allSplits {
		for s := 1; s < n; s++ {
			s := s
			rs = append(rs, readerSpec{fmt.Sprintf("split@%d", s), func(pos, want int) int {
				if pos < s && pos+want > s {
					return s - pos
				}
				return want
			}})
		}
		for s := 1; s < n; s += 1 {
			s := s
			zero := false
			rs = append(rs, readerSpec{fmt.Sprintf("split@%d+zero-read", s), func(pos, want int) int {
				if pos < s && pos+want > s {
					return s - pos
				}
				if pos == s && !zero {
					zero = true
					return 0
				}
				return want
			}})
		}
	}
	return rs
}

// ---- comparison ----

// liveDump is the part of the dump the property compares: live items, live links, entry point.
func liveDump(d index.VerifDumpT) string {
	var sb strings.Builder
	fmt.Fprintf(&sb, "len%d data%d size%d ", d.Len, d.DataBytes, d.BytesSize)
	if d.EntrypointNil {
		sb.WriteString("ep=nil")
	} else {
		fmt.Fprintf(&sb, "ep=%x", d.Entrypoint[:2])
	}
	for _, v := range d.Vertices {
		fmt.Fprintf(&sb, "|%x %v l%d m%d:", v.Id[:2], v.Vector, v.Level, len(v.Metadata))
		mk := make([]string, 0, len(v.Metadata))
		for k, val := range v.Metadata {
			mk = append(mk, fmt.Sprintf("%q=%q", k, val))
		}
		sortStrings(mk)
		if len(mk) > 8 {
			sb.WriteString(fmt.Sprintf("%d keys hash %x", len(mk), hashStrings(mk)))
		} else {
			sb.WriteString(strings.Join(mk, ","))
		}
		for l, es := range v.Edges {
			fmt.Fprintf(&sb, " L%d[", l)
			for _, e := range es {
				if e.Deleted {
					continue
				}
				fmt.Fprintf(&sb, "%x:%v ", e.To[:2], e.Distance)
			}
			sb.WriteString("]")
		}
	}
	return sb.String()
}

func sortStrings(s []string) {
	for i := 1; i < len(s); i++ {
		for j := i; j > 0 && s[j] < s[j-1]; j-- {
			s[j], s[j-1] = s[j-1], s[j]
		}
	}
}

func hashStrings(s []string) uint64 {
	var h uint64 = 1469598103934665603
	for _, x := range s {
		for i := 0; i < len(x); i++ {
			h = (h ^ uint64(x[i])) * 1099511628211
		}
	}
	return h
}

func usedTarget(cfg idxbfs.Config) *index.Hnsw { return usedTargetDim(cfg, 2) }

// wide pads a 2-component vector to dim components with a non-repeating tail (so that a block copied to the wrong
// place shows).
func wide(v []float32, dim int) []float32 {
	out := make([]float32, dim)
	for i := range out {
		if i < len(v) {
			out[i] = v[i]
		} else {
			out[i] = float32(i)*0.25 + v[0]
		}
	}
	return out
}

func usedTargetDim(cfg idxbfs.Config, dim int) *index.Hnsw {
	t := index.NewHnsw(uint(dim), idxlib.Space(cfg.Space), cfg.Options()...)
	t.Insert(idxlib.IDs[0], wide([]float32{4, 1}, dim), index.Metadata{"old": "value"}, 1)
	t.Insert(idxlib.IDs[5], wide([]float32{2, 2}, dim), nil, 0)
	t.Insert(idxlib.IDs[1], wide([]float32{3, 3}, dim), nil, 0)
	t.Remove(idxlib.IDs[1])
	return t
}

// checkDims round-trips small indexes of other dimensions than the BFS uses (1 .. 515: below, at and above every
// power of two up to 512 - any blocking of the vector encoding has its boundary there).
func checkDims(cfg idxbfs.Config) (string, string, int) {
	n := 0
	for _, dim := range []int{1, 3, 7, 8, 9, 31, 32, 33, 63, 64, 65, 127, 128, 129, 200, 255, 256, 257, 511, 512, 515} {
		ix := index.NewHnsw(uint(dim), idxlib.Space(cfg.Space), cfg.Options()...)
		for i, v := range [][]float32{{1, 1}, {2, 1}, {3, 3}} {
			if err := ix.Insert(idxlib.IDs[i], wide(v, dim), index.Metadata{"i": fmt.Sprint(i)}, i%2); err != nil {
				return "insert-error", fmt.Sprintf("dimension %d: %v", dim, err), n
			}
		}
		ix.Remove(idxlib.IDs[1])
		n++
		if k, d := roundTripDim(cfg, ix, false, dim); k != "" {
			return k + fmt.Sprintf(":dimension-%d", dim), fmt.Sprintf("dimension %d: %s", dim, d), n
		}
	}
	return "", "", n
}

var counters = struct{ Loads, Splits int }{}

// roundTrip checks every (header, target, reader) combination for one index state.
func roundTrip(cfg idxbfs.Config, ix *index.Hnsw, allSplits bool) (string, string) {
	return roundTripDim(cfg, ix, allSplits, 2)
}

func roundTripDim(cfg idxbfs.Config, ix *index.Hnsw, allSplits bool, dim int) (string, string) {
	before := liveDump(ix.VerifDump())
	for _, header := range []bool{false, true} {
		var buf bytes.Buffer
		if err := ix.Save(&buf, header); err != nil {
			return "save-error", fmt.Sprintf("Save(header=%v): %v", header, err)
		}
		data := buf.Bytes()
		for _, target := range []string{"fresh", "used"} {
			for _, rs := range readers(len(data), allSplits && !header) {
				var t *index.Hnsw
				other := idxbfs.Config{Space: "manhattan", M: 3, Ef: 7, EfC: 9}
				switch {
				case target == "used":
					t = usedTargetDim(cfg, dim)
				case header:
					t = index.NewHnsw(uint(dim+3), idxlib.Space(other.Space), other.Options()...) // the header must override all of this
				default:
					t = index.NewHnsw(uint(dim), idxlib.Space(cfg.Space), cfg.Options()...)
				}
				r := &countingReader{data: data, plan: rs.plan}
				if rs.name == "whole-then-more-data" {
					if ix.Len() == 0 {
						continue // the encoding of an empty index (nothing after the optional header) is not self-delimiting: nothing may follow it
					}
					// the snapshot is followed by other data in the same stream (a generous reader hands out as much as asked)
					r.data = append(append([]byte{}, data...), bytes.Repeat([]byte{0xEE}, 6000)...)
				}
				var m0, m1 runtime.MemStats
				runtime.ReadMemStats(&m0)
				err, pan := load(t, r, header)
				runtime.ReadMemStats(&m1)
				counters.Loads++
				where := fmt.Sprintf("Save(header=%v) -> %d bytes -> Load into %s index through reader %s", header, len(data), target, rs.name)
				if pan != nil {
					return "load-panic:" + readerClass(rs.name), fmt.Sprintf("%s panicked: %v", where, pan)
				}
				if err != nil {
					return "load-error:" + readerClass(rs.name), fmt.Sprintf("%s failed: %v", where, err)
				}
				if r.pos != len(data) {
					return "stream-not-consumed-exactly", fmt.Sprintf("%s consumed %d bytes, the snapshot has %d", where, r.pos, len(data))
				}
				after := liveDump(t.VerifDump())
				if after != before {
					return "state-differs:" + target + ":" + readerClass(rs.name), fmt.Sprintf("%s:\n  saved : %s\n  loaded: %s", where, before, after)
				}
				if alloc := m1.TotalAlloc - m0.TotalAlloc; alloc > 64*uint64(len(data))+64<<10 {
					return "load-allocation", fmt.Sprintf("%s allocated %d bytes", where, alloc)
				}
			}
		}
	}
	return "", ""
}

func readerClass(n string) string {
	if strings.HasPrefix(n, "split") {
		return "fragmented-reader"
	}
	return n
}

func load(t *index.Hnsw, r io.Reader, header bool) (err error, pan interface{}) {
	defer func() {
		if x := recover(); x != nil {
			pan = x
		}
	}()
	return t.Load(r, header), nil
}

// ---- metadata shapes ----

type shape struct {
	Name string
	Meta index.Metadata
}

func shapes() []shape {
	many := index.Metadata{}
	for i := 0; i < 300; i++ {
		many[fmt.Sprintf("key-%03d", i)] = fmt.Sprintf("v%d", i)
	}
	return []shape{
		{"none", nil},
		{"empty-map", index.Metadata{}},
		{"one-key", index.Metadata{"k": "v"}},
		{"empty-key-and-value", index.Metadata{"": ""}},
		{"300-keys", many},
		{"key-255-bytes", index.Metadata{strings.Repeat("k", 255): "v"}},
		{"key-256-bytes", index.Metadata{strings.Repeat("k", 256): "v"}},
		{"value-65535-bytes", index.Metadata{"k": strings.Repeat("v", 65535)}},
		{"value-65536-bytes", index.Metadata{"k": strings.Repeat("v", 65536)}},
		{"non-utf8", index.Metadata{"\xff\xfe": "\x00\x80\xc3"}},
		// multi-byte text: the format counts bytes, a limit counted in characters would let these through
		{"key-85-cjk-chars-255-bytes", index.Metadata{strings.Repeat("\u65e5", 85): "v"}},
		{"key-86-cjk-chars-258-bytes", index.Metadata{strings.Repeat("\u65e5", 86): "v"}},
		{"key-128-accented-chars-256-bytes", index.Metadata{strings.Repeat("\u00e9", 128): "v"}},
		{"value-21845-cjk-chars-65535-bytes", index.Metadata{"k": strings.Repeat("\u65e5", 21845)}},
		{"value-21846-cjk-chars-65538-bytes", index.Metadata{"k": strings.Repeat("\u65e5", 21846)}},
	}
}

func checkShapes(cfg idxbfs.Config, only string) (string, string, string) {
	for _, s := range shapes() {
		if only != "" && s.Name != only {
			continue
		}
		ix := index.NewHnsw(2, idxlib.Space(cfg.Space), cfg.Options()...)
		e1 := ix.Insert(idxlib.IDs[0], []float32{1, 1}, s.Meta, 0)
		e2 := ix.Insert(idxlib.IDs[1], []float32{2, 1}, index.Metadata{"z": "1"}, 1)
		if e1 != nil || e2 != nil {
			// the index may refuse metadata its snapshot format cannot represent; then that state is
			// not reachable and there is nothing to round-trip
			continue
		}
		small := len(s.Meta) < 10 && !strings.Contains(s.Name, "655")
		if k, d := roundTrip(cfg, ix, small); k != "" {
			return k + ":metadata-" + s.Name, "metadata shape " + s.Name + ": " + d, s.Name
		}
	}
	return "", "", ""
}

type result struct {
	St         seq.Stats
	Loads      int
	Violations []struct {
		Key, Desc string
		Path      []idxbfs.Op
		Cfg       idxbfs.Config
	}
}

func main() {
	world.Quiet()
	cfgs := []idxbfs.Config{
		{Space: "euclidean", M: 1, Ef: 1, EfC: 1},
		{Space: "cosine", M: 2, Ef: 2, EfC: 4, Heuristic: true, Extend: true},
	}
	if len(os.Args) > 2 && os.Args[1] == "--replay" {
		var f struct {
			Replay struct {
				Cfg   idxbfs.Config `json:"config"`
				Ops   []idxbfs.Op   `json:"ops"`
				Shape string        `json:"shape"`
			} `json:"replay"`
		}
		b, err := os.ReadFile(os.Args[2])
		if err != nil {
			ev.Tool("%v", err)
		}
		json.Unmarshal(b, &f)
		var k, d string
		if bytes.Contains(b, []byte(`"dims": true`)) {
			k, d, _ = checkDims(f.Replay.Cfg)
		} else if f.Replay.Shape != "" {
			k, d, _ = checkShapes(f.Replay.Cfg, f.Replay.Shape)
		} else {
			w, _, _ := idxbfs.Build(f.Replay.Cfg, f.Replay.Ops)
			k, d = roundTrip(f.Replay.Cfg, w.Ix, true)
		}
		if k != "" {
			fmt.Printf("VIOLATION property=%s replay=%s\n  %s: %s\n", ev.As("C08"), os.Args[2], k, d)
			os.Exit(1)
		}
		fmt.Println("replay: property held")
		return
	}
	thorough := os.Getenv("VERIF_TIER") == "thorough"
	depth, splitDepth, budget := 4, 2, 100*time.Second
	if thorough {
		depth, splitDepth, budget = 5, 4, 25*time.Minute
		cfgs = append(cfgs, idxbfs.Config{Space: "manhattan", M: 1, Ef: 2, EfC: 2, Heuristic: true, KeepPruned: true})
	}
	if si, sn, ok := shard.Child(); ok {
		var res result
		for _, cfg := range cfgs {
			c := cfg
			st := seq.BFS(seq.Config[*idxbfs.World, idxbfs.Op]{
				Depth: depth, Workers: 1, Deadline: time.Now().Add(budget), HangCPU: 20 * time.Second,
				Build: func(wi int, path []idxbfs.Op) (*idxbfs.World, string, string) {
					vrt.InactiveMapPolicy = 0
					w, k, d := idxbfs.Build(c, path)
					if k != "" {
						return w, "c01:" + k, d // C01's business; not extended, not reported here
					}
					if k, d := roundTrip(c, w.Ix, len(path) <= splitDepth); k != "" {
						return w, k, d
					}
					return w, "", ""
				},
				Enabled:    idxbfs.Enabled,
				Canon:      func(w *idxbfs.World) string { return idxlib.DumpKey(w.Ix.VerifDump()) },
				RootFilter: func(i int, o idxbfs.Op) bool { return i%sn == si },
				OnViolation: func(key, desc string, path []idxbfs.Op) {
					if strings.HasPrefix(key, "c01:") {
						return
					}
					res.Violations = append(res.Violations, struct {
						Key, Desc string
						Path      []idxbfs.Op
						Cfg       idxbfs.Config
					}{key, desc, path, c})
				},
			})
			res.St.States += st.States
			res.St.Transitions += st.Transitions
			if res.St.Outcomes == nil {
				res.St.Outcomes = map[string]int{}
				res.St.Complete = true
				res.St.DepthCompleted = depth
			}
			for k, v := range st.Outcomes {
				res.St.Outcomes[k] += v
			}
			res.St.Complete = res.St.Complete && st.Complete
			if st.DepthCompleted < res.St.DepthCompleted {
				res.St.DepthCompleted = st.DepthCompleted
			}
			if st.Hung {
				shard.Emit(res) // reported; the call is still running on a leaked goroutine
				os.Exit(0)
			}
		}
		if si == 0 {
			// directed histories deeper than the BFS: states in which a live item still carries a link to a REMOVED
			// object whose id has been stored again since (pruning leaves a one-directional link, the target is
			// removed, the same id is inserted or updated afterwards). Found by a search over random histories for
			// exactly this shape of state; kept as fixed cases.
			I := func(id, vec, lvl int) idxbfs.Op { return idxbfs.Op{Kind: "ins", ID: id, Vec: vec, Level: lvl} }
			U := func(id, vec int) idxbfs.Op { return idxbfs.Op{Kind: "upd", ID: id, Vec: vec} }
			R := func(id int) idxbfs.Op { return idxbfs.Op{Kind: "rem", ID: id} }
			for _, dc := range []struct {
				cfg  idxbfs.Config
				path []idxbfs.Op
			}{
				{idxbfs.Config{Space: "euclidean", M: 1, Ef: 2, EfC: 3}, []idxbfs.Op{I(0, 3, 1), I(3, 5, 0), I(2, 3, 0), I(4, 3, 0), R(4), U(0, 0)}},
				{idxbfs.Config{Space: "euclidean", M: 1, Ef: 1, EfC: 1}, []idxbfs.Op{I(3, 5, 1), I(1, 1, 1), I(4, 2, 1), I(2, 5, 1), U(1, 4), U(1, 4)}},
				{idxbfs.Config{Space: "euclidean", M: 1, Ef: 1, EfC: 1}, []idxbfs.Op{I(4, 2, 1), I(0, 3, 1), I(3, 0, 1), I(1, 3, 1), R(1), U(0, 0), I(1, 2, 0)}},
				{idxbfs.Config{Space: "euclidean", M: 1, Ef: 2, EfC: 3}, []idxbfs.Op{I(1, 1, 0), I(0, 5, 0), I(4, 0, 1), I(3, 4, 1), U(1, 5), R(1), I(1, 3, 0), I(0, 2, 1)}},
				// a second shape (the shortest histories that reach it, found by tools/epsearch): the entry point is a
				// live item BELOW the highest stored level - the removed entry point's upper-level links all pointed
				// at tombstones, so the hand-over went to a level-0 neighbour while a level-1 item is still stored
				{idxbfs.Config{Space: "euclidean", M: 1, Ef: 1, EfC: 1}, []idxbfs.Op{I(0, 0, 0), I(1, 0, 1), I(2, 0, 1), I(3, 1, 1), R(2), R(1)}},
				{idxbfs.Config{Space: "euclidean", M: 1, Ef: 1, EfC: 1}, []idxbfs.Op{I(0, 0, 0), I(1, 0, 1), I(2, 0, 1), I(3, 2, 1), R(2), R(1)}},
				{idxbfs.Config{Space: "euclidean", M: 1, Ef: 1, EfC: 1}, []idxbfs.Op{I(0, 0, 0), I(1, 0, 1), I(2, 0, 1), I(3, 0, 1), R(3), R(1)}},
			} {
				vrt.InactiveMapPolicy = 0
				w, k, _ := idxbfs.Build(dc.cfg, dc.path)
				res.St.Transitions++
				if k != "" {
					continue // C01's business
				}
				stale := false
				d := w.Ix.VerifDump()
				live := map[string]bool{}
				for _, v := range d.Vertices {
					live[string(v.Id[:])] = true
				}
				for _, v := range d.Vertices {
					for _, es := range v.Edges {
						for _, e := range es {
							stale = stale || (e.Deleted && live[string(e.To[:])])
						}
					}
				}
				top := 0
				for _, v := range d.Vertices {
					if v.Level > top {
						top = v.Level
					}
				}
				switch {
				case stale:
					res.St.Outcomes["directed: live item links a removed object whose id is stored again"]++
				case !d.EntrypointNil && d.EntrypointLive && !d.EntrypointDel && d.EntrypointLevel < top:
					res.St.Outcomes["directed: live entry point below the highest stored level"]++
				default:
					res.St.Outcomes["directed: state shape not reached"]++
				}
				if k, d := roundTrip(dc.cfg, w.Ix, true); k != "" {
					res.Violations = append(res.Violations, struct {
						Key, Desc string
						Path      []idxbfs.Op
						Cfg       idxbfs.Config
					}{k + ":directed-state-shape", d, dc.path, dc.cfg})
				}
			}
		}
		if len(res.Violations) > 30 {
			res.Violations = res.Violations[:30]
		}
		res.Loads = counters.Loads
		shard.Emit(res)
		return
	}
	if len(os.Args) > 2 && os.Args[1] == "--shape" {
		k, d, _ := checkShapes(cfgs[0], os.Args[2])
		shard.Emit(map[string]interface{}{"key": k, "desc": d, "loads": counters.Loads})
		return
	}
	run := ev.Start("C08", "model_checking")
	// metadata shape product: one memory-limited subprocess per shape (a desynchronised stream
	// may make Load allocate by a number read from the stream)
	shapeLoads := 0
	for _, s := range shapes() {
		raw, tail, _ := shard.RunOne("--shape", s.Name)
		if raw == nil {
			run.Violation("load-kills-process:metadata-"+s.Name, "round trip of metadata shape "+s.Name+" killed the process (memory limit 6 GiB): "+tail,
				map[string]interface{}{"config": cfgs[0], "shape": s.Name})
			continue
		}
		var r struct {
			Key, Desc string
			Loads     int
		}
		json.Unmarshal(raw, &r)
		shapeLoads += r.Loads
		if r.Key != "" {
			run.Violation(r.Key, r.Desc, map[string]interface{}{"config": cfgs[0], "shape": s.Name})
		}
	}
	// dimensions other than the BFS's 2
	dimIndexes := 0
	for _, cfg := range cfgs[:1] {
		k, d, nd := checkDims(cfg)
		dimIndexes += nd
		if k != "" {
			run.Violation(k, d, map[string]interface{}{"config": cfg, "dims": true})
		}
	}
	const n = 16
	total := seq.Stats{Outcomes: map[string]int{}, Complete: true, DepthCompleted: depth}
	loads := 0
	shard.OnDeath = func(i int, tail string) {
		total.Complete = false
		key := "load-kills-process"
		if !strings.Contains(tail, "out of memory") {
			key = "worker-died"
		}
		run.Violation(key, fmt.Sprintf("worker %d died while round-tripping index states (memory limit 6 GiB): %s", i, tail), map[string]interface{}{"shard": i})
	}
	shard.Run(n, n, nil, func(i int, raw []byte) error {
		var r result
		if err := json.Unmarshal(raw, &r); err != nil {
			return err
		}
		total.States += r.St.States
		total.Transitions += r.St.Transitions
		total.Complete = total.Complete && r.St.Complete
		if r.St.DepthCompleted < total.DepthCompleted {
			total.DepthCompleted = r.St.DepthCompleted
		}
		for k, v := range r.St.Outcomes {
			total.Outcomes[k] += v
		}
		loads += r.Loads
		for _, v := range r.Violations {
			run.Violation(v.Key, v.Desc, map[string]interface{}{"config": v.Cfg, "ops": v.Path})
		}
		return nil
	})
	run.Assumptions = []string{
		"states = those of the C01 alphabet (ids {a..d}, 6-point grid, levels 0..2, 3 metadata shapes) for two small-M configurations, plus a product of 10 metadata shapes on a 2-item index",
		"every two-fragment split (and split + zero-length read) for streams of states up to depth " + fmt.Sprint(splitDepth) + " without header; whole and one-byte readers for all states and with header",
		"allocation bound during Load: 64*|bytes| + 64 KiB (TotalAlloc delta, single-threaded worker)",
		"directed: 3-item indexes (one removed) of dimensions 1..515 (below, at and above every power of two up to 512) round-tripped with and without header into fresh / other-dimension / used targets",
	}
	run.Finish(ev.Coverage{
		"states":                        total.States,
		"transitions":                   total.Transitions,
		"traces_validated_against_impl": loads + shapeLoads,
		"evaluations":                   loads + shapeLoads,
		"distinct_nontrivial":           total.States,
		"rule":                          "BFS over index histories; in every reached state: Save x {header,no header} x Load into {fresh, used} x readers {whole, 1-byte, every split, every split+zero read}; one evaluation = one Load; distinct = canonical dump of the saved state",
		"depth":                         depth,
		"depth_completed":               total.DepthCompleted,
		"loads":                         loads + shapeLoads,
		"other_dimension_indexes":       dimIndexes,
		"outcome_classes":               total.Outcomes,
		"samples":                       []interface{}{"euclidean M=1: I a[1 1]@0; I b[2 1]@1; R a -> Save(no header) -> every split of the stream -> Load into used index", fmt.Sprintf("%d metadata shapes on a 2-item index", len(shapes()))},
		"exhaustive":                    total.Complete,
	})
}
