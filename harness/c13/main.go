// C13 — the index is safe under concurrent inserts, removals and searches.
//
// E1: the real index.Hnsw (instrumented: every lock AND every atomic operation is a scheduling
// point) under the cooperative scheduler, 2-3 threads with 1-2 operations each on colliding
// ids; every interleaving up to a deviation bound. Oracles per execution: no panic, no
// deadlock, per-id linearizability of Insert/Remove/Get against a set model (porcupine),
// every search result live at some instant of the search with the matching score, and at
// quiescence Len == live ids and the C01 search clauses.
// The data-race clause is a SEPARATE free-running -race pass over the same bodies (sampling).
package main

import (
	"context"
	"fmt"
	"os"
	"sort"
	"strings"
	"sync"
	"time"

	"anndbverif/explore"
	"anndbverif/idxlib"
	"anndbverif/lib/ev"
	"anndbverif/lib/racepass"
	"anndbverif/vrt"
	"anndbverif/world"

	"github.com/anishathalye/porcupine"
	"github.com/marekgalovic/anndb/index"
	uuid "github.com/satori/go.uuid"
)

type opSpec struct {
	Kind  string // ins rem get len search
	ID    int
	Vec   int
	Level int
}

type scenario struct {
	name    string
	m       int
	heur    bool
	pre     []opSpec   // sequential prefix building the index
	threads [][]opSpec // concurrent part
	maxQ    int
}

type rec struct {
	thread    int
	op        opSpec
	call, ret int64
	err       error
	res       index.SearchResult
	n         int
}

func vecOf(i int) []float32 { return idxlib.Grid[i%len(idxlib.Grid)] }

// runBody executes the scenario's threads; used by the explorer (spawn = owned threads) and by
// the race pass (spawn = plain goroutines).
func runBody(sc scenario, ix *index.Hnsw, now func() int64, spawn func(name string, f func())) *[]rec {
	var mu sync.Mutex
	recs := &[]rec{}
	cctx, cancel := newCancellable()
	for ti, ops := range sc.threads {
		ti, ops := ti, ops
		spawn(fmt.Sprintf("t%d", ti), func() {
			for _, o := range ops {
				r := rec{thread: ti, op: o, call: now()}
				switch o.Kind {
				case "ins":
					r.err = ix.Insert(idxlib.IDs[o.ID], append([]float32{}, vecOf(o.Vec)...), index.Metadata{"v": fmt.Sprint(o.Vec)}, o.Level)
				case "rem":
					r.err = ix.Remove(idxlib.IDs[o.ID])
				case "get":
					_, r.err = ix.Get(idxlib.IDs[o.ID])
				case "len":
					r.n = ix.Len()
				case "search":
					r.res, r.err = ix.Search(context.Background(), idxlib.Queries[1], 3)
				case "csearch":
					// a search whose caller may go away in the middle of it (the scenario's cancellable context)
					r.res, r.err = ix.Search(cctx, idxlib.Queries[1], 3)
				case "cancel":
					cancel()
				}
				r.ret = now()
				mu.Lock()
				*recs = append(*recs, r)
				mu.Unlock()
			}
		})
	}
	return recs
}

// newCancellable makes the context of the "csearch" / "cancel" operations: the scheduler's own under exploration,
// the standard one in the free-running race pass (set in racePass).
var newCancellable = func() (context.Context, context.CancelFunc) { return vrt.WithCancel(context.Background()) }

func newIndex(sc scenario) (*index.Hnsw, map[int]int) {
	opts := []index.HnswOption{index.HnswM(sc.m), index.HnswEf(3), index.HnswEfConstruction(3)}
	if sc.heur {
		opts = append(opts, index.HnswSearchAlgorithm(index.HnswSearchHeuristic), index.HnswHeuristicExtendCandidates(true))
	}
	ix := index.NewHnsw(2, idxlib.Space("euclidean"), opts...)
	pre := map[int]int{} // id -> vec index of pre-built items
	for _, o := range sc.pre {
		switch o.Kind {
		case "ins":
			if err := ix.Insert(idxlib.IDs[o.ID], append([]float32{}, vecOf(o.Vec)...), index.Metadata{"v": fmt.Sprint(o.Vec)}, o.Level); err != nil {
				panic(err)
			}
			pre[o.ID] = o.Vec
		case "rem":
			ix.Remove(idxlib.IDs[o.ID])
			delete(pre, o.ID)
		}
	}
	return ix, pre
}

// ---- set model for porcupine ----

type setIn struct {
	kind string
	id   int
}
type setOut struct{ ok bool }

var setModel = porcupine.Model{
	Partition: func(history []porcupine.Operation) [][]porcupine.Operation {
		m := map[int][]porcupine.Operation{}
		for _, o := range history {
			id := o.Input.(setIn).id
			m[id] = append(m[id], o)
		}
		var keys []int
		for k := range m {
			keys = append(keys, k)
		}
		sort.Ints(keys)
		var out [][]porcupine.Operation
		for _, k := range keys {
			out = append(out, m[k])
		}
		return out
	},
	Init: func() interface{} { return false },
	Step: func(state, input, output interface{}) (bool, interface{}) {
		present := state.(bool)
		in, out := input.(setIn), output.(setOut)
		switch in.kind {
		case "init":
			return true, true
		case "ins":
			if out.ok {
				return !present, true
			}
			return present, present
		case "rem":
			if out.ok {
				return present, false
			}
			return !present, present
		case "get":
			return out.ok == present, present
		}
		return false, state
	},
	Equal: func(a, b interface{}) bool { return a == b },
}

func checkExecution(sc scenario, ix *index.Hnsw, pre map[int]int, recs []rec) *explore.Violation {
	// 1. per-id linearizability of insert / remove / get
	var hist []porcupine.Operation
	for id := range pre {
		hist = append(hist, porcupine.Operation{ClientId: 9, Input: setIn{"init", id}, Call: -2, Output: setOut{true}, Return: -1})
	}
	for _, r := range recs {
		switch r.op.Kind {
		case "ins", "rem", "get":
			if r.err != nil && r.err != index.ItemAlreadyExistsError && r.err != index.ItemNotFoundError {
				return &explore.Violation{Key: "unexpected-error", Desc: fmt.Sprintf("%v returned %v", r.op, r.err)}
			}
			hist = append(hist, porcupine.Operation{ClientId: r.thread, Input: setIn{r.op.Kind, r.op.ID}, Call: r.call, Output: setOut{r.err == nil}, Return: r.ret})
		}
	}
	if !porcupine.CheckOperations(setModel, hist) {
		return &explore.Violation{Key: "not-linearizable-as-a-set", Desc: "insert/remove/get outcomes have no per-id linearization: " + describe(recs)}
	}
	// 2. final contents: per id, enumerate every linearization consistent with real time and the
	// set model; the index must end in one of the reachable final states (present with which
	// vector / absent)
	ref := idxlib.Ref{}
	type ver struct {
		vec        int
		from, till int64 // possible liveness window (conservative)
	}
	versions := map[int][]ver{}
	ids := map[int]bool{}
	for id := range pre {
		ids[id] = true
	}
	for _, r := range recs {
		if r.op.Kind == "ins" || r.op.Kind == "rem" || r.op.Kind == "get" {
			ids[r.op.ID] = true
		}
	}
	for id := range ids {
		var ops []rec
		for _, r := range recs {
			if r.op.ID == id && (r.op.Kind == "ins" || r.op.Kind == "rem" || r.op.Kind == "get") {
				ops = append(ops, r)
			}
		}
		initVec, initPresent := pre[id]
		finals := map[int]bool{} // vec index, -1 = absent
		var rec2 func(done uint, present bool, vec int)
		rec2 = func(done uint, present bool, vec int) {
			if done == 1<<uint(len(ops))-1 {
				if present {
					finals[vec] = true
				} else {
					finals[-1] = true
				}
				return
			}
			for i, o := range ops {
				if done&(1<<uint(i)) != 0 {
					continue
				}
				// o may be next only if no other pending op returned before o was called
				okNext := true
				for j, q := range ops {
					if j != i && done&(1<<uint(j)) == 0 && q.ret < o.call {
						okNext = false
					}
				}
				if !okNext {
					continue
				}
				switch o.op.Kind {
				case "ins":
					if o.err == nil && !present {
						rec2(done|1<<uint(i), true, o.op.Vec)
					} else if o.err != nil && present {
						rec2(done|1<<uint(i), present, vec)
					}
				case "rem":
					if o.err == nil && present {
						rec2(done|1<<uint(i), false, -1)
					} else if o.err != nil && !present {
						rec2(done|1<<uint(i), present, vec)
					}
				case "get":
					if (o.err == nil) == present {
						rec2(done|1<<uint(i), present, vec)
					}
				}
			}
		}
		rec2(0, initPresent, initVec)
		if len(finals) == 0 {
			return &explore.Violation{Key: "not-linearizable-as-a-set", Desc: fmt.Sprintf("no linearization for id %s: %s", idxlib.Name(idxlib.IDs[id]), describe(recs))}
		}
		// actual final state of this id
		got := -1
		if v, err := ix.Get(idxlib.IDs[id]); err == nil {
			got = -2
			for cand := range finals {
				if cand >= 0 && fmt.Sprint([]float32(v)) == fmt.Sprint(vecOf(cand)) {
					got = cand
				}
			}
			if got == -2 {
				return &explore.Violation{Key: "final-state-not-reachable-by-any-linearization", Desc: fmt.Sprintf("id %s ends with vector %v, possible final states %v: %s", idxlib.Name(idxlib.IDs[id]), v, finals, describe(recs))}
			}
			ref[idxlib.IDs[id]] = &idxlib.Item{Vec: vecOf(got), Meta: map[string]string{"v": fmt.Sprint(got)}}
		} else if !finals[-1] {
			return &explore.Violation{Key: "final-state-not-reachable-by-any-linearization", Desc: fmt.Sprintf("id %s ends absent, possible final states %v: %s", idxlib.Name(idxlib.IDs[id]), finals, describe(recs))}
		}
		// conservative liveness windows for the search clause
		maxRemRet := func(from int64) int64 {
			m := int64(-1)
			for _, o := range ops {
				if o.op.Kind == "rem" && o.err == nil && o.ret >= from && o.ret > m {
					m = o.ret
				}
			}
			return m
		}
		addVer := func(vec int, from int64) {
			till := maxRemRet(from)
			if finals[vec] || till < 0 {
				till = 1 << 60
			}
			versions[id] = append(versions[id], ver{vec, from, till})
		}
		if initPresent {
			addVer(initVec, -2)
		}
		for _, o := range ops {
			if o.op.Kind == "ins" && o.err == nil {
				addVer(o.op.Vec, o.call)
			}
		}
	}
	if ix.Len() != len(ref) {
		return &explore.Violation{Key: "count-mismatch-at-quiescence", Desc: fmt.Sprintf("Len()=%d after all operations returned, %d live ids: %s", ix.Len(), len(ref), describe(recs))}
	}
	// 2b. a count read in mid-flight lies between the ids that were certainly stored during the whole read and the ids
	// that may have been (every counter update happens inside the window of the operation that causes it)
	for _, r := range recs {
		if r.op.Kind != "len" {
			continue
		}
		lo, hi := 0, 0
		for id := 0; id < 6; id++ {
			_, initPresent := pre[id]
			certainly, possibly := initPresent, initPresent
			for _, o := range recs {
				if o.op.ID != id {
					continue
				}
				if o.op.Kind == "ins" && o.err == nil {
					if o.ret < r.call {
						certainly = true
					}
					if o.call <= r.ret {
						possibly = true
					}
				}
			}
			for _, o := range recs {
				if o.op.ID == id && o.op.Kind == "rem" && o.err == nil && o.call <= r.ret {
					certainly = false
				}
			}
			if certainly {
				lo++
			}
			if possibly {
				hi++
			}
		}
		if r.n < lo || r.n > hi {
			return &explore.Violation{Key: "count-out-of-range-mid-flight", Desc: fmt.Sprintf("Len()=%d read during [%d,%d]: between %d and %d ids were stored: %s", r.n, r.call, r.ret, lo, hi, describe(recs))}
		}
	}
	// 3. every search result was live at some instant of the search, with the matching score
	sp := idxlib.Space("euclidean")
	for _, r := range recs {
		if r.op.Kind != "search" && r.op.Kind != "csearch" {
			continue
		}
		if r.op.Kind == "csearch" && r.err == context.Canceled {
			continue // the caller went away: no answer is an answer
		}
		if r.err != nil {
			return &explore.Violation{Key: "search-error", Desc: fmt.Sprint(r.err)}
		}
		seen := map[uuid.UUID]bool{}
		for _, it := range r.res {
			if seen[it.Id] {
				return &explore.Violation{Key: "search-duplicate-id", Desc: fmt.Sprintf("concurrent search returned %s twice: %s", idxlib.Name(it.Id), describe(recs))}
			}
			seen[it.Id] = true
			ok := false
			for id, vs := range versions {
				if idxlib.IDs[id] != it.Id {
					continue
				}
				for _, v := range vs {
					if v.from <= r.ret && v.till >= r.call && it.Score == sp.Distance(idxlib.Queries[1], vecOf(v.vec)) {
						ok = true
					}
				}
			}
			if !ok {
				return &explore.Violation{Key: "search-returned-item-never-live-during-search:" + idxlib.Cause(ix.VerifDump()) + overlap(recs), Desc: fmt.Sprintf("search [%d,%d] returned %s score %v which was not live with that score at any instant of the search: %s", r.call, r.ret, idxlib.Name(it.Id), it.Score, describe(recs))}
			}
		}
	}
	// 4. at quiescence: same guarantees as after a sequential history
	if k, d := idxlib.CheckContents(ix, ref, idxlib.IDs[:6]); k != "" {
		return &explore.Violation{Key: "quiescent-" + k, Desc: d + " after " + describe(recs)}
	}
	// insert-only history inside the small-collection bound (n <= 2M+1, n <= ef): the quiescent
	// index must answer exactly, as it does after any sequential insert-only history (C07 clause 1)
	insertOnly := true
	for _, o := range sc.pre {
		insertOnly = insertOnly && o.Kind == "ins"
	}
	for _, r := range recs {
		insertOnly = insertOnly && (r.op.Kind == "ins" || r.op.Kind == "search" || r.op.Kind == "csearch" || r.op.Kind == "cancel" || r.op.Kind == "get" || r.op.Kind == "len")
	}
	if insertOnly && len(ref) <= 2*sc.m+1 && len(ref) <= 3 {
		for _, q := range idxlib.Queries {
			res, _ := ix.Search(context.Background(), q, uint(len(ref)))
			if len(res) != len(ref) {
				return &explore.Violation{Key: "quiescent-small-collection-not-exact", Desc: fmt.Sprintf("insert-only history, %d items stored (<= 2M+1), Search(%v,%d) returned only %d: %s", len(ref), q, len(ref), len(res), describe(recs))}
			}
		}
	}
	if k, d := idxlib.CheckSearch(ix, ref, sp, idxlib.Queries, []uint{1, 5}); k != "" {
		return &explore.Violation{Key: "quiescent-" + k + ":" + idxlib.Cause(ix.VerifDump()) + overlap(recs), Desc: d + " after " + describe(recs)}
	}
	// "the same search guarantees as after a sequential history": for every query the quiescent index must find at least as
	// many items as it does after the WORST sequential order of the same operations (an order that gives every operation
	// the outcome it had here). An item that is stored but can never be found again shows here and nowhere else.
	if min := sequentialMinima(sc, recs); min != nil {
		for qi, q := range idxlib.Queries {
			res, _ := ix.Search(context.Background(), q, 5)
			if len(res) < min[qi] {
				return &explore.Violation{Key: "quiescent-search-finds-less-than-after-any-sequential-order" + insertOverlapsRemove(recs) + ":" + strings.SplitN(sc.name, "-", 2)[0], Desc: fmt.Sprintf("Search(%v,5) finds %d of the %d stored items; after every sequential order of the same operations it finds at least %d: %s", q, len(res), len(ref), min[qi], describe(recs))}
			}
		}
	}
	return nil
}

// insertOverlapsRemove classifies executions in which a successful insert overlapped a successful remove of another id in time.
func insertOverlapsRemove(recs []rec) string {
	cls := ""
	for _, a := range recs {
		for _, b := range recs {
			if a.op.Kind == "ins" && b.op.Kind == "rem" && a.err == nil && b.err == nil && a.call <= b.ret && b.call <= a.ret {
				if a.op.ID == b.op.ID {
					return ":an-insert-overlaps-the-remove-of-the-same-id"
				}
				cls = ":an-insert-overlaps-a-remove-of-another-id"
			}
		}
	}
	return cls
}

// sequentialMinima replays the writes of an execution in every interleaving of the threads' program orders on a fresh
// index, keeps the orders in which every write has the outcome it had in the execution, and returns per query the
// smallest number of items a k=5 search finds afterwards (nil if no order reproduces the outcomes).
func sequentialMinima(sc scenario, recs []rec) []int {
	perThread := map[int][]rec{}
	var threads []int
	for _, r := range recs {
		if r.op.Kind != "ins" && r.op.Kind != "rem" {
			continue
		}
		if _, ok := perThread[r.thread]; !ok {
			threads = append(threads, r.thread)
		}
		perThread[r.thread] = append(perThread[r.thread], r)
	}
	sort.Ints(threads)
	total := 0
	for _, t := range threads {
		sort.Slice(perThread[t], func(i, j int) bool { return perThread[t][i].call < perThread[t][j].call })
		total += len(perThread[t])
	}
	if total == 0 || total > 5 {
		return nil
	}
	var min []int
	pos := map[int]int{}
	var order []rec
	var rec2 func()
	rec2 = func() {
		if len(order) == total {
			ix, _ := newIndex(sc)
			for _, r := range order {
				var err error
				if r.op.Kind == "ins" {
					err = ix.Insert(idxlib.IDs[r.op.ID], append([]float32{}, vecOf(r.op.Vec)...), index.Metadata{"v": fmt.Sprint(r.op.Vec)}, r.op.Level)
				} else {
					err = ix.Remove(idxlib.IDs[r.op.ID])
				}
				if (err == nil) != (r.err == nil) {
					return // this order does not explain the outcomes
				}
			}
			for qi, q := range idxlib.Queries {
				res, _ := ix.Search(context.Background(), q, 5)
				if min == nil {
					min = make([]int, len(idxlib.Queries))
					for i := range min {
						min[i] = 1 << 30
					}
				}
				if len(res) < min[qi] {
					min[qi] = len(res)
				}
			}
			return
		}
		for _, t := range threads {
			if pos[t] < len(perThread[t]) {
				order = append(order, perThread[t][pos[t]])
				pos[t]++
				rec2()
				pos[t]--
				order = order[:len(order)-1]
			}
		}
	}
	rec2()
	return min
}

// overlap classifies executions in which two successful removes overlapped in time (the
// witness of the recorded entry-point hand-over finding).
func overlap(recs []rec) string {
	for i, a := range recs {
		for j, b := range recs {
			if i < j && a.op.Kind == "rem" && b.op.Kind == "rem" && a.err == nil && b.err == nil && a.call <= b.ret && b.call <= a.ret {
				return ":overlapping-removes"
			}
		}
	}
	return ""
}

func describe(recs []rec) string {
	s := append([]rec{}, recs...)
	sort.Slice(s, func(i, j int) bool { return s[i].call < s[j].call })
	var out []string
	for _, r := range s {
		res := "ok"
		if r.err != nil {
			res = r.err.Error()
		}
		if r.op.Kind == "search" {
			res = fmt.Sprint(len(r.res), " items")
		}
		if r.op.Kind == "len" {
			res = fmt.Sprint(r.n)
		}
		out = append(out, fmt.Sprintf("t%d %s(%s)[%d,%d]=%s", r.thread, r.op.Kind, string(rune('a'+r.op.ID)), r.call, r.ret, res))
	}
	return strings.Join(out, "; ")
}

func scenarios() []scenario {
	I := func(id, vec, lvl int) opSpec { return opSpec{"ins", id, vec, lvl} }
	R := func(id int) opSpec { return opSpec{"rem", id, 0, 0} }
	G := func(id int) opSpec { return opSpec{"get", id, 0, 0} }
	S := opSpec{Kind: "search"}
	L := opSpec{Kind: "len"}
	CS := opSpec{Kind: "csearch"}
	X := opSpec{Kind: "cancel"}
	return []scenario{
		{name: "S10-search-cancelled-midway-vs-writers", m: 2, pre: []opSpec{I(0, 0, 0), I(1, 1, 0), I(2, 2, 0)}, threads: [][]opSpec{{CS}, {X, R(0), I(3, 3, 0)}, {R(1)}}, maxQ: 2},
		{name: "S11-remove-while-insert-is-linking-vs-count", m: 1, pre: []opSpec{I(0, 0, 0), I(1, 1, 0)}, threads: [][]opSpec{{I(2, 2, 0)}, {R(2)}, {L, S, L}}, maxQ: 2},
		// the entry point is removed while an insert that has already picked it up is on its way: the removed vertex is the
		// insert's only way into the graph (three live items, no pruning at M=2: nothing else can go wrong here)
		{name: "S12-insert-enters-through-the-entrypoint-being-removed", m: 2, pre: []opSpec{I(0, 0, 1), I(1, 1, 0), I(2, 2, 0)}, threads: [][]opSpec{{I(3, 3, 0)}, {R(0)}}},
		{name: "S13-insert-enters-through-the-entrypoint-being-removed-flat", m: 2, pre: []opSpec{I(0, 0, 0), I(1, 1, 0), I(2, 2, 0)}, threads: [][]opSpec{{I(3, 3, 0)}, {R(0)}, {S}}, maxQ: 2},
		{name: "S1-insert-same-id-twice", m: 1, pre: []opSpec{I(0, 0, 0), I(1, 1, 0)}, threads: [][]opSpec{{I(2, 2, 0)}, {I(2, 3, 0)}}},
		{name: "S2-insert-vs-remove-entrypoint", m: 1, pre: []opSpec{I(0, 0, 1), I(1, 1, 0)}, threads: [][]opSpec{{I(2, 2, 1)}, {R(0)}}},
		{name: "S3-remove-linked-neighbours-vs-search", m: 2, pre: []opSpec{I(0, 0, 0), I(1, 1, 0), I(2, 2, 0)}, threads: [][]opSpec{{R(0)}, {R(1)}, {S}}, maxQ: 2},
		{name: "S4a-two-inserts-into-empty-index", m: 1, threads: [][]opSpec{{I(0, 0, 1)}, {I(1, 1, 2)}}},
		{name: "S4d-two-inserts-into-empty-index-then-remove-and-search", m: 1, threads: [][]opSpec{{I(0, 0, 1), S}, {I(1, 1, 2), R(1), S}}},
		{name: "S4e-two-inserts-into-empty-index-then-remove-the-other", m: 1, threads: [][]opSpec{{I(0, 0, 0), R(1), S}, {I(1, 1, 0)}}},
		{name: "S4b-two-high-inserts-into-one-vertex-index", m: 1, pre: []opSpec{I(2, 2, 0)}, threads: [][]opSpec{{I(0, 0, 1)}, {I(1, 1, 2)}}},
		{name: "S4c-three-inserts-into-empty-index", m: 1, threads: [][]opSpec{{I(0, 0, 0)}, {I(1, 1, 0)}, {I(2, 2, 1)}}, maxQ: 2},
		{name: "S5-single-writer-vs-readers", m: 1, heur: true, pre: []opSpec{I(0, 0, 0), I(1, 1, 0)}, threads: [][]opSpec{{I(2, 2, 0), R(0)}, {S}, {G(2), L}}, maxQ: 2},
		{name: "S6-remove-vs-reinsert-same-id", m: 1, pre: []opSpec{I(0, 0, 0), I(1, 1, 0)}, threads: [][]opSpec{{R(1), I(1, 3, 0)}, {I(1, 2, 0)}}},
		{name: "S8-upper-layer-insert-vs-search", m: 2, pre: []opSpec{I(0, 0, 1), I(1, 1, 1)}, threads: [][]opSpec{{I(2, 2, 1)}, {S}}},
		{name: "S9-upper-layer-remove-vs-search", m: 2, pre: []opSpec{I(0, 0, 2), I(1, 1, 1), I(2, 2, 1)}, threads: [][]opSpec{{R(1), I(3, 3, 2)}, {S, S}}, maxQ: 2},
		{name: "S7-remove-same-id-twice-vs-get", m: 1, pre: []opSpec{I(0, 0, 0), I(1, 1, 1)}, threads: [][]opSpec{{R(1)}, {R(1)}, {G(1)}}, maxQ: 2},
	}
}

func build(sc scenario) *explore.Scenario {
	return &explore.Scenario{
		Name:          sc.name,
		MaxBoundQuick: sc.maxQ,
		KeyNamesBound: true,
		Configure:     func(s *vrt.Sched) { s.AtomicPoints = true; s.Horizon = 50000 },
		Build: func(x *explore.Exec) func(vrt.EndReason) *explore.Violation {
			world.Quiet()
			ix, pre := newIndex(sc)
			recs := runBody(sc, ix, func() int64 { return int64(x.S.Points) }, func(name string, f func()) { x.S.Spawn(name, true, f) })
			return func(end vrt.EndReason) *explore.Violation {
				if un := x.S.MainUnfinished(); len(un) > 0 {
					x.Outcome = "blocked"
					return &explore.Violation{Key: "deadlock", Desc: strings.Join(x.S.Blocked(), "; ")}
				}
				v := checkExecution(sc, ix, pre, *recs)
				var outs []string
				sorted := append([]rec{}, (*recs)...)
				sort.Slice(sorted, func(i, j int) bool {
					if sorted[i].thread != sorted[j].thread {
						return sorted[i].thread < sorted[j].thread
					}
					return sorted[i].call < sorted[j].call
				})
				for _, r := range sorted {
					outs = append(outs, fmt.Sprintf("%v/%d/%d", r.err == nil, len(r.res), r.n))
				}
				x.Outcome = strings.Join(outs, " ")
				return v
			}
		},
	}
}

// racePass: the same bodies, un-instrumented, free-running under the race detector.
func racePass() {
	world.Quiet()
	newCancellable = func() (context.Context, context.CancelFunc) { return context.WithCancel(context.Background()) }
	iters := 300
	if os.Getenv("VERIF_TIER") == "thorough" {
		iters = 3000
	}
	for _, sc := range scenarios() {
		for i := 0; i < iters; i++ {
			ix, _ := newIndex(sc)
			var wg sync.WaitGroup
			start := make(chan struct{})
			runBody(sc, ix, func() int64 { return time.Now().UnixNano() }, func(name string, f func()) {
				wg.Add(1)
				go func() { defer wg.Done(); <-start; f() }()
			})
			close(start)
			wg.Wait()
		}
	}
	// many searches at once on a quiescent index (the server's normal load): every returned score must be the distance
	// between that caller's query and the item's vector - checked afterwards, single-threaded, with the same metric
	for _, spn := range []string{"euclidean", "manhattan", "cosine"} {
		sp := idxlib.Space(spn)
		const dim, items, workers = 24, 96, 8
		vec := func(seed int) []float32 {
			v := make([]float32, dim)
			x := uint64(seed)*0x9E3779B97F4A7C15 + 12345
			for i := range v {
				x = x*6364136223846793005 + 1442695040888963407
				v[i] = float32((x>>40)%1000)/100 + 0.5
			}
			return v
		}
		ix := index.NewHnsw(dim, sp)
		vecs := map[uuid.UUID][]float32{}
		for i := 0; i < items; i++ {
			id := world.ID(uint64(i+1), 0x5c)
			vecs[id] = vec(i)
			if err := ix.Insert(id, append([]float32{}, vecs[id]...), nil, i%3); err != nil {
				panic(err)
			}
		}
		type obs struct {
			q   []float32
			res index.SearchResult
		}
		out := make([][]obs, workers)
		var wg sync.WaitGroup
		for w := 0; w < workers; w++ {
			wg.Add(1)
			go func(w int) {
				defer wg.Done()
				for r := 0; r < iters; r++ {
					q := vec(1000 + w*iters + r)
					res, err := ix.Search(context.Background(), q, 5)
					if err != nil {
						panic(err)
					}
					out[w] = append(out[w], obs{q, res})
				}
			}(w)
		}
		wg.Wait()
		bad := ""
		for w := range out {
			for _, o := range out[w] {
				for _, it := range o.res {
					if want := sp.Distance(o.q, vecs[it.Id]); it.Score != want && bad == "" {
						bad = fmt.Sprintf("%s: %d concurrent searchers on a quiescent index of %d items: a search returned item %x with score %v, the distance between its query and that item is %v", spn, workers, items, it.Id[:2], it.Score, want)
					}
				}
			}
		}
		if bad != "" {
			fmt.Println("FREE-RUNNING-VIOLATION concurrent-search-returns-a-score-of-another-computation: " + bad)
		}
	}
	// many writers, the way the benchmark and the partition's request handlers write: each draws the level of its new item
	// from the index (RandomLevel) and inserts ids of its own, then removes every second one; afterwards the count and
	// every id are what a sequential run leaves. 256 ids per writer: all 16 id-map shards fill and some of them empty again.
	for round := 0; round < 3; round++ {
		const writers, per = 8, 256
		ix := index.NewHnsw(4, idxlib.Space("euclidean"))
		var wg sync.WaitGroup
		var mu sync.Mutex
		bad := ""
		note := func(s string) {
			mu.Lock()
			if bad == "" {
				bad = s
			}
			mu.Unlock()
		}
		for w := 0; w < writers; w++ {
			wg.Add(1)
			go func(w int) {
				defer wg.Done()
				defer func() {
					if r := recover(); r != nil {
						note(fmt.Sprintf("writer %d panicked: %v", w, r))
					}
				}()
				for i := 0; i < per; i++ {
					lvl := ix.RandomLevel()
					if lvl < 0 || lvl > 64 {
						note(fmt.Sprintf("RandomLevel() = %d while %d writers draw levels", lvl, writers))
						lvl = 0
					}
					id := world.ID(uint64(w*per+i+1), 0x77)
					if err := ix.Insert(id, []float32{float32(w), float32(i), 1, float32(i % 7)}, nil, lvl); err != nil {
						note(fmt.Sprintf("insert of a new id: %v", err))
					}
					if i%2 == 1 {
						if err := ix.Remove(id); err != nil {
							note(fmt.Sprintf("remove of the id just inserted by the same writer: %v", err))
						}
					}
				}
			}(w)
		}
		wg.Wait()
		if bad == "" && ix.Len() != writers*per/2 {
			bad = fmt.Sprintf("Len() = %d after %d writers inserted %d ids each and removed every second one", ix.Len(), writers, per)
		}
		for w := 0; w < writers && bad == ""; w++ {
			for i := 0; i < per; i++ {
				_, err := ix.Get(world.ID(uint64(w*per+i+1), 0x77))
				if (err == nil) != (i%2 == 0) {
					bad = fmt.Sprintf("Get of id %d/%d: %v (inserted: yes, removed: %v)", w, i, err, i%2 == 1)
					break
				}
			}
		}
		if bad != "" {
			fmt.Println("FREE-RUNNING-VIOLATION many-writers-leave-a-wrong-collection: " + bad)
			break
		}
	}
	fmt.Printf("RACEPASS iterations=%d scenarios=%d\n", iters, len(scenarios()))
}

func main() {
	if len(os.Args) > 1 && os.Args[1] == "--race-pass" {
		racePass()
		return
	}
	var scs []*explore.Scenario
	for _, sc := range scenarios() {
		scs = append(scs, build(sc))
	}
	before := func(run *ev.Run) ev.Coverage { return racepass.Run(run, os.Getenv("VERIF_C13_RACE")) }
	explore.Main("C13", scs, explore.Plan{QuickBound: 3, ThoroughBound: 4, QuickBudget: 150 * time.Second, ThoroughBudget: 20 * time.Minute, Shards: 4, Before: before},
		"model_checking", []string{
			"scheduling points at every lock and every sync/atomic operation; sequential consistency in between (the separate -race pass covers unsynchronised accesses, by sampling)",
			"ids a..c on colliding grid vectors, M in {1,2}; timestamps for linearizability are scheduler step numbers",
			"a count read in mid-flight must lie between the number of ids certainly stored throughout the read and the number possibly stored; the exact count is checked at quiescence",
		})
}
