// C15 — AVX/SSE distance kernels agree with the portable kernels and stay in bounds.
//
// E3 (input-shape product): the three implementations are called individually (hook bypassing
// CPU dispatch) on vectors laid out in mmap'ed arenas with PROT_NONE guard pages: (L1) ending
// exactly at the trailing guard page (any over-read faults), (L2) starting right after the
// leading guard page plus every 4-byte-aligned offset in a 64-byte window (any under-read
// faults; every alignment). Complete product of lengths x offsets x value patterns x metrics x
// SIMD sets; tolerance fixed in DESIGN.md before any run.
package main

import (
	"fmt"
	"math"
	"os"
	"runtime"
	"runtime/debug"
	"sort"
	"strings"
	"sync"
	"syscall"
	"unsafe"

	"anndbverif/lib/ev"

	"github.com/marekgalovic/anndb/index/space"
	anndbmath "github.com/marekgalovic/anndb/math"
)

const page = 4096
const maxLen = 4096

// arena: [guard][data pages ...][guard]
type arena struct {
	mem  []byte
	data uintptr // first data byte
	end  uintptr // first byte of trailing guard
}

func newArena() *arena {
	dataPages := (maxLen*4+64)/page + 2
	total := (dataPages + 2) * page
	mem, err := syscall.Mmap(-1, 0, total, syscall.PROT_READ|syscall.PROT_WRITE, syscall.MAP_ANON|syscall.MAP_PRIVATE)
	if err != nil {
		ev.Tool("mmap: %v", err)
	}
	if err := syscall.Mprotect(mem[:page], syscall.PROT_NONE); err != nil {
		ev.Tool("mprotect: %v", err)
	}
	if err := syscall.Mprotect(mem[total-page:], syscall.PROT_NONE); err != nil {
		ev.Tool("mprotect: %v", err)
	}
	base := uintptr(unsafe.Pointer(&mem[0]))
	return &arena{mem: mem, data: base + page, end: base + uintptr(total-page)}
}

// inGuard: addr lies in the leading or the trailing guard page.
func (a *arena) inGuard(addr uintptr) bool {
	return (addr >= a.data-page && addr < a.data) || (addr >= a.end && addr < a.end+page)
}

// atEnd returns a slice of n floats ending exactly at the trailing guard page.
func (a *arena) atEnd(n int) []float32 {
	return unsafe.Slice((*float32)(unsafe.Pointer(a.end-uintptr(4*n))), n)
}

// atStart returns a slice of n floats starting off bytes after the leading guard page.
func (a *arena) atStart(n, off int) []float32 {
	return unsafe.Slice((*float32)(unsafe.Pointer(a.data+uintptr(off))), n)
}

type pattern struct {
	name string
	fill func(a, b []float32)
	// extreme patterns leave the range where float32 squares are finite
	extreme bool
}

func patterns() []pattern {
	set := func(f func(i int) (float32, float32)) func(a, b []float32) {
		return func(a, b []float32) {
			for i := range a {
				a[i], b[i] = f(i)
			}
		}
	}
	oneHot := func(pos func(n int) int) func(a, b []float32) {
		return func(a, b []float32) {
			for i := range a {
				a[i], b[i] = 0.25, 0.25
			}
			p := pos(len(a))
			a[p] = 3
			b[p] = -1
		}
	}
	return []pattern{
		{"zeros-vs-ones", set(func(i int) (float32, float32) { return 0, 1 }), false},
		{"ones", set(func(i int) (float32, float32) { return 1, 1 }), false},
		{"ramp", set(func(i int) (float32, float32) { return float32(i%97) * 0.125, float32((i*7)%89) * 0.25 }), false},
		{"alternating-sign", set(func(i int) (float32, float32) { return float32(1 - 2*(i%2)), float32(2*(i%2)-1) * 0.5 }), false},
		{"a-equals-b", set(func(i int) (float32, float32) { v := float32(i%13) + 0.5; return v, v }), false},
		{"a-equals-minus-b", set(func(i int) (float32, float32) { v := float32(i%11) + 1; return v, -v }), false},
		{"one-hot-first", oneHot(func(n int) int { return 0 }), false},
		{"one-hot-last", oneHot(func(n int) int { return n - 1 }), false},
		{"one-hot-lane-boundary", oneHot(func(n int) int { return (n / 8) * 8 % n }), false},
		// parallel, not bit-identical: 1 - cos rounds to either side of zero
		{"parallel-scaled-by-3", set(func(i int) (float32, float32) { v := float32((i*37)%101)*0.173 + 0.3; return v, 3 * v }), false},
		{"parallel-scaled-by-0.7", set(func(i int) (float32, float32) { v := float32((i*53)%89)*0.311 - 7.7; return v, 0.7 * v }), false},
		{"parallel-scaled-by-1.9", set(func(i int) (float32, float32) { v := float32((i*29)%113)*0.0917 + 0.011; return 1.9 * v, v }), false},
		{"subnormal", set(func(i int) (float32, float32) { return 1e-41, 3e-41 }), true},
		{"tiny-squares-underflow", set(func(i int) (float32, float32) { return 1e-20, 3e-20 }), true},
		{"large-squares-near-max", set(func(i int) (float32, float32) { return 1e19, -0.5e19 }), true},
		{"huge-squares-overflow", set(func(i int) (float32, float32) { return 3e19, 1e19 }), true},
		// moderate magnitudes: every component square, both squared norms, both norms and their product are ordinary
		// float32 values - only the PRODUCT OF THE SQUARED NORMS leaves the range (the portable kernel never forms it)
		{"norm-product-overflows", set(func(i int) (float32, float32) { return 1e10 * float32(1+i%3), 2e10 * float32(1+(i*5)%4) }), true},
		{"norm-product-underflows", set(func(i int) (float32, float32) { return 1e-12 * float32(1+i%3), 3e-12 * float32(1+(i*5)%4) }), true},
		{"mixed-tiny-huge", set(func(i int) (float32, float32) {
			if i%2 == 0 {
				return 1e-20, 3e19
			}
			return 3e19, 1e-20
		}), true},
	}
}

type metric struct {
	name string
	call func(impl space.SpaceImpl, a, b []float32) float32
	ref  func(a, b []float32) float64
}

func metrics() []metric {
	return []metric{
		{"euclidean", func(m space.SpaceImpl, a, b []float32) float32 { return m.EuclideanDistance(a, b) }, func(a, b []float32) float64 {
			s := 0.0
			for i := range a {
				d := float64(a[i]) - float64(b[i])
				s += d * d
			}
			return math.Sqrt(s)
		}},
		{"manhattan", func(m space.SpaceImpl, a, b []float32) float32 { return m.ManhattanDistance(a, b) }, func(a, b []float32) float64 {
			s := 0.0
			for i := range a {
				s += math.Abs(float64(a[i]) - float64(b[i]))
			}
			return s
		}},
		{"cosine", func(m space.SpaceImpl, a, b []float32) float32 { return m.CosineDistance(a, b) }, func(a, b []float32) float64 {
			var dot, na, nb float64
			for i := range a {
				dot += float64(a[i]) * float64(b[i])
				na += float64(a[i]) * float64(a[i])
				nb += float64(b[i]) * float64(b[i])
			}
			return 1 - dot/(math.Sqrt(na)*math.Sqrt(nb))
		}},
	}
}

func call(f func() float32) (v float32, fault interface{}) {
	defer func() {
		if r := recover(); r != nil {
			fault = r
		}
	}()
	return f(), nil
}

func class(v float64) string {
	switch {
	case math.IsNaN(v):
		return "nan"
	case math.IsInf(v, 0):
		return "inf"
	}
	return "finite"
}

type finding struct {
	key, desc string
	replay    map[string]interface{}
}

type worker struct {
	A, B     *arena
	impls    map[string]space.SpaceImpl
	spaces   []namedSpace
	found    map[string]finding
	calls    int
	distinct map[string]bool
}

type namedSpace struct {
	name string
	s    space.Space
}

func allSpaces() []namedSpace {
	return []namedSpace{{"euclidean", space.NewEuclidean()}, {"manhattan", space.NewManhattan()}, {"cosine", space.NewCosine()}}
}

const eps = 1.0 / (1 << 23)

func (w *worker) add(key, desc string, rp map[string]interface{}) {
	if _, ok := w.found[key]; !ok {
		w.found[key] = finding{key, desc, rp}
	}
}

// one case: vectors a, b already laid out and filled.
func (w *worker) check(a, b []float32, layout string, aoff, boff int, p pattern) {
	n := len(a)
	native := w.impls["native"]
	// the distance the index sees (space.Space, whatever kernel the CPU selects) is pushed into a priority queue
	// that refuses negative priorities: for ordinary values it must be >= 0 exactly, not up to rounding
	if !p.extreme {
		for _, sp := range w.spaces {
			d, f := call(func() float32 { return sp.s.Distance(a, b) })
			w.calls++
			if f == nil && d < 0 {
				w.add("negative:space:"+sp.name, fmt.Sprintf("space.%s Distance = %v < 0 (len=%d, pattern %s)", sp.name, d, n, p.name),
					map[string]interface{}{"impl": "space", "metric": sp.name, "len": n, "layout": layout, "a_offset": aoff, "b_offset": boff, "pattern": p.name})
			}
		}
	}
	for _, m := range metrics() {
		ref := m.ref(a, b)
		nat, nf := call(func() float32 { return m.call(native, a, b) })
		if nf != nil {
			w.add("fault:native:"+m.name, fmt.Sprintf("native %s faulted: %v", m.name, nf), nil)
			continue
		}
		if strings.HasPrefix(p.name, "norm-product-") {
			// the portable kernel is the reference of the property and has to be right by itself where all its own
			// intermediate values are ordinary: close to the float64 value, zero (up to rounding) between a vector and
			// itself, not negative beyond rounding
			rp := map[string]interface{}{"impl": "native", "metric": m.name, "len": n, "layout": layout, "a_offset": aoff, "b_offset": boff, "pattern": p.name}
			lim := 4 * float64(n) * eps
			if m.name != "cosine" {
				lim *= math.Abs(ref)
			}
			if d := math.Abs(float64(nat) - ref); !(d <= lim) {
				w.add(fmt.Sprintf("portable-kernel-off-reference:%s:%s", m.name, p.name), fmt.Sprintf("portable %s = %v, float64 reference %v (len=%d, pattern %s)", m.name, nat, ref, n, p.name), rp)
			}
			if self, sf := call(func() float32 { return m.call(native, a, a) }); sf == nil && !(math.Abs(float64(self)) <= float64(n)*eps) {
				w.add(fmt.Sprintf("self-distance-nonzero:native:%s:%s", m.name, p.name), fmt.Sprintf("portable %s d(a,a) = %v (len=%d, pattern %s)", m.name, self, n, p.name), rp)
			}
		}
		for _, in := range []string{"sse", "avx"} {
			impl := w.impls[in]
			rp := map[string]interface{}{"impl": in, "metric": m.name, "len": n, "layout": layout, "a_offset": aoff, "b_offset": boff, "pattern": p.name}
			got, f := call(func() float32 { return m.call(impl, a, b) })
			w.calls++
			if f != nil {
				al := "16-byte-aligned"
				if uintptr(unsafe.Pointer(&a[0]))%16 != 0 || uintptr(unsafe.Pointer(&b[0]))%16 != 0 {
					al = "operand-not-16-byte-aligned"
				}
				if uintptr(unsafe.Pointer(&a[0]))%32 != 0 || uintptr(unsafe.Pointer(&b[0]))%32 != 0 {
					if al == "16-byte-aligned" {
						al = "operand-not-32-byte-aligned"
					}
				}
				// what kind of fault: an access INSIDE one of the guard pages around the vectors is a read outside the
				// vectors (an alignment fault of an aligned-load instruction carries no such address)
				if fa, ok := f.(interface{ Addr() uintptr }); ok && (w.A.inGuard(fa.Addr()) || w.B.inGuard(fa.Addr())) {
					al = "reads-outside-the-vectors"
				}
				w.add(fmt.Sprintf("fault:%s:%s:%s", in, m.name, al), fmt.Sprintf("%s %s faulted (len=%d, layout %s, a at %%64=%d, b at %%64=%d): %v", in, m.name, n, layout, uintptr(unsafe.Pointer(&a[0]))%64, uintptr(unsafe.Pointer(&b[0]))%64, f), rp)
				continue
			}
			sfx := "ordinary-values"
			if p.extreme {
				sfx = p.name
			}
			// agreement with the portable kernel up to rounding
			scale := 1.0
			if m.name != "cosine" {
				scale = math.Abs(ref)
			}
			tol := 4 * float64(n) * eps * scale
			if class(float64(nat)) != "finite" || class(ref) != "finite" {
				if class(float64(got)) != class(float64(nat)) {
					w.add(fmt.Sprintf("class-mismatch:%s:%s:%s", in, m.name, sfx), fmt.Sprintf("%s %s = %v, portable kernel %v (float64 reference %v), len=%d pattern %s", in, m.name, got, nat, ref, n, p.name), rp)
				}
			} else if d := math.Abs(float64(got) - float64(nat)); !(d <= tol) && !(d <= 1e-37) {
				w.add(fmt.Sprintf("mismatch:%s:%s:%s", in, m.name, sfx), fmt.Sprintf("%s %s = %v, portable kernel %v, |diff| %.3g > tolerance %.3g (len=%d, pattern %s, layout %s)", in, m.name, got, nat, d, tol, n, p.name, layout), rp)
			}
			// symmetric (bit-equal per implementation)
			rev, f2 := call(func() float32 { return m.call(impl, b, a) })
			if f2 == nil && math.Float32bits(rev) != math.Float32bits(got) && !(rev != rev && got != got) {
				w.add(fmt.Sprintf("asymmetric:%s:%s:%s", in, m.name, sfx), fmt.Sprintf("%s %s: d(a,b)=%v d(b,a)=%v (len=%d, pattern %s)", in, m.name, got, rev, n, p.name), rp)
			}
			// non-negative (cosine is wrapped in Abs by the Space type; the raw kernel may be ~ -len*eps)
			if class(ref) == "finite" && !p.extreme && float64(got) < -float64(n)*eps {
				w.add(fmt.Sprintf("negative:%s:%s", in, m.name), fmt.Sprintf("%s %s = %v (len=%d, pattern %s)", in, m.name, got, n, p.name), rp)
			}
			// zero between a vector and itself
			self, f3 := call(func() float32 { return m.call(impl, a, a) })
			zeroNorm := true
			for _, x := range a {
				if x != 0 {
					zeroNorm = false
					break
				}
			}
			// cosine of the zero vector with itself is 0/0 in every implementation (the portable
			// one included): undefined, not demanded
			if f3 == nil && !p.extreme && !(m.name == "cosine" && zeroNorm) {
				lim := 0.0
				if m.name == "cosine" {
					lim = float64(n) * eps
				}
				if !(math.Abs(float64(self)) <= lim) {
					w.add(fmt.Sprintf("self-distance-nonzero:%s:%s", in, m.name), fmt.Sprintf("%s %s d(a,a) = %v (len=%d, pattern %s)", in, m.name, self, n, p.name), rp)
				}
			}
		}
	}
}

// checkSpare: a and b have capacity beyond their length; every kernel must return bit for bit what it returns for the
// same elements in exact-capacity slices (a heap copy, 4-byte aligned like any Go slice).
func (w *worker) checkSpare(a, b []float32, n, spare int, p pattern) {
	ea, eb := append([]float32(nil), a...), append([]float32(nil), b...)
	ea, eb = ea[:n:n], eb[:n:n]
	for _, m := range metrics() {
		for _, in := range []string{"native", "avx"} { // SSE needs 16-byte alignment (a known finding): heap slices do not guarantee it
			impl := w.impls[in]
			want, f1 := call(func() float32 { return m.call(impl, ea, eb) })
			got, f2 := call(func() float32 { return m.call(impl, a, b) })
			w.calls += 2
			if f1 != nil || f2 != nil {
				continue // faults are the layouts' business
			}
			if math.Float32bits(want) != math.Float32bits(got) && !(want != want && got != got) {
				w.add(fmt.Sprintf("reads-beyond-len:%s:%s", in, m.name), fmt.Sprintf("%s %s on slices of length %d with %d spare elements (NaN) behind them = %v, on exact-capacity copies = %v (pattern %s)", in, m.name, n, spare, got, want, p.name),
					map[string]interface{}{"impl": in, "metric": m.name, "len": n, "spare": spare, "pattern": p.name})
			}
		}
	}
}

func lengths(thorough bool) []int {
	var ls []int
	if thorough {
		for n := 1; n <= maxLen; n++ {
			ls = append(ls, n)
		}
		return ls
	}
	for n := 1; n <= 300; n++ {
		ls = append(ls, n)
	}
	for r := 0; r < 32; r++ {
		ls = append(ls, 1024+r, maxLen-31+r)
	}
	sort.Ints(ls)
	return ls
}

func main() {
	run := ev.Start("C15", "model_checking")
	debug.SetPanicOnFault(true)
	impls := space.VerifImpls()
	// dispatch sanity: the hook must hand out three different implementations
	if fmt.Sprintf("%T", impls["avx"]) == fmt.Sprintf("%T", impls["native"]) {
		ev.Tool("hook returns the same implementation for avx and native")
	}
	_ = anndbmath.Vector{}
	ls := lengths(run.Thorough())
	aoffs := []int{}
	for o := 0; o < 64; o += 4 {
		aoffs = append(aoffs, o)
	}
	boffs := []int{0, 4, 32, 60}
	pats := patterns()
	nw := runtime.NumCPU()
	jobs := make(chan int, len(ls))
	for _, n := range ls {
		jobs <- n
	}
	close(jobs)
	var mu sync.Mutex
	all := map[string]finding{}
	calls, cases := 0, 0
	var wg sync.WaitGroup
	for i := 0; i < nw; i++ {
		wg.Add(1)
		go func() {
			defer wg.Done()
			debug.SetPanicOnFault(true)
			w := &worker{A: newArena(), B: newArena(), impls: impls, spaces: allSpaces(), found: map[string]finding{}}
			myCases := 0
			for n := range jobs {
				for _, p := range pats {
					// L1: both end exactly at their trailing guard pages
					a, b := w.A.atEnd(n), w.B.atEnd(n)
					p.fill(a, b)
					w.check(a, b, "ends-at-guard", -1, -1, p)
					myCases++
					// L3: the same vectors as slices with spare capacity (rows of a matrix, append-grown vectors): the
					// elements behind len() are NaN canaries and must not be looked at - only ordinary values, so that
					// a result can be compared with the exact-capacity call
					if !p.extreme && n <= 300 {
						for _, spare := range []int{1, 8, 33} {
							fa, fb := make([]float32, n+spare), make([]float32, n+spare)
							p.fill(fa[:n], fb[:n])
							for i := n; i < n+spare; i++ {
								fa[i], fb[i] = float32(math.NaN()), float32(math.NaN())
							}
							w.checkSpare(fa[:n], fb[:n], n, spare, p)
							myCases++
						}
					}
					// L2: every alignment of a x 4 alignments of b, right after the leading guard
					for _, ao := range aoffs {
						for _, bo := range boffs {
							a, b := w.A.atStart(n, ao), w.B.atStart(n, bo)
							p.fill(a, b)
							w.check(a, b, "starts-after-guard", ao, bo, p)
							myCases++
						}
					}
				}
			}
			mu.Lock()
			calls += w.calls
			cases += myCases
			for k, f := range w.found {
				if _, ok := all[k]; !ok {
					all[k] = f
				}
			}
			mu.Unlock()
		}()
	}
	wg.Wait()
	keys := make([]string, 0, len(all))
	for k := range all {
		keys = append(keys, k)
	}
	sort.Strings(keys)
	for _, k := range keys {
		run.Violation(k, all[k].desc, all[k].replay)
	}
	if len(os.Args) > 1 && os.Args[1] == "--replay" {
		fmt.Println("replay: the product is deterministic; re-run ./check C15 — the replay file names the failing (impl, metric, len, layout, offsets, pattern)")
	}
	run.Assumptions = []string{
		"tolerance |simd - portable| <= 4*len*2^-23*scale, scale = float64 reference value (euclidean, manhattan) or 1 (cosine); same finite/inf/nan class required when the portable value or the reference is not finite",
		"self-distance, non-negativity: exact 0 / >= 0 for euclidean and manhattan, within len*2^-23 for the raw cosine kernel; not demanded for the extreme-magnitude patterns",
		"layouts: ends exactly at a PROT_NONE page (over-read faults) and starts right after one (under-read faults) at every 4-byte offset of a 64-byte window for a, 4 offsets for b",
	}
	run.Finish(ev.Coverage{
		"states":                        cases,
		"transitions":                   calls,
		"traces_validated_against_impl": calls,
		"evaluations":                   calls,
		"distinct_nontrivial":           cases,
		"rule":                          fmt.Sprintf("complete product: %d lengths x (1 guard-end layout + 16x4 start offsets) x %d value patterns; each case calls 3 metrics x {sse, avx} (and the portable kernel + a float64 reference); distinct = distinct (length, layout, offsets, pattern) cases", len(ls), len(pats)),
		"lengths":                       len(ls),
		"max_length":                    maxLen,
		"samples":                       []interface{}{map[string]interface{}{"impl": "avx", "metric": "cosine", "len": 37, "layout": "starts-after-guard", "a_offset": 12, "b_offset": 60, "pattern": "one-hot-lane-boundary"}},
		"exhaustive":                    true,
	})
}
