// C09 — dataset search equals top-k of the union of its partitions, or fails loudly.
//
// E1: the real Dataset.Search / SearchPartitions fan-out/fan-in (instrumented working tree)
// under the cooperative scheduler; every interleaving of caller, per-node workers, closers,
// inner per-partition workers and inner closers up to a preemption bound; every replica
// choice; node failures and a cancelling caller as scenario variants.
package main

import (
	"context"
	"fmt"
	"sort"
	"strings"
	"time"

	"anndbverif/explore"
	"anndbverif/vrt"
	vctx "anndbverif/vrt/context"
	"anndbverif/vrt/fakes"
	"anndbverif/world"

	"github.com/marekgalovic/anndb/index"
	pb "github.com/marekgalovic/anndb/protobuf"
	uuid "github.com/satori/go.uuid"
	"google.golang.org/grpc/codes"
	"google.golang.org/grpc/status"
)

type variant struct {
	name      string
	mode      string // "inner": SearchPartitions alone; "outer": Search with canned remote answers; "full": both layers (delay-bounded)
	nodes     int
	placement [][]uint64
	k         uint
	failNode  uint64 // 0 = none; node whose SearchPartitions fails
	failMode  string // "rpc" (call errors), "down", "stream" (stream breaks after one item), "nodataset" (replica's catalogue lacks the dataset)
	cancel    bool   // a second thread cancels the caller's context
	maxQuick  int
	unknown   uint64    // entry node has no address for this node (dial error)
	again     []float32 // the caller searches once more with this query before it looks at the first answer
	rejoin    uint64    // with `again`: between the two searches this node leaves the cluster and joins again (same id, same address)
	wire      bool      // every remote call is a scheduling point before its request message is read (fakes.YieldBeforeCall)
}

// items[p] = vectors stored in partition p (1-dim, scores interleaved across partitions)
var itemsByPartition = [][]float32{{1, 4, 7}, {2, 5, 8}, {3, 6, 9}}

func build(v variant) *explore.Scenario {
	return &explore.Scenario{
		Name:          v.name,
		MaxBoundQuick: v.maxQuick,
		Configure: func(s *vrt.Sched) {
			s.RandChoose = true
			s.DelayBounding = v.mode == "full"
		},
		Build: func(x *explore.Exec) func(vrt.EndReason) *explore.Violation {
			fakes.Reset()
			fakes.YieldBeforeCall = v.wire
			var knows func(a, b uint64) bool
			if v.unknown != 0 {
				knows = func(a, b uint64) bool { return !(a == 1 && b == v.unknown) }
			}
			world.Lacks = nil
			if v.failMode == "nodataset" {
				world.Lacks = func(n uint64) bool { return n == v.failNode }
			}
			c := world.NewDatasetCluster(v.nodes, 1, pb.Space_Euclidean, v.placement, 2, knows)
			world.Lacks = nil
			x.OnCleanup(c.Close)
			P := len(v.placement)
			for p := 0; p < P; p++ {
				for _, n := range c.Nodes {
					if !c.Hosts(n.ID, p) {
						continue
					}
					for i, val := range itemsByPartition[p] {
						id := world.ID(uint64(100*p+i+1), 1)
						if err := n.DS.VerifPartition(p).Index().Insert(id, []float32{val}, index.Metadata{"p": fmt.Sprint(p)}, 0); err != nil {
							panic(err)
						}
					}
				}
			}
			streamCalls := 0
			consulted := map[string]int{} // partition id -> times searched (outer requests)
			fakes.Intercept = func(target, method string, ctx context.Context, req interface{}) (bool, interface{}, error) {
				if method != "SearchPartitions" {
					return false, nil, nil
				}
				r := req.(*pb.SearchPartitionsRequest)
				for _, pid := range r.PartitionIds {
					consulted[string(pid)]++
				}
				if v.failNode != 0 && v.failMode == "rpc" && target == world.Addr(v.failNode) {
					return true, nil, fakes.ErrUnavailable
				}
				if v.failNode != 0 && target == world.Addr(v.failNode) {
					// the node itself ends the call with a status that looks like the echo of a caller's cancellation or
					// deadline (its own deadline fired, it is shutting down) while the caller's context is alive
					switch v.failMode {
					case "rpc-canceled":
						return true, nil, status.Error(codes.Canceled, "context canceled")
					case "rpc-deadline":
						return true, nil, status.Error(codes.DeadlineExceeded, "context deadline exceeded")
					}
				}
				if v.mode == "outer" {
					// canned answer: what the target's partitions return, merged sequentially
					if n := fakes.Registry[target]; n == nil || n.Down {
						return true, nil, fakes.ErrUnavailable
					}
					var node *world.DNode
					for _, nn := range c.Nodes {
						if world.Addr(nn.ID) == target {
							node = nn
						}
					}
					var all index.SearchResult
					for _, pid := range r.PartitionIds {
						for p := 0; p < P; p++ {
							if string(c.Meta.Partitions[p].Id) == string(pid) {
								rr, _ := node.DS.VerifPartition(p).Index().Search(context.Background(), r.Query, uint(r.K))
								all = append(all, rr...)
							}
						}
					}
					sort.Sort(all)
					if int(r.K) < len(all) {
						all = all[:r.K]
					}
					if v.failNode != 0 && v.failMode == "stream-once" && target == world.Addr(v.failNode) {
						// a transient fault: the node's first answer breaks after one item (Unavailable), a second call would succeed
						streamCalls++
						if streamCalls == 1 {
							cn := fakes.CannedItems(all[:1])
							cn.Err = fakes.ErrUnavailable
							return true, cn, nil
						}
					}
					if v.failNode != 0 && v.failMode == "stream-canceled" && target == world.Addr(v.failNode) {
						cn := fakes.CannedItems(all[:1])
						cn.Err = status.Error(codes.Canceled, "context canceled")
						return true, cn, nil
					}
					if v.failNode != 0 && v.failMode == "stream" && target == world.Addr(v.failNode) {
						// the node dies mid-answer: one item arrives, then the stream reports an error
						cn := fakes.CannedItems(all[:1])
						cn.Err = fakes.ErrUnavailable
						return true, cn, nil
					}
					return true, fakes.CannedItems(all), nil
				}
				return false, nil, nil
			}
			if v.failNode != 0 && v.failMode == "down" {
				fakes.Registry[world.Addr(v.failNode)].Down = true
			}
			var res index.SearchResult
			var err error
			returned := false
			ctx, cancel := vctx.WithCancel(context.Background())
			x.S.Spawn("caller", true, func() {
				if v.mode == "inner" {
					var pids []uuid.UUID
					for p := 0; p < P; p++ {
						pids = append(pids, uuid.FromBytesOrNil(c.Meta.Partitions[p].Id))
						consulted[string(c.Meta.Partitions[p].Id)]++
					}
					res, err = c.Nodes[0].DS.SearchPartitions(ctx, pids, []float32{0}, v.k)
				} else {
					res, err = c.Nodes[0].DS.Search(ctx, []float32{0}, v.k)
					if v.again != nil && err == nil && v.rejoin == 0 {
						// an answer belongs to its caller: a later search must not change it
						c.Nodes[0].DS.Search(ctx, v.again, v.k)
					}
					if v.again != nil && err == nil && v.rejoin != 0 {
						// a member leaves and joins again: the cluster is as healthy as before, the next search must work
						c.Nodes[0].Conn.RemoveNode(v.rejoin)
						c.Nodes[0].Conn.AddNode(v.rejoin, world.Addr(v.rejoin))
						res, err = c.Nodes[0].DS.Search(ctx, []float32{0}, v.k)
					}
				}
				returned = true
			})
			if v.cancel {
				x.S.Spawn("canceller", true, func() { cancel() })
			}
			return func(end vrt.EndReason) *explore.Violation {
				if !returned {
					x.Outcome = "blocked"
					return &explore.Violation{Key: "search-never-returns", Desc: "Dataset.Search did not return: " + strings.Join(x.S.Blocked(), "; ")}
				}
				// everything stored anywhere, with its true score (for the per-item clauses shared with C01)
				truth := func() map[uuid.UUID]index.SearchResultItem {
					t := map[uuid.UUID]index.SearchResultItem{}
					for p := 0; p < P; p++ {
						host := c.Nodes[v.placement[p][0]-1]
						r, _ := host.DS.VerifPartition(p).Index().Search(context.Background(), []float32{0}, 100)
						for _, it := range r {
							t[it.Id] = it
						}
					}
					return t
				}
				// expected: top-k of the union of what each partition's own Search returns
				var union index.SearchResult
				for p := 0; p < P; p++ {
					host := c.Nodes[v.placement[p][0]-1]
					r, _ := host.DS.VerifPartition(p).Index().Search(context.Background(), []float32{0}, v.k)
					union = append(union, r...)
				}
				sort.Sort(union)
				if int(v.k) < len(union) {
					union = union[:v.k]
				}
				x.Outcome = fmt.Sprintf("len=%d err=%v", len(res), err != nil)
				faulty := v.failNode != 0 || v.unknown != 0
				if err != nil {
					if faulty || v.cancel {
						return nil
					}
					return &explore.Violation{Key: "error-on-healthy-cluster", Desc: fmt.Sprintf("healthy cluster, search failed: %v", err)}
				}
				// success status
				if faulty {
					// a fault only matters if the failing node was actually chosen for some partition
					hit := false
					if v.unknown != 0 && fakes.Calls[world.Addr(v.unknown)+" SearchPartitions"] == 0 {
						// dial error happens before any call: detect by missing consultation
						hit = len(consulted) < P
					}
					if v.failNode != 0 && fakes.Calls[world.Addr(v.failNode)+" SearchPartitions"] > 0 {
						hit = true
					}
					if v.failMode == "stream-once" {
						// a transient fault: asking the node again is a legitimate way to succeed - with the exact answer
						hit = false
					}
					if hit {
						return &explore.Violation{Key: classify(res, union, "fault") + itemClause(res, v.k, truth()), Desc: fmt.Sprintf("a node could not be searched but Search returned success with %d items (expected an error); full answer would be %v", len(res), ids(union))}
					}
				}
				if !equal(res, union) {
					return &explore.Violation{Key: classify(res, union, "ok") + itemClause(res, v.k, truth()), Desc: fmt.Sprintf("Search returned %v with nil error, top-%d of the union is %v", ids(res), v.k, ids(union))}
				}
				if !faulty && !v.cancel {
					for p := 0; p < P; p++ {
						once := 1
						if v.again != nil {
							once = 2 // two searches, each consults every partition once
						}
						if n := consulted[string(c.Meta.Partitions[p].Id)]; n != once {
							return &explore.Violation{Key: "partition-consulted-not-once", Desc: fmt.Sprintf("partition %d consulted %d times", p, n)}
						}
					}
				}
				return nil
			}
		},
	}
}

func classify(got, want index.SearchResult, mode string) string {
	switch {
	case got == nil:
		return "nil-result-with-nil-error"
	case len(got) < len(want):
		return "short-result-with-nil-error"
	case mode == "fault":
		return "success-despite-unsearchable-node"
	}
	return "wrong-result"
}

// itemClause names the per-item clause of a successful answer that is broken (the clauses C01 states for a search
// "on a whole dataset"): "" when every returned item is stored, carries its true score and metadata, the list is
// ascending, free of duplicates, at most k long and not empty while items are stored.
func itemClause(res index.SearchResult, k uint, truth map[uuid.UUID]index.SearchResultItem) string {
	if uint(len(res)) > k {
		return ":more-than-k"
	}
	if len(res) == 0 && k >= 1 && len(truth) > 0 {
		return ":empty"
	}
	seen := map[uuid.UUID]bool{}
	for i, it := range res {
		t, ok := truth[it.Id]
		switch {
		case !ok:
			return ":not-stored"
		case seen[it.Id]:
			return ":duplicate-id"
		case it.Score != t.Score:
			return ":stale-score"
		case fmt.Sprint(it.Metadata) != fmt.Sprint(t.Metadata):
			return ":wrong-metadata"
		case i > 0 && res[i-1].Score > it.Score:
			return ":unsorted"
		}
		seen[it.Id] = true
	}
	return ""
}

func ids(r index.SearchResult) []string {
	out := []string{}
	for _, it := range r {
		out = append(out, fmt.Sprintf("%x@%v", it.Id[0], it.Score))
	}
	return out
}

func equal(a, b index.SearchResult) bool {
	if len(a) != len(b) {
		return false
	}
	for i := range a {
		if !uuid.Equal(a[i].Id, b[i].Id) || a[i].Score != b[i].Score || fmt.Sprint(a[i].Metadata) != fmt.Sprint(b[i].Metadata) {
			return false
		}
	}
	return true
}

func main() {
	var vs []variant
	// placements: partitions over nodes; entry node is always 1
	vs = append(vs,
		variant{name: "inner-P1", mode: "inner", nodes: 1, placement: [][]uint64{{1}}, k: 2},
		variant{name: "inner-P2", mode: "inner", nodes: 1, placement: [][]uint64{{1}, {1}}, k: 3},
		variant{name: "inner-P3", mode: "inner", nodes: 1, placement: [][]uint64{{1}, {1}, {1}}, k: 4},
		variant{name: "inner-P3-k-equals-total", mode: "inner", nodes: 1, placement: [][]uint64{{1}, {1}, {1}}, k: 9, maxQuick: 1},
		variant{name: "inner-P3-k-above-total", mode: "inner", nodes: 1, placement: [][]uint64{{1}, {1}, {1}}, k: 20, maxQuick: 1},
		variant{name: "inner-P2-cancel", mode: "inner", nodes: 1, placement: [][]uint64{{1}, {1}}, k: 3, cancel: true},
		variant{name: "outer-P1-local", mode: "outer", nodes: 1, placement: [][]uint64{{1}}, k: 2},
		variant{name: "outer-P2-two-nodes", mode: "outer", nodes: 2, placement: [][]uint64{{1}, {2}}, k: 3},
		variant{name: "outer-P3-R2", mode: "outer", nodes: 3, placement: [][]uint64{{1, 2}, {2, 3}, {3, 1}}, k: 4, maxQuick: 1},
		variant{name: "outer-P2-k0", mode: "outer", nodes: 2, placement: [][]uint64{{1}, {2}}, k: 0},
		variant{name: "outer-P2-kall", mode: "outer", nodes: 2, placement: [][]uint64{{1}, {2}}, k: 10},
		variant{name: "outer-P2-fail-rpc", mode: "outer", nodes: 2, placement: [][]uint64{{1}, {2}}, k: 3, failNode: 2, failMode: "rpc"},
		variant{name: "outer-P2-fail-down", mode: "outer", nodes: 3, placement: [][]uint64{{2}, {3}}, k: 3, failNode: 3, failMode: "down"},
		variant{name: "outer-P2-fail-stream", mode: "outer", nodes: 2, placement: [][]uint64{{1}, {2}}, k: 3, failNode: 2, failMode: "stream"},
		variant{name: "outer-P2-fail-stream-once", mode: "outer", nodes: 2, placement: [][]uint64{{1}, {2}}, k: 3, failNode: 2, failMode: "stream-once", maxQuick: 1},
		variant{name: "outer-P2-fail-stream-canceled-by-the-node", mode: "outer", nodes: 2, placement: [][]uint64{{1}, {2}}, k: 3, failNode: 2, failMode: "stream-canceled", maxQuick: 1},
		variant{name: "outer-P2-fail-rpc-canceled-by-the-node", mode: "outer", nodes: 2, placement: [][]uint64{{1}, {2}}, k: 3, failNode: 2, failMode: "rpc-canceled", maxQuick: 1},
		variant{name: "outer-P2-fail-rpc-deadline-of-the-node", mode: "outer", nodes: 2, placement: [][]uint64{{1}, {2}}, k: 3, failNode: 2, failMode: "rpc-deadline", maxQuick: 1},
		variant{name: "outer-P3-fail-stream", mode: "outer", nodes: 3, placement: [][]uint64{{1}, {2}, {3}}, k: 4, failNode: 3, failMode: "stream", maxQuick: 1},
		variant{name: "full-P2-replica-lacks-dataset", mode: "full", nodes: 2, placement: [][]uint64{{1}, {2}}, k: 3, failNode: 2, failMode: "nodataset"},
		variant{name: "full-P2-R2-replica-lacks-dataset", mode: "full", nodes: 3, placement: [][]uint64{{1, 3}, {2, 3}}, k: 3, failNode: 3, failMode: "nodataset", maxQuick: 1},
		variant{name: "outer-P2-unknown-address", mode: "outer", nodes: 2, placement: [][]uint64{{1}, {2}}, k: 3, unknown: 2},
		variant{name: "outer-P2-R2-unknown-address-distinct-replica-sets", mode: "outer", nodes: 4, placement: [][]uint64{{2, 3}, {2, 4}}, k: 3, unknown: 2},
		variant{name: "outer-P2-cancel", mode: "outer", nodes: 2, placement: [][]uint64{{1}, {2}}, k: 3, cancel: true, maxQuick: 1},
		variant{name: "full-P2-two-nodes", mode: "full", nodes: 2, placement: [][]uint64{{1}, {2}}, k: 3},
		variant{name: "full-P3-all-on-one-remote-node-k-equals-total", mode: "full", nodes: 2, placement: [][]uint64{{2}, {2}, {2}}, k: 9, maxQuick: 1},
		variant{name: "full-P3-all-local-k-above-total", mode: "full", nodes: 1, placement: [][]uint64{{1}, {1}, {1}}, k: 20, maxQuick: 1},
		variant{name: "full-P2-two-searches-in-a-row", mode: "full", nodes: 2, placement: [][]uint64{{1}, {2}}, k: 3, again: []float32{10}, maxQuick: 1},
		variant{name: "outer-P2-two-remote-nodes-wire", mode: "outer", nodes: 3, placement: [][]uint64{{2}, {3}}, k: 3, wire: true},
		variant{name: "outer-P3-three-nodes-wire", mode: "outer", nodes: 3, placement: [][]uint64{{1}, {2}, {3}}, k: 4, wire: true, maxQuick: 1},
		variant{name: "outer-P2-a-member-leaves-and-rejoins-between-two-searches", mode: "outer", nodes: 2, placement: [][]uint64{{1}, {2}}, k: 3, again: []float32{0}, rejoin: 2, maxQuick: 1},
		variant{name: "full-P3-R2", mode: "full", nodes: 3, placement: [][]uint64{{1, 2}, {2, 3}, {3, 1}}, k: 4},
	)
	var scs []*explore.Scenario
	for _, v := range vs {
		scs = append(scs, build(v))
	}
	explore.Main("C09", scs, explore.Plan{QuickBound: 2, ThoroughBound: 3, QuickBudget: 100 * time.Second, ThoroughBudget: 15 * time.Minute, Shards: 4},
		"model_checking", []string{
			"remote calls are synchronous in-memory invocations of the target node's real service handler (the wire is not modelled)",
			"partition contents are preloaded directly into each replica's index; scores are pairwise distinct so top-k is unique",
			"sequential consistency between scheduling points (locks, channel operations, WaitGroup, spawn); data races are not in scope of this check",
		})
}
