#!/bin/bash
set -u
cd "$(dirname "$0")/../.."
export GOFLAGS=-mod=mod GOPROXY=off GOSUMDB=off GOTOOLCHAIN=local
w="${VERIF_WORK:-$PWD/.work/c05.$$}"; mkdir -p "$w"
if ! lib/instr_build.sh harness/c05 "$w/bin" 2> "$w/build.log"; then
  cat "$w/build.log" >&2; echo "TOOL-ERROR: instrumented build failed" >&2; exit 2
fi
# borrowed phase: the log store check (plain build of /repo's working tree)
if ! go build -tags verif -o "$w/bin-c06" ./harness/c06 2> "$w/build2.log"; then
  cat "$w/build2.log" >&2; echo "TOOL-ERROR: build failed" >&2; exit 2
fi
# borrowed phase: C20's directed histories on real servers
if ! INSTR_REUSE=1 lib/instr_build.sh harness/c20 "$w/bin-c20" 2> "$w/build3.log"; then
  cat "$w/build3.log" >&2; echo "TOOL-ERROR: instrumented build failed" >&2; exit 2
fi
[ "${1:-}" = "--warm" ] && exit 0
{ flock -u 9 && exec 9>&-; } 2>/dev/null  # the build is done: release the shared lock on /repo's working tree (.work/repo.lock)
VERIF_BIN_C06="$w/bin-c06" VERIF_BIN_C20="$w/bin-c20" VERIF_TUNABLE_snapshotOffset=0 exec "$w/bin" "$@"
