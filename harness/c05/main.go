// C05 — the raft glue keeps consensus safety under message faults and replica restarts.
//
// E2: explicit-state BFS over event histories of a simulated group of REAL RaftGroups (real
// badgerWAL on a per-node in-memory Badger, real etcd node thread, real transport with the wire
// replaced by a message multiset). Events: propose, election timeout, heartbeat tick, deliver /
// drop / duplicate any in-flight message, cut/heal a link, crash a replica at quiescence or at
// the next durable-write boundary (before / after the flush), restart it through the production
// constructor path, local snapshot. Invariants in every state and monitors on every send.
package main

import (
	"encoding/json"
	"fmt"
	"os"
	"sort"
	"strings"
	"time"

	"anndbverif/lib/ev"
	"anndbverif/lib/shard"
	"anndbverif/seq"
	"anndbverif/sim"

	etcdRaft "github.com/coreos/etcd/raft"
)

type event struct {
	Kind  string `json:"ev"` // start propose timeout tick deliver drop dup crash crashat restart snapshot cut heal
	Node  uint64 `json:"n,omitempty"`
	Msg   string `json:"msg,omitempty"` // canonical key of the in-flight message
	Arg   int    `json:"arg,omitempty"`
	After bool   `json:"after,omitempty"`
	Peer  uint64 `json:"peer,omitempty"`
}

func (e event) String() string {
	switch e.Kind {
	case "deliver", "drop", "dup":
		return fmt.Sprintf("%s(%s)", e.Kind, e.Msg)
	case "crashat":
		ph := "before"
		if e.After {
			ph = "after"
		}
		return fmt.Sprintf("crash(n%d at its next durable write, %s the flush)", e.Node, ph)
	case "cut", "heal":
		return fmt.Sprintf("%s(n%d-n%d)", e.Kind, e.Node, e.Peer)
	case "propose":
		return fmt.Sprintf("propose(n%d,p%d)", e.Node, e.Arg)
	}
	return fmt.Sprintf("%s(n%d)", e.Kind, e.Node)
}

// recorder is the replicated application: the ordered list of applied payloads.
type recorder struct {
	node *sim.Node
	seq  []string
	w    *wld
}

func (r *recorder) Process(data []byte) error {
	r.seq = append(r.seq, string(data))
	r.w.onApply(r.node.ID, r.seq)
	return nil
}
func (r *recorder) Snapshot() ([]byte, error) { return []byte(strings.Join(r.seq, ",")), nil }
func (r *recorder) Restore(data []byte) error {
	r.seq = nil
	if len(data) > 0 {
		r.seq = strings.Split(string(data), ",")
	}
	r.w.onApply(r.node.ID, r.seq)
	return nil
}
func (r *recorder) Digest() string { return strings.Join(r.seq, ",") }

type budget struct{ proposals, crashes, drops, dups, timeouts, ticks, snapshots, cuts int }

type wld struct {
	*sim.World
	n        int
	used     budget
	longest  []string // longest applied sequence ever observed on any replica (all must be prefix-comparable)
	proposed map[string]bool
	preCrash map[uint64]sim.Disk
}

func (w *wld) onApply(id uint64, s []string) {
	m := len(s)
	if len(w.longest) < m {
		m = len(w.longest)
	}
	for i := 0; i < m; i++ {
		if s[i] != w.longest[i] {
			w.World.Violations = append(w.World.Violations, sim.Violation{Key: "replicas-apply-different-entries", Desc: fmt.Sprintf("node %d applies %q at position %d where another replica (or an earlier incarnation) applied %q", id, s[i], i, w.longest[i])})
			return
		}
	}
	if len(s) > len(w.longest) {
		w.longest = append([]string{}, s...)
	}
	for _, p := range s {
		if !w.proposed[p] {
			w.World.Violations = append(w.World.Violations, sim.Violation{Key: "applied-entry-never-proposed", Desc: fmt.Sprintf("node %d applied %q which was never proposed", id, p)})
		}
	}
}

var limits budget
var nodes int

func build(path []event) (*wld, string, string) {
	w := &wld{n: nodes, proposed: map[string]bool{}, preCrash: map[uint64]sim.Disk{}}
	w.World = sim.NewWorld(nodes, func(n *sim.Node) sim.App { return &recorder{node: n, w: w} })
	w.Strangers = []uint64{9} // the cluster is bigger than the group
	for i := 1; i <= nodes; i++ {
		w.Start(uint64(i))
	}
	for _, e := range path {
		w.apply(e)
		if os.Getenv("VERIF_DEBUG") != "" {
			fmt.Fprintf(os.Stderr, "after %v:\n", e)
			for _, m := range w.SortedNet() {
				fmt.Fprintf(os.Stderr, "    in flight: %s\n", m.Key()[:60])
			}
			for _, n := range w.Nodes {
				fmt.Fprintf(os.Stderr, "    n%d applied %v\n", n.ID, w.appliedOf(n.ID))
			}
		}
		if len(w.Violations) > 0 {
			v := w.Violations[0]
			return w, v.Key, fmt.Sprintf("after %v: %s", e, v.Desc)
		}
	}
	return w, "", ""
}

func (w *wld) appliedOf(id uint64) string {
	for _, n := range w.Nodes {
		if n.ID == id && n.App != nil {
			return n.App.Digest()
		}
	}
	return "-"
}

func (w *wld) find(key string) *sim.Msg {
	for _, m := range w.SortedNet() {
		if m.Key() == key {
			return m
		}
	}
	return nil
}

func (w *wld) apply(e event) {
	switch e.Kind {
	case "propose":
		p := fmt.Sprintf("p%d", e.Arg)
		w.proposed[p] = true
		w.used.proposals++
		w.Propose(e.Node, []byte(p))
	case "timeout":
		w.used.timeouts++
		w.Tick(e.Node, 10)
	case "tick":
		w.used.ticks++
		w.Tick(e.Node, 1)
	case "deliver":
		if m := w.find(e.Msg); m != nil {
			w.Deliver(m, false)
		}
	case "dup":
		w.used.dups++
		if m := w.find(e.Msg); m != nil {
			w.Deliver(m, true)
		}
	case "drop":
		w.used.drops++
		if m := w.find(e.Msg); m != nil {
			w.Drop(m)
		}
	case "crash":
		w.used.crashes++
		w.preCrash[e.Node] = w.Disk(e.Node)
		w.Crash(e.Node)
	case "crashat":
		w.used.crashes++
		w.ArmCrash(e.Node, 1, e.After)
	case "restart":
		pre := w.Disk(e.Node) // what is durable right now is what the new incarnation must resume from
		w.Start(e.Node)
		w.checkRestart(e.Node, pre)
	case "snapshot":
		w.used.snapshots++
		w.SnapshotTick(e.Node)
	case "drain": // directed histories only: deliver everything in flight (sorted order), up to 300 messages
		for i := 0; i < 300 && len(w.Net) > 0; i++ {
			w.Deliver(w.SortedNet()[0], false)
		}
	case "deliver1", "drop1": // directed histories only: the first in-flight message whose key contains e.Msg
		for _, m := range w.SortedNet() {
			if strings.Contains(m.Key(), e.Msg) {
				if e.Kind == "deliver1" {
					w.Deliver(m, false)
				} else {
					w.Drop(m)
				}
				break
			}
		}
	case "burst": // directed histories only: the in-flight messages to e.Node whose keys contain the comma-separated patterns of
		// e.Msg, in that order, handed over back to back with the target's ready loop being the slow one
		var ms []*sim.Msg
		for _, pat := range strings.Split(e.Msg, ",") {
			for _, m := range w.SortedNet() {
				if m.To == e.Node && strings.Contains(m.Key(), pat) {
					ms = append(ms, m)
					break
				}
			}
		}
		w.DeliverBurst(ms)
	case "cut":
		w.used.cuts++
		w.Cut[[2]uint64{e.Node, e.Peer}] = true
		w.Cut[[2]uint64{e.Peer, e.Node}] = true
	case "heal":
		delete(w.Cut, [2]uint64{e.Node, e.Peer})
		delete(w.Cut, [2]uint64{e.Peer, e.Node})
	}
	w.CheckLeaders()
	w.CheckLogMatching()
}

// checkRestart: invariant 3 — the restarted replica resumes from what it had made durable.
func (w *wld) checkRestart(id uint64, pre sim.Disk) {
	if len(w.Violations) > 0 {
		return
	}
	st, ok := w.Status(id)
	if !ok {
		w.Violations = append(w.Violations, sim.Violation{Key: "restart-fails", Desc: fmt.Sprintf("node %d did not come up", id)})
		return
	}
	post := w.Disk(id)
	if st.Term < pre.HS.Term {
		w.Violations = append(w.Violations, sim.Violation{Key: "restart-goes-back-in-term", Desc: fmt.Sprintf("node %d had durable term %d before the restart and runs at term %d after it (durable before: %s; after: %s)", id, pre.HS.Term, st.Term, pre, post)})
		return
	}
	if st.Term == pre.HS.Term && pre.HS.Vote != 0 && st.Vote != pre.HS.Vote {
		w.Violations = append(w.Violations, sim.Violation{Key: "restart-forgets-vote", Desc: fmt.Sprintf("node %d voted for %d in term %d before the restart, now reports vote %d", id, pre.HS.Vote, pre.HS.Term, st.Vote)})
		return
	}
	// no entries authored by the restart itself; the durable log must be unchanged
	if len(post.Entries) != len(pre.Entries) || post.Last != pre.Last {
		w.Violations = append(w.Violations, sim.Violation{Key: "restart-rewrites-log", Desc: fmt.Sprintf("node %d: the restart itself changed the durable log: before %s, after %s", id, pre, post)})
		return
	}
	for i := range pre.Entries {
		if pre.Entries[i].Term != post.Entries[i].Term || pre.Entries[i].Index != post.Entries[i].Index {
			w.Violations = append(w.Violations, sim.Violation{Key: "restart-rewrites-log", Desc: fmt.Sprintf("node %d: entry %d changed across the restart", id, pre.Entries[i].Index)})
			return
		}
	}
	if st.Commit < pre.HS.Commit {
		w.Violations = append(w.Violations, sim.Violation{Key: "restart-loses-commit", Desc: fmt.Sprintf("node %d had commit %d durable, runs with commit %d", id, pre.HS.Commit, st.Commit)})
	}
}

func enabled(w *wld) []event {
	var out []event
	live := 0
	for _, n := range w.Nodes {
		if !n.Crashed {
			live++
		}
	}
	for _, n := range w.Nodes {
		if n.Crashed {
			out = append(out, event{Kind: "restart", Node: n.ID})
			continue
		}
		st, ok := w.Status(n.ID)
		if ok && st.Lead != 0 && w.used.proposals < limits.proposals && st.RaftState == etcdRaft.StateLeader {
			out = append(out, event{Kind: "propose", Node: n.ID, Arg: w.used.proposals + 1})
		}
		if ok && st.RaftState != etcdRaft.StateLeader && w.used.timeouts < limits.timeouts {
			out = append(out, event{Kind: "timeout", Node: n.ID})
		}
		if ok && st.RaftState == etcdRaft.StateLeader && w.used.ticks < limits.ticks {
			out = append(out, event{Kind: "tick", Node: n.ID})
		}
		if w.used.crashes < limits.crashes && live > 1 || w.used.crashes < limits.crashes && w.n == 1 {
			out = append(out, event{Kind: "crash", Node: n.ID})
			out = append(out, event{Kind: "crashat", Node: n.ID, After: false})
			out = append(out, event{Kind: "crashat", Node: n.ID, After: true})
		}
		if w.used.snapshots < limits.snapshots && ok && st.Applied > 1 {
			out = append(out, event{Kind: "snapshot", Node: n.ID})
		}
	}
	seen := map[string]bool{}
	for _, m := range w.SortedNet() {
		k := m.Key()
		if seen[k] {
			continue
		}
		seen[k] = true
		out = append(out, event{Kind: "deliver", Msg: k})
		if w.used.drops < limits.drops {
			out = append(out, event{Kind: "drop", Msg: k})
		}
		if w.used.dups < limits.dups {
			out = append(out, event{Kind: "dup", Msg: k})
		}
	}
	if w.used.cuts < limits.cuts && w.n >= 2 {
		out = append(out, event{Kind: "cut", Node: 1, Peer: 2})
	}
	for c := range w.Cut {
		if c[0] < c[1] {
			out = append(out, event{Kind: "heal", Node: c[0], Peer: c[1]})
		}
	}
	return out
}

// converge: bounded liveness probe from a state — heal, restart everything, deliver all
// messages, time-outs round robin; afterwards all live replicas must hold equal applied lists.
func converge(w *wld) (string, string) {
	w.Disarm(0) // faults stop
	for c := range w.Cut {
		delete(w.Cut, c)
	}
	for _, n := range w.Nodes {
		if n.Crashed {
			pre := w.Disk(n.ID)
			w.Start(n.ID)
			w.checkRestart(n.ID, pre)
		}
	}
	for round := 0; round < 12; round++ {
		for i := 0; i < 200 && len(w.Net) > 0; i++ {
			w.Deliver(w.SortedNet()[0], false)
		}
		if len(w.Violations) > 0 {
			return w.Violations[0].Key, "during the fair suffix: " + w.Violations[0].Desc
		}
		hasLeader := false
		for _, n := range w.Nodes {
			if st, ok := w.Status(n.ID); ok && st.RaftState == etcdRaft.StateLeader {
				hasLeader = true
				w.Tick(n.ID, 1)
			}
		}
		if !hasLeader {
			w.Tick(uint64(round%w.n+1), 10)
		}
		w.CheckLeaders()
		w.CheckLogMatching()
	}
	for i := 0; i < 400 && len(w.Net) > 0; i++ {
		w.Deliver(w.SortedNet()[0], false)
	}
	if len(w.Violations) > 0 {
		return w.Violations[0].Key, "during the fair suffix: " + w.Violations[0].Desc
	}
	// nobody proposed a membership change: the group the leader runs is the group that was started
	for _, n := range w.Nodes {
		if st, ok := w.Status(n.ID); ok && st.RaftState == etcdRaft.StateLeader {
			var members []uint64
			for id := range st.Progress {
				members = append(members, id)
			}
			sort.Slice(members, func(i, j int) bool { return members[i] < members[j] })
			if fmt.Sprint(members) != fmt.Sprint(w.Peers) {
				return "group-membership-changed-by-itself", fmt.Sprintf("no membership change was ever proposed; after the fair suffix the leader (node %d) runs the group with members %v, started with %v", n.ID, members, w.Peers)
			}
		}
	}
	ref := ""
	for i, n := range w.Nodes {
		d := n.App.Digest()
		if all := strings.Join(w.longest, ","); d != all {
			// what any replica ever applied was committed, hence durable on a quorum: once the faults have stopped every
			// replica - restarted or not - has applied all of it again
			return "replica-ends-without-what-was-applied", fmt.Sprintf("after healing, restarting every replica, delivering every message and 12 rounds of time-outs/heartbeats, node %d has applied [%s]; [%s] had been applied before", n.ID, d, all)
		}
		if i == 0 {
			ref = d
		} else if d != ref {
			return "replicas-do-not-converge", fmt.Sprintf("after healing, restarting every replica, delivering every message and 12 rounds of time-outs/heartbeats, node 1 applied [%s] and node %d applied [%s]", ref, n.ID, d)
		}
	}
	return "", ""
}

type result struct {
	St         seq.Stats
	Probes     int
	Violations []struct {
		Key, Desc string
		Path      []event
		Nodes     int
	}
}

type phase struct {
	name   string
	nodes  int
	depth  int
	lim    budget
	prefix []event // fixed prefix leading to an interesting root (replayed, not explored)
}

// directed histories: situations a bounded BFS from boot does not reach (a follower lagging behind a compacted log).
// Every prefix of each history is followed by the convergence probe.
func directed() map[string][]event {
	lag := []event{
		{Kind: "timeout", Node: 1}, {Kind: "drain"},
		{Kind: "cut", Node: 1, Peer: 3}, // n3 falls behind
		{Kind: "propose", Node: 1, Arg: 1}, {Kind: "drain"},
		{Kind: "propose", Node: 1, Arg: 2}, {Kind: "drain"},
		{Kind: "snapshot", Node: 1}, {Kind: "snapshot", Node: 2}, // the leader compacts what n3 lacks
		{Kind: "heal", Node: 1, Peer: 3},
		{Kind: "tick", Node: 1}, {Kind: "deliver1", Msg: "1>3 MsgHeartbeat"},
	}
	h := map[string][]event{}
	// the snapshot message cannot be sent (the link fails again just before)
	h["lagging-follower-snapshot-rpc-fails"] = append(append([]event{}, lag...),
		event{Kind: "cut", Node: 1, Peer: 3}, event{Kind: "deliver1", Msg: "3>1 MsgHeartbeatResp"}, event{Kind: "drain"})
	// the snapshot message is sent and lost
	h["lagging-follower-snapshot-lost-in-flight"] = append(append([]event{}, lag...),
		event{Kind: "deliver1", Msg: "3>1 MsgHeartbeatResp"}, event{Kind: "drop1", Msg: "1>3 MsgSnap"}, event{Kind: "drain"})
	// the snapshot arrives; the follower crashes while installing it (before / after the flush) and restarts
	for _, after := range []bool{false, true} {
		h[fmt.Sprintf("lagging-follower-crashes-installing-snapshot-after-flush-%v", after)] = append(append([]event{}, lag...),
			event{Kind: "deliver1", Msg: "3>1 MsgHeartbeatResp"}, event{Kind: "crashat", Node: 3, After: after}, event{Kind: "deliver1", Msg: "1>3 MsgSnap"}, event{Kind: "drain"})
	}
	// the snapshot message is slow; meanwhile the leader (whose transport has reported the snapshot as sent) probes with
	// the entries behind it; both reach the follower together while its ready loop is busy: one Ready carries the snapshot
	// AND the committed entries that follow it
	h["lagging-follower-snapshot-and-following-append-in-one-ready"] = append(append([]event{}, lag...),
		event{Kind: "deliver1", Msg: "3>1 MsgHeartbeatResp"},
		event{Kind: "propose", Node: 1, Arg: 3}, event{Kind: "deliver1", Msg: "1>2 MsgApp"}, event{Kind: "deliver1", Msg: "2>1 MsgAppResp"},
		event{Kind: "tick", Node: 1}, event{Kind: "deliver1", Msg: "1>3 MsgHeartbeat"}, event{Kind: "deliver1", Msg: "3>1 MsgHeartbeatResp"},
		event{Kind: "burst", Node: 3, Msg: "MsgSnap,MsgApp"}, event{Kind: "drain"})
	// the leader changes while the follower still lags behind the compacted log
	h["lagging-follower-then-leader-change"] = append(append([]event{}, lag...),
		event{Kind: "crash", Node: 1}, event{Kind: "timeout", Node: 2}, event{Kind: "drain"}, event{Kind: "propose", Node: 2, Arg: 3}, event{Kind: "drain"})
	// plain restarts (no snapshot anywhere): a replica that comes back must be handed every position again - its state
	// machine lives in memory - and continue where the others are
	base := []event{{Kind: "timeout", Node: 1}, {Kind: "drain"}, {Kind: "propose", Node: 1, Arg: 1}, {Kind: "drain"}}
	h["follower-restarts-between-two-commits"] = append(append([]event{}, base...),
		event{Kind: "crash", Node: 2}, event{Kind: "propose", Node: 1, Arg: 2}, event{Kind: "drain"}, event{Kind: "restart", Node: 2}, event{Kind: "drain"},
		event{Kind: "propose", Node: 1, Arg: 3}, event{Kind: "drain"})
	h["leader-restarts-and-follows"] = append(append([]event{}, base...),
		event{Kind: "crash", Node: 1}, event{Kind: "timeout", Node: 2}, event{Kind: "drain"}, event{Kind: "propose", Node: 2, Arg: 2}, event{Kind: "drain"},
		event{Kind: "restart", Node: 1}, event{Kind: "drain"}, event{Kind: "propose", Node: 2, Arg: 3}, event{Kind: "drain"})
	h["every-replica-restarts"] = append(append([]event{}, base...),
		event{Kind: "propose", Node: 1, Arg: 2}, event{Kind: "drain"},
		event{Kind: "crash", Node: 1}, event{Kind: "crash", Node: 2}, event{Kind: "crash", Node: 3})
	// the same with a local snapshot in the middle of what was applied: snapshot + the rest of the log
	h["every-replica-restarts-after-a-snapshot"] = append(append([]event{}, base...),
		event{Kind: "snapshot", Node: 1}, event{Kind: "snapshot", Node: 2}, event{Kind: "snapshot", Node: 3},
		event{Kind: "propose", Node: 1, Arg: 2}, event{Kind: "drain"},
		event{Kind: "crash", Node: 1}, event{Kind: "crash", Node: 2}, event{Kind: "crash", Node: 3})
	// restart after a compaction, compact again, restart again: the second snapshot is taken by a process that never
	// applied a membership change itself (they are all behind its first snapshot)
	h["two-lives-two-snapshots"] = append(append([]event{}, base...),
		event{Kind: "snapshot", Node: 1}, event{Kind: "snapshot", Node: 2}, event{Kind: "snapshot", Node: 3},
		event{Kind: "crash", Node: 1}, event{Kind: "crash", Node: 2}, event{Kind: "crash", Node: 3},
		event{Kind: "restart", Node: 1}, event{Kind: "restart", Node: 2}, event{Kind: "restart", Node: 3},
		event{Kind: "timeout", Node: 1}, event{Kind: "drain"}, event{Kind: "propose", Node: 1, Arg: 2}, event{Kind: "drain"},
		event{Kind: "snapshot", Node: 1}, event{Kind: "snapshot", Node: 2}, event{Kind: "snapshot", Node: 3},
		event{Kind: "crash", Node: 1}, event{Kind: "crash", Node: 2}, event{Kind: "crash", Node: 3})
	return h
}

func phases(thorough bool) []phase {
	elect3 := []event{{Kind: "timeout", Node: 1}}
	ps := []phase{
		{"single-replica", 1, 6, budget{proposals: 2, crashes: 2, timeouts: 2, ticks: 0, snapshots: 1}, nil},
		{"three-replicas-from-boot", 3, 4, budget{proposals: 1, crashes: 1, drops: 1, dups: 1, timeouts: 2, ticks: 1, cuts: 0}, nil},
		{"three-replicas-after-election-start", 3, 4, budget{proposals: 1, crashes: 1, drops: 1, dups: 1, timeouts: 2, ticks: 1, snapshots: 1}, elect3},
	}
	if thorough {
		ps = []phase{
			{"single-replica", 1, 9, budget{proposals: 3, crashes: 2, timeouts: 3, ticks: 1, snapshots: 2}, nil},
			{"two-replicas", 2, 6, budget{proposals: 2, crashes: 2, drops: 1, dups: 1, timeouts: 2, ticks: 1, snapshots: 1, cuts: 1}, nil},
			{"three-replicas-from-boot", 3, 6, budget{proposals: 2, crashes: 2, drops: 2, dups: 1, timeouts: 3, ticks: 1, cuts: 1}, nil},
			{"three-replicas-after-election-start", 3, 6, budget{proposals: 3, crashes: 2, drops: 2, dups: 1, timeouts: 2, ticks: 2, snapshots: 1, cuts: 1}, elect3},
			{"five-replicas-shallow", 5, 3, budget{proposals: 1, crashes: 1, drops: 1, timeouts: 1}, elect3},
		}
	}
	return ps
}

const c06Keys = `^(term|entries|entries-error|firstindex|lastindex|snapshot|initialstate|save-error|create-snapshot-error|create-snapshot-value|nil|panic)$`

const c06DelKeys = `^after-delete-`

const c20Keys = `^(unattached-node-bootstraps-a-zero-group-of-its-own|panic:)`

func main() {
	thorough := os.Getenv("VERIF_TIER") == "thorough"
	tbudget := 110 * time.Second
	if thorough {
		tbudget = 25 * time.Minute
	}
	if len(os.Args) > 2 && os.Args[1] == "--replay" {
		if ev.PartOf(os.Args[2]) == "C06" {
			ev.ReplayPart("C05", os.Getenv("VERIF_BIN_C06"), c06Keys+"|"+c06DelKeys, os.Args[2])
		}
		if ev.PartOf(os.Args[2]) == "C20" {
			ev.ReplayPart("C05", os.Getenv("VERIF_BIN_C20"), c20Keys, os.Args[2], "VERIF_PART_MODE=directed", "VERIF_TUNABLE_snapshotOffset=0")
		}
		var f struct {
			Replay struct {
				Nodes int     `json:"nodes"`
				Path  []event `json:"path"`
				Probe bool    `json:"probe"`
			} `json:"replay"`
		}
		b, _ := os.ReadFile(os.Args[2])
		json.Unmarshal(b, &f)
		nodes = f.Replay.Nodes
		limits = budget{99, 99, 99, 99, 99, 99, 99, 99}
		w, k, d := build(f.Replay.Path)
		if k == "" && f.Replay.Probe {
			k, d = converge(w)
		}
		fmt.Println(w.Canon())
		w.Close()
		if k != "" && ev.Counts(k) {
			fmt.Printf("VIOLATION property=%s replay=%s\n  %s: %s\n", ev.As("C05"), os.Args[2], k, d)
			os.Exit(1)
		}
		fmt.Println("replay: property held")
		return
	}
	if si, sn, ok := shard.Child(); ok {
		var res result
		res.St.Outcomes = map[string]int{}
		res.St.Complete = true
		deadline := time.Now().Add(tbudget)
		if si == 0 {
			// determinism self-check: the same history twice must give the same canonical state
			nodes, limits = 3, budget{99, 99, 99, 99, 99, 99, 99, 99}
			probe := []event{{Kind: "timeout", Node: 1}, {Kind: "crashat", Node: 2, After: true}, {Kind: "timeout", Node: 3}}
			w1, _, _ := build(probe)
			for i := 0; i < 3 && len(w1.Net) > 0; i++ {
				w1.Deliver(w1.SortedNet()[0], false)
			}
			c1 := w1.Canon()
			w1.Close()
			w2, _, _ := build(probe)
			for i := 0; i < 3 && len(w2.Net) > 0; i++ {
				w2.Deliver(w2.SortedNet()[0], false)
			}
			c2 := w2.Canon()
			w2.Close()
			if c1 != c2 {
				ev.Tool("the simulated cluster is not deterministic: two runs of the same history differ\n%s\n%s", c1, c2)
			}
		}
		if si == 0 {
			nodes, limits = 3, budget{99, 99, 99, 99, 99, 99, 99, 99}
			for name, h := range directed() {
				for cut := 1; cut <= len(h); cut++ {
					w, k, d := build(h[:cut])
					if k == "" {
						k, d = converge(w)
						res.Probes++
					}
					w.Close()
					res.St.Transitions++
					res.St.Outcomes["directed: "+map[bool]string{true: "ok", false: k}[k == ""]]++
					if k != "" {
						dup := false
						for _, v := range res.Violations {
							dup = dup || v.Key == "probe:"+k
						}
						if !dup {
							res.Violations = append(res.Violations, struct {
								Key, Desc string
								Path      []event
								Nodes     int
							}{"probe:" + k, fmt.Sprintf("directed history %s, prefix of %d events: %s", name, cut, d), h[:cut], 3})
						}
					}
				}
			}
		}
		directedOnly := os.Getenv("VERIF_AS") != "" && os.Getenv("VERIF_PART_MODE") == "directed"
		for _, ph := range phases(thorough) {
			if directedOnly {
				break // borrowed phase "directed": only the directed histories (shard 0 ran them above)
			}
			ph := ph
			nodes, limits = ph.nodes, ph.lim
			probeEvery := 0
			st := seq.BFS(seq.Config[*wld, event]{
				Depth: ph.depth, Workers: 1, Deadline: deadline,
				Build: func(wi int, path []event) (*wld, string, string) {
					full := append(append([]event{}, ph.prefix...), path...)
					w, k, d := build(full)
					if k == "" && len(path) > 0 {
						// convergence probe on a throw-away copy for every 4th new path (bounded liveness)
						probeEvery++
						if probeEvery%4 == 0 {
							w.Close()
							w2, _, _ := build(full)
							k, d = converge(w2)
							if k != "" {
								k = "probe:" + k
							}
							w2.Close()
							res.Probes++
							w, _, _ = build(full)
						}
					}
					if k != "" {
						w.Close()
					}
					return w, k, d
				},
				Enabled:    func(w *wld) []event { e := enabled(w); w.Close(); return e },
				Canon:      func(w *wld) string { c := w.Canon(); w.Close(); return c },
				RootFilter: func(i int, o event) bool { return i%sn == si },
				OnViolation: func(key, desc string, path []event) {
					for _, v := range res.Violations {
						if v.Key == key {
							return
						}
					}
					res.Violations = append(res.Violations, struct {
						Key, Desc string
						Path      []event
						Nodes     int
					}{key, desc, append(append([]event{}, ph.prefix...), path...), ph.nodes})
				},
			})
			res.St.States += st.States
			res.St.Transitions += st.Transitions
			res.St.Complete = res.St.Complete && st.Complete
			for k, v := range st.Outcomes {
				res.St.Outcomes[ph.name+": "+k] += v
			}
		}
		shard.Emit(res)
		return
	}
	run := ev.Start("C05", "model_checking")
	const n = 16
	total := seq.Stats{Outcomes: map[string]int{}, Complete: true}
	probes := 0
	shard.Run(n, n, []string{"VERIF_TUNABLE_snapshotOffset=0"}, func(i int, raw []byte) error {
		var r result
		if err := json.Unmarshal(raw, &r); err != nil {
			return err
		}
		total.States += r.St.States
		total.Transitions += r.St.Transitions
		total.Complete = total.Complete && r.St.Complete
		probes += r.Probes
		for k, v := range r.St.Outcomes {
			total.Outcomes[k] += v
		}
		for _, v := range r.Violations {
			probe := strings.HasPrefix(v.Key, "probe:")
			run.Violation(strings.TrimPrefix(v.Key, "probe:"), v.Desc, map[string]interface{}{"nodes": v.Nodes, "path": v.Path, "probe": probe})
		}
		return nil
	})
	var pn []string
	for _, ph := range phases(thorough) {
		pn = append(pn, fmt.Sprintf("%s(N=%d depth %d)", ph.name, ph.nodes, ph.depth))
	}
	run.Assumptions = []string{
		"a transition = one event + running the real handlers to quiescence under the default schedule (interleavings inside a transition are C11/C13's business)",
		"crash points: at quiescence, and immediately before / after the next durable Badger write of the node (a single flush is atomic)",
		"restart = the same constructor call the production callers make (peer list passed again); election timeout is exactly 10 ticks (etcd's randomisation pinned)",
		"the convergence probe (heal, restart all, deliver all, 12 rounds) runs from every 4th explored history and is a bounded liveness check",
	}
	// "after a restart it resumes from a term and log no older than what it had made durable": what the replica reads
	// back is the log store's answer - C06's single-group phase counts here for every answer raft would get wrong
	if os.Getenv("VERIF_AS") == "" {
		run.RunPart("log-store-C06", os.Getenv("VERIF_BIN_C06"), c06Keys, "VERIF_PART_PHASES=^single-group$")
		// a replica that lost its place in a group and gets it back starts from an empty store - whatever the deleted
		// group leaves behind (a commit position, a vote) the new replica would resume from: C06's group-deletion answers
		run.RunPart("log-store-deletion-C06", os.Getenv("VERIF_BIN_C06"), c06DelKeys, "VERIF_PART_PHASES=^two-groups-adjacent-ids$")
		// "it neither re-bootstraps, forks history, nor panics": the start-up decision (bootstrap / join / restart) is taken
		// by the server; C20's directed histories on real servers count here for a node that starts a history of its own
		// and for panics
		run.RunPart("server-start-up-C20", os.Getenv("VERIF_BIN_C20"), c20Keys, "VERIF_PART_MODE=directed", "VERIF_TUNABLE_snapshotOffset=0")
	}
	run.Finish(ev.Coverage{
		"states":                        total.States,
		"transitions":                   total.Transitions,
		"traces_validated_against_impl": total.Transitions,
		"evaluations":                   total.Transitions,
		"distinct_nontrivial":           total.States,
		"rule":                          "BFS over event histories on the real components, phases " + strings.Join(pn, ", ") + "; distinct = canonical world digest (per node durable hard state / log / snapshot, raft status incl. progress, applied list, crash flags, armed crash, in-flight multiset, cut links)",
		"convergence_probes":            probes,
		"outcome_classes":               total.Outcomes,
		"samples":                       []interface{}{[]event{{Kind: "timeout", Node: 1}, {Kind: "deliver", Msg: "1>2 MsgVote ..."}, {Kind: "crashat", Node: 2, After: true}, {Kind: "restart", Node: 2}}},
		"exhaustive":                    total.Complete,
	})
}
