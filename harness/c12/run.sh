#!/bin/bash
set -u
cd "$(dirname "$0")/../.."
w="${VERIF_WORK:-$PWD/.work/c12.$$}"; mkdir -p "$w"
if ! lib/instr_build.sh harness/c12 "$w/bin" 2> "$w/build.log"; then
  cat "$w/build.log" >&2; echo "TOOL-ERROR: instrumented build failed" >&2; exit 2
fi
# borrowed phase: C11's write-path scenarios (interleaved callers)
if ! INSTR_REUSE=1 lib/instr_build.sh harness/c11 "$w/bin-c11" 2> "$w/build2.log"; then
  cat "$w/build2.log" >&2; echo "TOOL-ERROR: instrumented build failed" >&2; exit 2
fi
[ "${1:-}" = "--warm" ] && exit 0
{ flock -u 9 && exec 9>&-; } 2>/dev/null  # the build is done: release the shared lock on /repo's working tree (.work/repo.lock)
VERIF_BIN_C11="$w/bin-c11" VERIF_TUNABLE_snapshotOffset=0 exec "$w/bin" "$@"
