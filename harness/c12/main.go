// C12 — no request can crash a node or poison the replicated log.
//
// E2-world, E3-style enumeration: one simulated node running the REAL Server.setup() with the
// real service objects (DatasetManager, DataManager, Search). After a fixed prefix (create a
// 2-dim dataset, insert one item with metadata) EVERY sequence of <= 2 requests from an alphabet
// of well-typed but hostile protobuf requests (malformed ids, zero dimensions / partitions /
// replicas, empty vectors, missing metadata, k = 0 and k >= 2^31, non-finite numbers, over-long
// metadata, oversized batches, unknown datasets) is sent; then the node is crashed, restarted
// (the log is replayed) and probed. Workers run under an address-space limit and journal each
// sequence, so a dead worker is attributed to the exact requests.
package main

import (
	"context"
	"encoding/json"
	"fmt"
	"math"
	"os"
	"path/filepath"
	"strings"
	"sync"
	"time"

	"anndbverif/lib/ev"
	"anndbverif/lib/shard"
	"anndbverif/sim"
	"anndbverif/vrt/fakes"
	"anndbverif/vrt/serverenv"
	"anndbverif/world"

	pb "github.com/marekgalovic/anndb/protobuf"
)

// ctxT is what a request may refer to.
type ctxT struct {
	D, L []byte // the prefix dataset, the dataset created last by the sequence (may be nil)
	A    []byte // id of the item inserted by the prefix
	P    []byte // partition id of D
}

type request struct {
	Name string
	Do   func(n *fakes.Node, c *ctxT) (interface{}, error)
}

func idShapes(c *ctxT, existing []byte) map[string][]byte {
	return map[string][]byte{"existing": existing, "unknown": world.ID(0xee, 0xee).Bytes(), "15-bytes": make([]byte, 15), "17-bytes": make([]byte, 17), "empty": nil}
}

func bigMeta(kind string) map[string]string {
	switch kind {
	case "absent":
		return nil
	case "kv":
		return map[string]string{"k": "v2"}
	case "key-256":
		return map[string]string{strings.Repeat("k", 256): "v"}
	case "key-86-cjk-chars":
		return map[string]string{strings.Repeat("\u65e5", 86): "v"} // 86 characters, 258 bytes
	case "value-65536":
		return map[string]string{"k": strings.Repeat("v", 65536)}
	case "65536-keys":
		m := map[string]string{}
		for i := 0; i < 65536; i++ {
			m[fmt.Sprintf("%05x", i)] = ""
		}
		return m
	}
	return nil
}

var nan = float32(math.NaN())
var inf = float32(math.Inf(1))

// storedVec is the vector of the prefix item; scaledVec is parallel to it but not bit-proportional: all three cosine
// kernels return 1 - cos = -1.19e-07 for the pair, which only the Abs in space.Cosine keeps out of the priority queues
var storedVec = []float32{0.37, 0.11}

func scaledVec() []float32 {
	three := float32(3)
	return []float32{storedVec[0] * three, storedVec[1] * three}
}

func vectors() map[string][]float32 {
	return map[string][]float32{"empty": {}, "ok": {1, 2}, "too-long": {1, 2, 3}, "nan-inf": {nan, inf}, "huge": {3e38, -3e38}, "scaled-copy-of-stored": scaledVec(), "zero": {0, 0}}
}

func alphabet() []request {
	var rs []request
	add := func(name string, f func(n *fakes.Node, c *ctxT) (interface{}, error)) {
		rs = append(rs, request{name, f})
	}
	bg := context.Background()
	// ---- DatasetManager ----
	add("List(withSize)", func(n *fakes.Node, c *ctxT) (interface{}, error) {
		st := &fakes.DatasetServerStream{Ctx: bg}
		return nil, n.Datasets.List(&pb.ListDatasetsRequest{WithSize: true}, st)
	})
	for _, idn := range []string{"existing", "unknown", "15-bytes", "empty"} {
		idn := idn
		add("Get("+idn+",withSize)", func(n *fakes.Node, c *ctxT) (interface{}, error) {
			return n.Datasets.Get(bg, &pb.GetDatasetRequest{DatasetId: idShapes(c, c.D)[idn], WithSize: true})
		})
		add("GetDatasetSize("+idn+")", func(n *fakes.Node, c *ctxT) (interface{}, error) {
			return n.Datasets.GetDatasetSize(bg, &pb.GetDatasetRequest{DatasetId: idShapes(c, c.D)[idn]})
		})
		add("Delete("+idn+")", func(n *fakes.Node, c *ctxT) (interface{}, error) {
			return n.Datasets.Delete(bg, &pb.UUIDRequest{Id: idShapes(c, c.D)[idn]})
		})
	}
	type cr struct {
		dim, p, r uint32
		space     int32
	}
	for _, x := range []cr{{2, 1, 1, 0}, {0, 1, 1, 0}, {2, 0, 1, 0}, {2, 1, 0, 0}, {2, 1, 1, 7}, {2, 1 << 20, 1, 0}, {2, 2, 2, 2}, {2, 1, 1, -1}, {2, 1, 1, math.MinInt32}, {2, 1, 1, 3}} {
		x := x
		add(fmt.Sprintf("Create(dim=%d,P=%d,R=%d,space=%d)", x.dim, x.p, x.r, x.space), func(n *fakes.Node, c *ctxT) (interface{}, error) {
			d, err := n.Datasets.Create(bg, &pb.Dataset{Dimension: x.dim, PartitionCount: x.p, ReplicationFactor: x.r, Space: pb.Space(x.space)})
			if err == nil && d != nil {
				c.L = d.Id
			}
			return d, err
		})
	}
	add("GetDatasetSize(last-created)", func(n *fakes.Node, c *ctxT) (interface{}, error) {
		return n.Datasets.GetDatasetSize(bg, &pb.GetDatasetRequest{DatasetId: c.L})
	})
	// ---- DataManager ----
	for _, dsn := range []string{"D", "L", "unknown", "15-bytes"} {
		dsn := dsn
		ds := func(c *ctxT) []byte {
			switch dsn {
			case "D":
				return c.D
			case "L":
				return c.L
			case "unknown":
				return world.ID(0xee, 0xee).Bytes()
			}
			return make([]byte, 15)
		}
		add("Insert(ds="+dsn+",new id,ok)", func(n *fakes.Node, c *ctxT) (interface{}, error) {
			return n.Data.Insert(bg, &pb.InsertRequest{DatasetId: ds(c), Id: world.ID(0x51, 0x52).Bytes(), Value: []float32{1, 2}, Metadata: map[string]string{"k": "v"}})
		})
		add("Insert(ds="+dsn+",new id,empty vector)", func(n *fakes.Node, c *ctxT) (interface{}, error) {
			return n.Data.Insert(bg, &pb.InsertRequest{DatasetId: ds(c), Id: world.ID(0x53, 0x54).Bytes(), Value: []float32{}})
		})
		add("Insert(ds="+dsn+",second new id,empty vector)", func(n *fakes.Node, c *ctxT) (interface{}, error) {
			return n.Data.Insert(bg, &pb.InsertRequest{DatasetId: ds(c), Id: world.ID(0x55, 0x56).Bytes(), Value: []float32{}})
		})
		add("Search(ds="+dsn+",ok,k=3)", func(n *fakes.Node, c *ctxT) (interface{}, error) {
			st := &fakes.ItemServerStream{Ctx: bg}
			return nil, n.Search.Search(&pb.SearchRequest{DatasetId: ds(c), Query: []float32{1, 2}, K: 3}, st)
		})
		add("Search(ds="+dsn+",empty query,k=1)", func(n *fakes.Node, c *ctxT) (interface{}, error) {
			st := &fakes.ItemServerStream{Ctx: bg}
			return nil, n.Search.Search(&pb.SearchRequest{DatasetId: ds(c), Query: []float32{}, K: 1}, st)
		})
	}
	for vn, v := range vectors() {
		vn, v := vn, v
		add("Insert(D,new id,"+vn+")", func(n *fakes.Node, c *ctxT) (interface{}, error) {
			return n.Data.Insert(bg, &pb.InsertRequest{DatasetId: c.D, Id: world.ID(0x61, 0x62).Bytes(), Value: v})
		})
		add("Update(D,A,"+vn+",metadata absent)", func(n *fakes.Node, c *ctxT) (interface{}, error) {
			return n.Data.Update(bg, &pb.UpdateRequest{DatasetId: c.D, Id: c.A, Value: v})
		})
		add("Search(D,"+vn+",k=2)", func(n *fakes.Node, c *ctxT) (interface{}, error) {
			st := &fakes.ItemServerStream{Ctx: bg}
			return nil, n.Search.Search(&pb.SearchRequest{DatasetId: c.D, Query: v, K: 2}, st)
		})
		// the node-to-node search RPC is as public as the others
		add("SearchPartitions(D,[existing],"+vn+",k=2)", func(n *fakes.Node, c *ctxT) (interface{}, error) {
			st := &fakes.ItemServerStream{Ctx: bg}
			return nil, n.Search.SearchPartitions(&pb.SearchPartitionsRequest{DatasetId: c.D, PartitionIds: [][]byte{c.P}, Query: v, K: 2}, st)
		})
	}
	for _, idn := range []string{"existing", "unknown", "15-bytes", "17-bytes", "empty"} {
		idn := idn
		add("Insert(D,id "+idn+")", func(n *fakes.Node, c *ctxT) (interface{}, error) {
			return n.Data.Insert(bg, &pb.InsertRequest{DatasetId: c.D, Id: idShapes(c, c.A)[idn], Value: []float32{1, 2}})
		})
		add("Update(D,id "+idn+")", func(n *fakes.Node, c *ctxT) (interface{}, error) {
			return n.Data.Update(bg, &pb.UpdateRequest{DatasetId: c.D, Id: idShapes(c, c.A)[idn], Value: []float32{3, 4}, Metadata: map[string]string{"k": "w"}})
		})
		add("Remove(D,id "+idn+")", func(n *fakes.Node, c *ctxT) (interface{}, error) {
			return n.Data.Remove(bg, &pb.RemoveRequest{DatasetId: c.D, Id: idShapes(c, c.A)[idn]})
		})
		add("BatchInsert(D,[ok, id "+idn+"])", func(n *fakes.Node, c *ctxT) (interface{}, error) {
			return n.Data.BatchInsert(bg, &pb.BatchRequest{DatasetId: c.D, Items: []*pb.BatchItem{{Id: world.ID(0x71, 0x72).Bytes(), Value: []float32{1, 2}}, {Id: idShapes(c, c.A)[idn], Value: []float32{1, 2}}}})
		})
		add("BatchUpdate(D,[id "+idn+", metadata absent])", func(n *fakes.Node, c *ctxT) (interface{}, error) {
			return n.Data.BatchUpdate(bg, &pb.BatchRequest{DatasetId: c.D, Items: []*pb.BatchItem{{Id: idShapes(c, c.A)[idn], Value: []float32{5, 6}}}})
		})
		add("BatchRemove(D,[id "+idn+"])", func(n *fakes.Node, c *ctxT) (interface{}, error) {
			return n.Data.BatchRemove(bg, &pb.BatchRequest{DatasetId: c.D, Items: []*pb.BatchItem{{Id: idShapes(c, c.A)[idn]}}})
		})
		add("PartitionBatchInsert(D,partition "+idn+")", func(n *fakes.Node, c *ctxT) (interface{}, error) {
			return n.Data.PartitionBatchInsert(bg, &pb.PartitionBatchRequest{DatasetId: c.D, PartitionId: idShapes(c, c.P)[idn], Items: []*pb.BatchItem{{Id: world.ID(0x73, 0x74).Bytes(), Value: []float32{1, 2}}}})
		})
		add("PartitionInfo(D,partition "+idn+")", func(n *fakes.Node, c *ctxT) (interface{}, error) {
			return n.Data.PartitionInfo(bg, &pb.PartitionInfoRequest{DatasetId: c.D, PartitionId: idShapes(c, c.P)[idn]})
		})
		add("SearchPartitions(D,["+idn+"])", func(n *fakes.Node, c *ctxT) (interface{}, error) {
			st := &fakes.ItemServerStream{Ctx: bg}
			return nil, n.Search.SearchPartitions(&pb.SearchPartitionsRequest{DatasetId: c.D, PartitionIds: [][]byte{idShapes(c, c.P)[idn]}, Query: []float32{1, 2}, K: 2}, st)
		})
	}
	for _, op := range []string{"Insert", "Update", "Remove"} {
		op := op
		add("PartitionBatch"+op+"(D,existing partition,[item id 15-bytes])", func(n *fakes.Node, c *ctxT) (interface{}, error) {
			req := &pb.PartitionBatchRequest{DatasetId: c.D, PartitionId: c.P, Items: []*pb.BatchItem{{Id: world.ID(0x75, 0x76).Bytes(), Value: []float32{1, 2}}, {Id: make([]byte, 15), Value: []float32{1, 2}}}}
			switch op {
			case "Insert":
				return n.Data.PartitionBatchInsert(bg, req)
			case "Update":
				return n.Data.PartitionBatchUpdate(bg, req)
			}
			return n.Data.PartitionBatchRemove(bg, req)
		})
		add("PartitionBatch"+op+"(D,existing partition,[wrong dimension, metadata key-256])", func(n *fakes.Node, c *ctxT) (interface{}, error) {
			req := &pb.PartitionBatchRequest{DatasetId: c.D, PartitionId: c.P, Items: []*pb.BatchItem{{Id: c.A, Value: []float32{1, 2, 3}, Metadata: bigMeta("key-256")}}}
			switch op {
			case "Insert":
				return n.Data.PartitionBatchInsert(bg, req)
			case "Update":
				return n.Data.PartitionBatchUpdate(bg, req)
			}
			return n.Data.PartitionBatchRemove(bg, req)
		})
	}
	for _, op := range []string{"Insert", "Update", "Remove"} {
		op := op
		// the forwarded batch RPCs called directly with nothing in them
		add("PartitionBatch"+op+"(D,existing partition,[])", func(n *fakes.Node, c *ctxT) (interface{}, error) {
			req := &pb.PartitionBatchRequest{DatasetId: c.D, PartitionId: c.P}
			switch op {
			case "Insert":
				return n.Data.PartitionBatchInsert(bg, req)
			case "Update":
				return n.Data.PartitionBatchUpdate(bg, req)
			}
			return n.Data.PartitionBatchRemove(bg, req)
		})
	}
	// a request below the transport's 4 MB message limit whose log entry is a single value of 2.4 MB
	add("Insert(D,new id,metadata of 40 x 60000 bytes = 2.4 MB)", func(n *fakes.Node, c *ctxT) (interface{}, error) {
		m := map[string]string{}
		for i := 0; i < 40; i++ {
			m[fmt.Sprintf("key%02d", i)] = strings.Repeat("v", 60000)
		}
		return n.Data.Insert(bg, &pb.InsertRequest{DatasetId: c.D, Id: world.ID(0x83, 0x84).Bytes(), Value: []float32{1, 2}, Metadata: m})
	})
	for _, lvl := range []int32{-1, -2, math.MinInt32, 64, math.MaxInt32} {
		lvl := lvl
		// the level of an item is drawn by the proposing node; on the direct partition RPC it is whatever the client sends
		add(fmt.Sprintf("PartitionBatchInsert(D,existing partition,[two items, level=%d])", lvl), func(n *fakes.Node, c *ctxT) (interface{}, error) {
			return n.Data.PartitionBatchInsert(bg, &pb.PartitionBatchRequest{DatasetId: c.D, PartitionId: c.P, Items: []*pb.BatchItem{
				{Id: world.ID(0x77, 0x78).Bytes(), Value: []float32{1, 2}, Level: lvl}, {Id: world.ID(0x79, 0x7a).Bytes(), Value: []float32{2, 2}, Level: lvl}}})
		})
	}
	for _, mk := range []string{"kv", "key-256", "key-86-cjk-chars", "value-65536", "65536-keys"} {
		mk := mk
		add("Insert(D,new id,metadata "+mk+")", func(n *fakes.Node, c *ctxT) (interface{}, error) {
			return n.Data.Insert(bg, &pb.InsertRequest{DatasetId: c.D, Id: world.ID(0x81, 0x82).Bytes(), Value: []float32{1, 2}, Metadata: bigMeta(mk)})
		})
		add("Update(D,A,metadata "+mk+")", func(n *fakes.Node, c *ctxT) (interface{}, error) {
			return n.Data.Update(bg, &pb.UpdateRequest{DatasetId: c.D, Id: c.A, Value: []float32{1, 2}, Metadata: bigMeta(mk)})
		})
	}
	for _, k := range []uint32{0, 1 << 31, math.MaxUint32} {
		k := k
		add(fmt.Sprintf("Search(D,ok,k=%d)", k), func(n *fakes.Node, c *ctxT) (interface{}, error) {
			st := &fakes.ItemServerStream{Ctx: bg}
			return nil, n.Search.Search(&pb.SearchRequest{DatasetId: c.D, Query: []float32{1, 2}, K: k}, st)
		})
		add(fmt.Sprintf("SearchPartitions(D,[existing],k=%d)", k), func(n *fakes.Node, c *ctxT) (interface{}, error) {
			st := &fakes.ItemServerStream{Ctx: bg}
			return nil, n.Search.SearchPartitions(&pb.SearchPartitionsRequest{DatasetId: c.D, PartitionIds: [][]byte{c.P}, Query: []float32{1, 2}, K: k}, st)
		})
	}
	for _, sz := range []int{0, 100, 101} {
		sz := sz
		add(fmt.Sprintf("BatchInsert(D,%d items)", sz), func(n *fakes.Node, c *ctxT) (interface{}, error) {
			var items []*pb.BatchItem
			for i := 0; i < sz; i++ {
				items = append(items, &pb.BatchItem{Id: world.ID(uint64(0x1000+i), 0x91).Bytes(), Value: []float32{float32(i), 1}})
			}
			return n.Data.BatchInsert(bg, &pb.BatchRequest{DatasetId: c.D, Items: items})
		})
	}
	add("BatchRemove(D,[])", func(n *fakes.Node, c *ctxT) (interface{}, error) {
		return n.Data.BatchRemove(bg, &pb.BatchRequest{DatasetId: c.D})
	})
	return rs
}

type caseT struct {
	Prefix bool     `json:"after_prefix"`
	Cosine bool     `json:"cosine_prefix,omitempty"` // the prefix dataset uses the cosine metric
	Seq    []int    `json:"requests"`                // indices into the alphabet
	Names  []string `json:"names"`
}

// runCase executes one sequence on a fresh server. Returns violation key/desc.
func runCase(rs []request, c caseT) (string, string) {
	// simulated disks have small tables (a write batch may be 15% of one); a sequence with a multi-megabyte request gets
	// room for it, so that only the limits the server itself configures apply
	serverenv.TableSize = 1 << 20
	for _, ri := range c.Seq {
		if strings.Contains(rs[ri].Name, "2.4 MB") {
			serverenv.TableSize = 32 << 20
		}
	}
	w := sim.NewServers()
	defer w.Close()
	w.Add(1, nil)
	if err := w.Boot(1); err != nil {
		return "boot-fails", fmt.Sprint(err)
	}
	w.Tick(1, 10)
	w.Settle(1)
	cx := &ctxT{}
	node := func() *fakes.Node { return fakes.Registry[world.ServerAddr(1)] }
	call := func(name string, f func() (interface{}, error)) (returned bool, err error) {
		done := false
		w.S.Spawn(fmt.Sprintf("n1/rpc-%d", len(name)), false, func() {
			_, err = f()
			done = true
		})
		w.Quiesce()
		w.Settle(2)
		if !done {
			// time passes for the blocked handler: every deadline it created fires
			for i := 0; i < 3 && !done; i++ {
				w.FireDeadlines(1)
				w.Settle(1)
			}
		}
		return done, err
	}
	if c.Prefix {
		prefixSpace := pb.Space_Euclidean
		if c.Cosine {
			prefixSpace = pb.Space_Cosine
		}
		done, err := call("create", func() (interface{}, error) {
			d, err := node().Datasets.Create(context.Background(), &pb.Dataset{Dimension: 2, PartitionCount: 1, ReplicationFactor: 1, Space: prefixSpace})
			if err == nil {
				cx.D = d.Id
				cx.P = d.Partitions[0].Id
			}
			return d, err
		})
		if !done || err != nil {
			return "prefix-fails", fmt.Sprintf("create: returned=%v err=%v %v", done, err, w.Violations)
		}
		// the partition's group elects itself
		w.Tick(1, 12)
		w.Settle(1)
		cx.A = world.ID(0x41, 0x42).Bytes()
		done, err = call("insert", func() (interface{}, error) {
			return node().Data.Insert(context.Background(), &pb.InsertRequest{DatasetId: cx.D, Id: cx.A, Value: storedVec, Metadata: map[string]string{"k": "v"}})
		})
		if !done || err != nil {
			return "prefix-fails", fmt.Sprintf("insert: returned=%v err=%v %v", done, err, w.Violations)
		}
	}
	for i, ri := range c.Seq {
		r := rs[ri]
		done, rerr := call(r.Name, func() (interface{}, error) { return r.Do(node(), cx) })
		if os.Getenv("VERIF_DEBUG") != "" {
			fmt.Fprintf(os.Stderr, "request %s: returned=%v err=%v\n", r.Name, done, rerr)
		}
		if len(w.Violations) > 0 {
			v := w.Violations[0]
			where := "handler"
			if !strings.Contains(v.Desc, "rpc-") {
				where = "apply-or-background-thread"
			}
			return v.Key + ":" + where, fmt.Sprintf("request %d %s: %s", i+1, r.Name, v.Desc)
		}
		if !done {
			return "request-never-returns", fmt.Sprintf("request %d %s is still blocked after all of its deadlines fired: %s", i+1, r.Name, strings.Join(w.S.Blocked(), "; "))
		}
		// newly created datasets: let their groups elect
		w.Tick(1, 12)
		w.Settle(1)
		if len(w.Violations) > 0 {
			return w.Violations[0].Key + ":apply-or-background-thread", fmt.Sprintf("after request %d %s: %s", i+1, r.Name, w.Violations[0].Desc)
		}
	}
	// crash, restart (the log is replayed), probe; then compact every log into snapshots, crash,
	// restart from the snapshots, probe again
	for phase, what := range []string{"replay", "snapshot-restore"} {
		if phase == 1 {
			w.SnapshotTick(1)
			w.Settle(1)
			if len(w.Violations) > 0 {
				return "snapshot:" + w.Violations[0].Key, w.Violations[0].Desc
			}
		}
		w.Crash(1)
		if err := w.Boot(1); err != nil {
			return what + ":restart-fails", fmt.Sprintf("setup() returned %v", err)
		}
		w.Tick(1, 12)
		w.Settle(2)
		w.Tick(1, 12)
		w.Settle(1)
		if len(w.Violations) > 0 {
			return what + ":" + w.Violations[0].Key, fmt.Sprintf("restart (%s) after the requests: %s", what, w.Violations[0].Desc)
		}
		if k, d := probe(w, rs, c, cx, call); k != "" {
			return what + ":" + k, d
		}
	}
	return "", ""
}

func probe(w *sim.Servers, rs []request, c caseT, cx *ctxT, call func(string, func() (interface{}, error)) (bool, error)) (string, string) {
	node := func() *fakes.Node { return fakes.Registry[world.ServerAddr(1)] }
	done, err := call("probe-list", func() (interface{}, error) {
		st := &fakes.DatasetServerStream{Ctx: context.Background()}
		return nil, node().Datasets.List(&pb.ListDatasetsRequest{WithSize: true}, st)
	})
	if len(w.Violations) > 0 {
		return "probe:" + w.Violations[0].Key, w.Violations[0].Desc
	}
	if !done {
		return "probe-never-returns", "List(withSize) after the restart is blocked: " + strings.Join(w.S.Blocked(), "; ")
	}
	_ = err
	if cx.L != nil {
		// a dataset the sequence itself created (the request was accepted): ordinary use of it - two items, a search, a
		// third item - may fail, but must neither crash nor wedge the node
		for i, rq := range []func() (interface{}, error){
			func() (interface{}, error) {
				return node().Data.Insert(context.Background(), &pb.InsertRequest{DatasetId: cx.L, Id: world.ID(0xe1, 0xe2).Bytes(), Value: []float32{1, 2}})
			},
			func() (interface{}, error) {
				return node().Data.Insert(context.Background(), &pb.InsertRequest{DatasetId: cx.L, Id: world.ID(0xe3, 0xe4).Bytes(), Value: []float32{2, 1}})
			},
			func() (interface{}, error) {
				st := &fakes.ItemServerStream{Ctx: context.Background()}
				return nil, node().Search.Search(&pb.SearchRequest{DatasetId: cx.L, Query: []float32{1, 1}, K: 2}, st)
			},
			func() (interface{}, error) {
				return node().Data.Insert(context.Background(), &pb.InsertRequest{DatasetId: cx.L, Id: world.ID(0xe5, 0xe6).Bytes(), Value: []float32{3, 3}})
			},
		} {
			done, _ := call(fmt.Sprintf("probe-created-%d", i), rq)
			if len(w.Violations) > 0 {
				return "probe-created-dataset:" + w.Violations[0].Key, fmt.Sprintf("ordinary request %d on the dataset the sequence created: %s", i+1, w.Violations[0].Desc)
			}
			if !done {
				return "probe-created-dataset-never-returns", fmt.Sprintf("ordinary request %d on the dataset the sequence created is blocked: %s", i+1, strings.Join(w.S.Blocked(), "; "))
			}
		}
	}
	if c.Prefix {
		// the prefix dataset still works unless the sequence deleted it
		deleted := false
		for _, ri := range c.Seq {
			if strings.HasPrefix(rs[ri].Name, "Delete(existing") {
				deleted = true
			}
		}
		if !deleted {
			done, err := call("probe-insert", func() (interface{}, error) {
				return node().Data.Insert(context.Background(), &pb.InsertRequest{DatasetId: cx.D, Id: world.ID(0xf1, 0xf2).Bytes(), Value: []float32{9, 9}})
			})
			if len(w.Violations) > 0 {
				return "probe:" + w.Violations[0].Key, w.Violations[0].Desc
			}
			if !done {
				return "probe-never-returns", "an ordinary Insert after the restart is blocked: " + strings.Join(w.S.Blocked(), "; ")
			}
			if err != nil && !strings.Contains(err.Error(), "already exists") {
				return "probe-write-fails", fmt.Sprintf("an ordinary Insert after the restart returned %v", err)
			}
		}
	}
	return "", ""
}

func cases(rs []request, maxLen int) []caseT {
	var out []caseT
	for _, prefix := range []bool{true, false} {
		for a := range rs {
			out = append(out, caseT{Prefix: prefix, Seq: []int{a}})
			if maxLen >= 2 {
				for b := range rs {
					out = append(out, caseT{Prefix: prefix, Seq: []int{a, b}})
				}
			}
		}
	}
	// the same after a prefix on a cosine dataset: singles, and pairs that start with a write of the parallel vector
	for a := range rs {
		out = append(out, caseT{Prefix: true, Cosine: true, Seq: []int{a}})
		if maxLen >= 2 && strings.Contains(rs[a].Name, "scaled-copy-of-stored") {
			for b := range rs {
				out = append(out, caseT{Prefix: true, Cosine: true, Seq: []int{a, b}})
			}
		}
	}
	// the multi-megabyte request needs big tables on the simulated disk (tens of megabytes of address space per world, in
	// workers that run under an address-space limit): it is explored alone and followed by one ordinary request, not in
	// every pair
	kept := out[:0]
	for _, c := range out {
		big := false
		for _, r := range c.Seq {
			big = big || strings.Contains(rs[r].Name, "2.4 MB")
		}
		if big && len(c.Seq) == 2 && !(strings.Contains(rs[c.Seq[0]].Name, "2.4 MB") && rs[c.Seq[1]].Name == "List(withSize)") {
			continue
		}
		kept = append(kept, c)
	}
	out = kept
	for i := range out {
		for _, r := range out[i].Seq {
			out[i].Names = append(out[i].Names, rs[r].Name)
		}
	}
	return out
}

type result struct {
	Cases      int
	Complete   bool
	Violations []struct {
		Key, Desc string
		Case      caseT
	}
}

const c11Keys = `^(panic:|caller-never-returns)`

var c11Env = []string{"VERIF_PART_MAXBOUND=2", "VERIF_PART_SCENARIOS=^(A-|E-|F-|D-no-leader-batch)", "VERIF_PART_SKIP_BEFORE=1"}

func main() {
	rs := alphabet()
	thorough := os.Getenv("VERIF_TIER") == "thorough"
	budget := 110 * time.Second
	if thorough {
		budget = 28 * time.Minute
	}
	work := os.Getenv("VERIF_WORK")
	if work == "" {
		work = os.TempDir()
	}
	if len(os.Args) > 2 && os.Args[1] == "--replay" && ev.PartOf(os.Args[2]) == "C11" {
		ev.ReplayPart("C12", os.Getenv("VERIF_BIN_C11"), c11Keys, os.Args[2], c11Env...)
	}
	if len(os.Args) > 2 && os.Args[1] == "--replay" {
		var f struct {
			Replay caseT `json:"replay"`
		}
		b, _ := os.ReadFile(os.Args[2])
		json.Unmarshal(b, &f)
		// resolve by names (the alphabet may have been re-ordered)
		f.Replay.Seq = nil
		for _, nm := range f.Replay.Names {
			for i, r := range rs {
				if r.Name == nm {
					f.Replay.Seq = append(f.Replay.Seq, i)
				}
			}
		}
		k, d := runCase(rs, f.Replay)
		if k != "" {
			fmt.Printf("VIOLATION property=%s replay=%s\n  %s: %s\n", ev.As("C12"), os.Args[2], k, d)
			os.Exit(1)
		}
		fmt.Println("replay: property held")
		return
	}
	all := cases(rs, 2)
	if si, sn, ok := shard.Child(); ok {
		res := result{Complete: true}
		deadline := time.Now().Add(budget)
		resume, only := 0, -1
		for k, a := range os.Args {
			if a == "--resume" && k+1 < len(os.Args) {
				fmt.Sscan(os.Args[k+1], &resume)
			}
			if a == "--only" && k+1 < len(os.Args) {
				fmt.Sscan(os.Args[k+1], &only)
			}
		}
		journalPath := filepath.Join(work, fmt.Sprintf("journal.%d", si))
		if only >= 0 {
			journalPath += ".only"
		}
		seen := map[string]bool{}
		for i, c := range all {
			if i%sn != si || i < resume || only >= 0 && i != only {
				continue
			}
			if !thorough && len(c.Seq) == 2 && !c.Prefix {
				continue // quick: pairs only after the prefix
			}
			if time.Now().After(deadline) {
				res.Complete = false
				break
			}
			b, _ := json.Marshal(map[string]interface{}{"index": i, "case": c})
			os.WriteFile(journalPath, b, 0o644)
			res.Cases++
			k, d := runCase(rs, c)
			if k != "" && !seen[k] {
				seen[k] = true
				res.Violations = append(res.Violations, struct {
					Key, Desc string
					Case      caseT
				}{k, d, c})
			}
		}
		os.Remove(journalPath)
		shard.Emit(res)
		return
	}
	run := ev.Start("C12", "model_checking")
	const n = 16
	total, complete := 0, true
	workerRestarts := 0
	shard.MemLimitKB = 4 << 20
	var mu sync.Mutex
	var wg sync.WaitGroup
	for si := 0; si < n; si++ {
		wg.Add(1)
		go func(si int) {
			defer wg.Done()
			resume := 0
			for attempt := 0; attempt < 40; attempt++ {
				raw, tail, _ := shard.RunOne("--shard", fmt.Sprintf("%d/%d", si, n), "--resume", fmt.Sprint(resume))
				mu.Lock()
				if raw != nil {
					var r result
					if err := json.Unmarshal(raw, &r); err == nil {
						total += r.Cases
						complete = complete && r.Complete
						for _, v := range r.Violations {
							run.Violation(v.Key, v.Desc, v.Case)
						}
					}
					mu.Unlock()
					return
				}
				// the worker died: the journal names the sequence it was serving
				b, _ := os.ReadFile(filepath.Join(work, fmt.Sprintf("journal.%d", si)))
				var j struct {
					Index int   `json:"index"`
					Case  caseT `json:"case"`
				}
				if json.Unmarshal(b, &j) != nil {
					complete = false
					run.Violation("worker-died-without-journal", tail, nil)
					mu.Unlock()
					return
				}
				reason := "killed"
				if strings.Contains(tail, "out of memory") || strings.Contains(tail, "cannot allocate") {
					reason = "out-of-memory"
				}
				{
					// a worker serves thousands of sequences in one address space and shares the machine with 15 others: before the
					// sequence is blamed for a death (memory, a thread the OS would not give) it is served once more by a fresh
					// worker of its own (same limits). Only a death there is the sequence's doing.
					mu.Unlock()
					raw2, _, _ := shard.RunOne("--shard", fmt.Sprintf("%d/%d", si, n), "--only", fmt.Sprint(j.Index))
					mu.Lock()
					if raw2 != nil {
						var r2 result
						if json.Unmarshal(raw2, &r2) == nil {
							for _, v := range r2.Violations {
								run.Violation(v.Key, v.Desc, v.Case)
							}
						}
						total++
						workerRestarts++
						resume = j.Index + 1
						mu.Unlock()
						continue
					}
				}
				var kinds []string
				for _, nm := range j.Case.Names {
					if i := strings.Index(nm, "("); i > 0 {
						nm = nm[:i]
					}
					kinds = append(kinds, nm)
				}
				total++
				run.Violation("process-dies:"+reason+":"+strings.Join(kinds, "+"), fmt.Sprintf("the server process died (%s, address space limited to 4 GiB) while serving %v: %s", reason, j.Case.Names, tail), j.Case)
				resume = j.Index + 1
				mu.Unlock()
			}
			mu.Lock()
			complete = false
			mu.Unlock()
		}(si)
	}
	wg.Wait()
	run.Assumptions = []string{
		"a panic escaping a service handler is fatal to the process (grpc-go 1.28 does not recover); a panic or log.Fatal on an apply thread is a crash that the log replays",
		"handlers are driven in-process through the real service objects on a server built by the real Server.setup(); flag parsing, the listener and TLS are not explored",
		"a blocked handler is given up only after every deadline it created has fired three times over",
	}
	// requests do not come one at a time: the write path under interleaved callers, timers and a restart is explored by
	// C11's scenarios; they count here for what ends the process - a panic on any thread - or leaves a request hanging
	run.RunPart("concurrent-requests-C11", os.Getenv("VERIF_BIN_C11"), c11Keys, c11Env...)
	run.Finish(ev.Coverage{
		"workers_restarted_for_memory":  workerRestarts,
		"states":                        total,
		"transitions":                   total,
		"traces_validated_against_impl": total,
		"evaluations":                   total,
		"distinct_nontrivial":           total,
		"rule":                          fmt.Sprintf("alphabet of %d hostile requests over all 17 RPCs of DatasetManager / DataManager / Search; every single request and every ordered pair after the fixed prefix (thorough: also from the empty server; plus singles and parallel-vector pairs after a cosine prefix), each on a fresh server, followed by crash, restart, replay and probes; all sequences are distinct", len(rs)),
		"alphabet":                      len(rs),
		"samples":                       []interface{}{[]string{"Create(dim=2,P=0,R=1,space=0)", "Insert(ds=L,new id,ok)"}, []string{"Update(D,A,ok,metadata absent)", "Search(D,ok,k=2147483648)"}},
		"exhaustive":                    complete,
	})
}
