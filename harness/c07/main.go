// C07 — search quality: exact on small collections, high recall on large ones.
//
// Clause 1 (decided exhaustively, E3): every insert-only collection of n <= 2M+1 items drawn
// (with order = insertion order) from an 8-point grid, every level assignment in {0,1,2}^n,
// 3 metrics, both selection modes, 2 map-order policies; ef = efConstruction = n so the beam
// covers the collection; queries off-grid with pairwise distinct distances; k = 1..n.
// Oracle: exact brute-force ranking (ids and order).
// Clause 2 (fixed finite family, NOT exhaustive over its quantifier): mean recall@10 on random
// collections under default parameters must stay above 0.8.
package main

import (
	"anndbverif/lib/hang"
	"context"
	"encoding/json"
	"fmt"
	"os"
	"os/exec"
	"sort"
	"strings"
	"time"

	"anndbverif/idxlib"
	"anndbverif/lib/ev"
	"anndbverif/lib/shard"
	"anndbverif/vrt"
	"anndbverif/world"

	"github.com/marekgalovic/anndb/index"
	uuid "github.com/satori/go.uuid"
)

// 8 grid points (off the origin, no two parallel so that cosine distances differ)
var grid = [][]float32{{1, 1}, {2, 1}, {1, 3}, {3, 2}, {4, 1}, {2, 5}, {5, 3}, {3, 7}}
var queries = [][]float32{{1.3, 0.9}, {2.6, 2.2}, {0.7, 3.1}, {4.4, 1.7}}

// the second grid has parallel vectors (scaled copies): under the cosine metric their mutual distance is zero up to
// rounding, the place where a distance can come out as a tiny negative number; two of its queries are parallel to
// stored points as well. Queries whose exact ranking has ties are checked for completeness instead of order.
var parallelGrid = [][]float32{{1, 1}, {2, 2}, {3, 1}, {6, 2}, {1, 3}, {0.5, 1.5}, {7, 7}, {3, 9}}
var parallelQueries = [][]float32{{3, 3}, {1.5, 0.5}, {2.6, 2.2}, {0.7, 3.1}}

// hangCPU: a case takes microseconds; one that has burnt this much CPU time is in a loop (see lib/hang)
const hangCPU = 60 * time.Second

type cfg struct {
	Space     string
	M         int
	Heuristic bool
	Extend    bool
	Policy    int
	Parallel  bool `json:",omitempty"` // points and queries from the grid with parallel vectors
	Mmax      int  `json:",omitempty"` // explicit link budget of the upper layers (0 = not given); the level-0 budget stays 2M
}

type caseT struct {
	Cfg    cfg   `json:"config"`
	Points []int `json:"points"` // grid indices in insertion order
	Levels []int `json:"levels"`
}

func pid(i int) uuid.UUID {
	var u uuid.UUID
	u[0] = byte(0xa0 + i)
	u[8] = byte(i)
	u[15] = 1
	return u
}

func check(c caseT) (key, desc string) {
	defer func() {
		if r := recover(); r != nil {
			key, desc = "panic", fmt.Sprintf("%+v panicked: %v", c, r)
		}
	}()
	grid, queries := grid, queries
	if c.Cfg.Parallel {
		grid, queries = parallelGrid, parallelQueries
	}
	n := len(c.Points)
	opts := []index.HnswOption{index.HnswM(c.Cfg.M), index.HnswEf(n), index.HnswEfConstruction(n)}
	if c.Cfg.Heuristic {
		opts = append(opts, index.HnswSearchAlgorithm(index.HnswSearchHeuristic), index.HnswHeuristicExtendCandidates(c.Cfg.Extend))
	}
	if c.Cfg.Mmax > 0 {
		opts = append(opts, index.HnswMmax(c.Cfg.Mmax))
	}
	sp := idxlib.Space(c.Cfg.Space)
	ix := index.NewHnsw(2, sp, opts...)
	for i, p := range c.Points {
		if err := ix.Insert(pid(p), append([]float32{}, grid[p]...), nil, c.Levels[i]); err != nil {
			return "insert-error", fmt.Sprintf("%v", err)
		}
	}
	// an insert under an id that is already stored is refused - and the collection stays what it was (insert-only, n items)
	if n > 0 {
		other := grid[(c.Points[0]+3)%len(grid)]
		if err := ix.Insert(pid(c.Points[n-1]), append([]float32{}, other...), nil, c.Levels[0]); err != index.ItemAlreadyExistsError {
			return "duplicate-insert-not-refused", fmt.Sprintf("%v", err)
		}
	}
	for _, q := range queries {
		type sc struct {
			p int
			d float32
		}
		var all []sc
		for _, p := range c.Points {
			all = append(all, sc{p, sp.Distance(q, grid[p])})
		}
		sort.Slice(all, func(i, j int) bool { return all[i].d < all[j].d })
		for i := 1; i < len(all); i++ {
			if all[i].d == all[i-1].d {
				// tie: the exact order is not defined for this query/metric; what remains of the clause is that a beam
				// covering the collection returns all of it, in ascending order of the true distances
				res, err := ix.Search(context.Background(), q, uint(n))
				if err != nil {
					return "search-error", fmt.Sprintf("%v", err)
				}
				if len(res) != n {
					return "missing-items", fmt.Sprintf("n=%d M=%d: Search(%v,%d) returned %d items", n, c.Cfg.M, q, n, len(res))
				}
				for j := range res {
					if res[j].Score != all[j].d {
						return "not-exact", fmt.Sprintf("n=%d M=%d: Search(%v,%d): score %v at rank %d, exact ranking has %v", n, c.Cfg.M, q, n, res[j].Score, j, all[j].d)
					}
				}
				goto nextQuery
			}
		}
		for k := 1; k <= n; k++ {
			res, err := ix.Search(context.Background(), q, uint(k))
			if err != nil {
				return "search-error", fmt.Sprintf("%v", err)
			}
			got := []string{}
			for _, it := range res {
				got = append(got, idxlib.Name(it.Id))
			}
			want := []string{}
			for _, s := range all[:k] {
				want = append(want, idxlib.Name(pid(s.p)))
			}
			if strings.Join(got, "") != strings.Join(want, "") {
				key := "not-exact"
				if len(got) < len(want) {
					key = "missing-items"
				}
				return key, fmt.Sprintf("n=%d M=%d: Search(%v,%d) = %v, exact ranking %v", n, c.Cfg.M, q, k, got, want)
			}
		}
	nextQuery:
	}
	return "", ""
}

// ---- boundary-size collections for larger M (directed part of clause 1) ----
// n = 2M+1 points: 2M in a unit cluster and one far outlier; the outlier and one upper-level vertex at every
// combination of {first, middle, last} positions. M = 16 is the default (no option passed).

type bigCase struct {
	Space      string `json:"space"`
	M          int    `json:"m"` // 0 = library default (16)
	Heuristic  bool   `json:"heuristic"`
	OutlierPos int    `json:"outlier_pos"`
	UpperPos   int    `json:"upper_pos"` // -1 none
}

func bigPoint(i int) []float32 {
	r := rng{uint64(i)*2654435761 + 12345}
	return []float32{1 + r.float(), 1 + r.float()}
}

func checkBig(c bigCase) (string, string) {
	m := c.M
	if m == 0 {
		m = 16
	}
	n := 2*m + 1
	opts := []index.HnswOption{index.HnswEf(n), index.HnswEfConstruction(n)}
	if c.M != 0 {
		opts = append(opts, index.HnswM(c.M))
	}
	if c.Heuristic {
		opts = append(opts, index.HnswSearchAlgorithm(index.HnswSearchHeuristic))
	}
	sp := idxlib.Space(c.Space)
	ix := index.NewHnsw(2, sp, opts...)
	pts := make([][]float32, n)
	ids := make([]uuid.UUID, n)
	for i := 0; i < n; i++ {
		pts[i] = bigPoint(i)
		if i == c.OutlierPos {
			pts[i] = []float32{-40, 37}
		}
		ids[i] = world.ID(uint64(i+1), 7)
		level := 0
		if i == c.UpperPos {
			level = 1
		}
		if err := ix.Insert(ids[i], pts[i], nil, level); err != nil {
			return "insert-error", fmt.Sprint(err)
		}
	}
	for _, q := range [][]float32{{-39, 36}, {1.5, 1.4}, {0.2, 2.4}, {-10, 12}} {
		type sc struct {
			i int
			d float32
		}
		all := make([]sc, n)
		for i := range pts {
			all[i] = sc{i, sp.Distance(q, pts[i])}
		}
		sort.Slice(all, func(i, j int) bool { return all[i].d < all[j].d })
		tie := false
		for i := 1; i < n; i++ {
			tie = tie || all[i].d == all[i-1].d
		}
		if tie {
			continue
		}
		for _, k := range []int{1, 2, m, n - 1, n} {
			res, err := ix.Search(context.Background(), q, uint(k))
			if err != nil {
				return "search-error", fmt.Sprint(err)
			}
			ok := len(res) == k
			for j := 0; ok && j < k; j++ {
				ok = res[j].Id == ids[all[j].i]
			}
			if !ok {
				key := "not-exact:boundary-size"
				if len(res) < k {
					key = "missing-items:boundary-size"
				}
				return key, fmt.Sprintf("%+v n=%d: Search(%v,%d) returned %d items; first differs from the exact ranking (outlier id %x)", c, n, q, k, len(res), ids[c.OutlierPos][:1])
			}
		}
	}
	return "", ""
}

func bigCases() []bigCase {
	var out []bigCase
	for _, sp := range []string{"euclidean", "manhattan", "cosine"} {
		for _, m := range []int{4, 0, 32} {
			mm := m
			if mm == 0 {
				mm = 16
			}
			for _, h := range []bool{false, true} {
				for _, op := range []int{0, mm, 2 * mm} {
					for _, up := range []int{-1, 1, 2 * mm} {
						out = append(out, bigCase{sp, m, h, op, up})
					}
				}
			}
		}
	}
	return out
}

func forEachCase(n int, c cfg, shardI, shardN int, f func(caseT) bool) {
	idx := 0
	var rec func(points []int, used uint)
	stop := false
	rec = func(points []int, used uint) {
		if stop {
			return
		}
		if len(points) == n {
			idx++
			if idx%shardN != shardI {
				return
			}
			levels := make([]int, n)
			for {
				if !f(caseT{c, append([]int{}, points...), append([]int{}, levels...)}) {
					stop = true
					return
				}
				i := 0
				for i < n {
					levels[i]++
					if levels[i] <= 2 {
						break
					}
					levels[i] = 0
					i++
				}
				if i == n {
					return
				}
			}
		}
		for p := 0; p < len(grid); p++ {
			if used&(1<<uint(p)) == 0 {
				rec(append(points, p), used|1<<uint(p))
			}
		}
	}
	rec(nil, 0)
}

type result struct {
	Cases      int
	Complete   bool
	Violations []struct {
		Key, Desc string
		Case      caseT
	}
}

type recallRes struct {
	Dim, N, Stream int
	Recall         float64
}

func main() {
	world.Quiet()
	thorough := os.Getenv("VERIF_TIER") == "thorough"
	maxN := 4
	budget := 120 * time.Second
	if thorough {
		maxN = 5
		budget = 25 * time.Minute
	}
	if len(os.Args) > 1 && os.Args[1] == "--recall" {
		recallMain(thorough)
		return
	}
	if len(os.Args) > 2 && os.Args[1] == "--replay" {
		var f struct {
			Replay caseT `json:"replay"`
		}
		b, _ := os.ReadFile(os.Args[2])
		json.Unmarshal(b, &f)
		var fb struct {
			Replay struct {
				Big *bigCase `json:"big"`
			} `json:"replay"`
		}
		json.Unmarshal(b, &fb)
		if fb.Replay.Big != nil {
			if k, d := checkBig(*fb.Replay.Big); k != "" {
				fmt.Printf("VIOLATION property=%s replay=%s\n  %s: %s\n", ev.As("C07"), os.Args[2], k, d)
				os.Exit(1)
			}
			fmt.Println("replay: property held")
			return
		}
		vrt.InactiveMapPolicy = f.Replay.Cfg.Policy
		var k, d string
		if !hang.Run(hangCPU, func() { k, d = check(f.Replay) }) {
			k, d = "call-does-not-return", fmt.Sprintf("building the index and searching it has not finished after %v of CPU time", hangCPU)
		}
		if k != "" {
			fmt.Printf("VIOLATION property=%s replay=%s\n  %s: %s\n", ev.As("C07"), os.Args[2], k, d)
			os.Exit(1)
		}
		fmt.Println("replay: property held")
		return
	}
	var cfgs []cfg
	for _, sp := range []string{"euclidean", "manhattan", "cosine"} {
		for _, pol := range []int{0, 1} {
			cfgs = append(cfgs, cfg{Space: sp, M: 2, Heuristic: false, Extend: false, Policy: pol, Parallel: false}, cfg{Space: sp, M: 2, Heuristic: true, Extend: false, Policy: pol, Parallel: false})
			if thorough {
				cfgs = append(cfgs, cfg{Space: sp, M: 2, Heuristic: true, Extend: true, Policy: pol, Parallel: false}, cfg{Space: sp, M: 1, Heuristic: false, Extend: false, Policy: pol, Parallel: false})
			}
			if pol == 0 && !thorough {
				cfgs = append(cfgs, cfg{Space: sp, M: 2, Heuristic: true, Extend: true, Policy: pol, Parallel: false}) // heuristic selection with candidate extension
			}
			if pol == 0 || thorough {
				// sparse upper layers: an explicit upper-layer budget below M leaves the level-0 budget (2M) alone
				cfgs = append(cfgs, cfg{Space: sp, M: 2, Policy: pol, Mmax: 1})
			}
			if sp == "cosine" && (pol == 0 || thorough) {
				cfgs = append(cfgs, cfg{Space: sp, M: 2, Heuristic: false, Extend: false, Policy: pol, Parallel: true}, cfg{Space: sp, M: 2, Heuristic: true, Extend: false, Policy: pol, Parallel: true})
			}
		}
	}
	if si, sn, ok := shard.Child(); ok {
		res := result{Complete: true}
		deadline := time.Now().Add(budget)
		seenKey := map[string]bool{}
		for _, c := range cfgs {
			vrt.InactiveMapPolicy = c.Policy
			for n := 1; n <= maxN; n++ {
				if n > 2*c.M+1 {
					continue // outside the small-collection bound of the statement
				}
				forEachCase(n, c, si, sn, func(cs caseT) bool {
					if time.Now().After(deadline) {
						res.Complete = false
						return false
					}
					res.Cases++
					var k, d string
					if !hang.Run(hangCPU, func() { k, d = check(cs) }) {
						// the leaked goroutine still works on the index: report and leave
						res.Complete = false
						res.Violations = append(res.Violations, struct {
							Key, Desc string
							Case      caseT
						}{"call-does-not-return", fmt.Sprintf("building the index and searching it has not finished after %v of CPU time", hangCPU), cs})
						shard.Emit(res)
						os.Exit(0)
					}
					if k != "" && !seenKey[k] {
						seenKey[k] = true
						res.Violations = append(res.Violations, struct {
							Key, Desc string
							Case      caseT
						}{k, d, cs})
					}
					return true
				})
			}
		}
		shard.Emit(res)
		return
	}
	run := ev.Start("C07", "model_checking")
	const n = 16
	cases, complete := 0, true
	big := bigCases()
	for _, bc := range big {
		vrt.InactiveMapPolicy = 0
		var k, d string
		if !hang.Run(hangCPU, func() { k, d = checkBig(bc) }) {
			run.Violation("call-does-not-return:boundary-size", fmt.Sprintf("%+v has not finished after %v of CPU time", bc, hangCPU), map[string]interface{}{"big": bc})
			break
		}
		if k != "" {
			run.Violation(k, d, map[string]interface{}{"big": bc})
		}
	}
	cases += len(big)
	shard.Run(n, n, nil, func(i int, raw []byte) error {
		var r result
		if err := json.Unmarshal(raw, &r); err != nil {
			return err
		}
		cases += r.Cases
		complete = complete && r.Complete
		for _, v := range r.Violations {
			run.Violation(v.Key, v.Desc, v.Case)
		}
		return nil
	})
	// clause 2 on the plain build
	var recalls []recallRes
	minRecall := 1.0
	if plain := os.Getenv("VERIF_C07_PLAIN"); plain != "" {
		cmd := exec.Command(plain, "--recall")
		cmd.Env = append(os.Environ())
		cmd.Stderr = os.Stderr
		out, err := cmd.Output()
		if err != nil {
			ev.Tool("recall family failed: %v", err)
		}
		for _, l := range strings.Split(string(out), "\n") {
			if strings.HasPrefix(l, "RESULT ") {
				json.Unmarshal([]byte(l[7:]), &recalls)
			}
		}
		for _, r := range recalls {
			if r.Recall < minRecall {
				minRecall = r.Recall
			}
			if r.Recall <= 0.8 {
				// keyed by the input class (dimension, size) and a band, not by the random stream: a class in which
				// every stream misses the floor is one finding; a further drop (below 0.6) is a different one
				band := "0.6-to-0.8"
				if r.Recall < 0.6 {
					band = "below-0.6"
				}
				run.Violation(fmt.Sprintf("recall-below-0.8:dim%d:n%d:%s", r.Dim, r.N, band), fmt.Sprintf("dim=%d n=%d stream=%d: mean recall@10 = %.3f", r.Dim, r.N, r.Stream, r.Recall), r)
			}
		}
	}
	run.Assumptions = []string{
		"clause 1 (directed part): n = 2M+1 for M in {4, 16 = library default, 32}: 2M clustered points + one far outlier, outlier and one level-1 vertex at {first, middle, last}; k in {1,2,M,n-1,n}",
		"clause 1, cosine metric: a second 8-point grid with scaled copies (parallel vectors, mutual cosine distance zero up to rounding) and queries parallel to stored points; a query whose exact ranking has ties is checked for completeness and ascending true scores at k = n",
		"clause 1: one configuration per metric with an explicit upper-layer link budget below M (HnswMmax(1), M=2)",
		"clause 1: after the n inserts one more insert under the last id (another vector) must be refused and leave no trace; both tiers include heuristic selection with candidate extension",
		"clause 1: 8-point grid in R^2, n <= 2M+1 (M=2: n<=5; quick n<=4), levels {0,1,2}^n, ef = efConstruction = n, queries with pairwise distinct distances (tied queries skipped), map-order policies {ascending, descending}",
		"clause 2 is evaluated on a fixed finite family of random collections (default parameters) and is a SAMPLE of its quantifier, not exhaustive",
	}
	run.Finish(ev.Coverage{
		"states":                        cases,
		"transitions":                   cases,
		"traces_validated_against_impl": cases,
		"evaluations":                   cases,
		"distinct_nontrivial":           cases,
		"rule":                          "clause 1: every ordered n-subset of the grid x every level assignment x configuration; one evaluation = build the real index and compare Search(q,k) for 4 queries and k=1..n with the exact ranking; all cases are distinct by construction",
		"max_n":                         maxN,
		"samples":                       []interface{}{caseT{cfgs[0], []int{3, 0, 5, 1}, []int{1, 0, 2, 0}}},
		"exhaustive":                    complete,
		"clause2":                       map[string]interface{}{"exhaustive": false, "family": recalls, "min_mean_recall_at_10": minRecall},
	})
}

// ---- clause 2 ----

type rng struct{ s uint64 }

func (r *rng) next() uint64 {
	r.s += 0x9E3779B97F4A7C15
	z := r.s
	z = (z ^ (z >> 30)) * 0xBF58476D1CE4E5B9
	z = (z ^ (z >> 27)) * 0x94D049BB133111EB
	return z ^ (z >> 31)
}
func (r *rng) float() float32 { return float32(r.next()>>40) / float32(1<<24) }

func recallMain(thorough bool) {
	dims, ns, streams, nq := []int{8, 32}, []int{2000}, 1, 100
	if thorough {
		dims, ns, streams, nq = []int{8, 16, 32, 64}, []int{2000, 5000}, 3, 200
	}
	// a FIXED finite family (documented as such): the streams do not depend on VERIF_SEED, so that what a run reports
	// about a class does not change from one invocation to the next
	seed := uint64(0)
	var out []recallRes
	for _, dim := range dims {
		for _, n := range ns {
			for st := 0; st < streams; st++ {
				r := &rng{s: seed*1000003 + uint64(dim*131+n*7+st)}
				sp := idxlib.Space("euclidean")
				ix := index.NewHnsw(uint(dim), sp)
				vecs := make([][]float32, n)
				ids := make([]uuid.UUID, n)
				for i := 0; i < n; i++ {
					v := make([]float32, dim)
					for j := range v {
						v[j] = r.float()
					}
					vecs[i] = v
					ids[i] = world.ID(uint64(i+1), uint64(i*7+3))
					// level drawn as the index draws it, from this stream
					lvl := 0
					for r.float() < 1.0/16 && lvl < 6 {
						lvl++
					}
					if err := ix.Insert(ids[i], v, nil, lvl); err != nil {
						panic(err)
					}
				}
				hit, tot := 0, 0
				for qi := 0; qi < nq; qi++ {
					q := make([]float32, dim)
					for j := range q {
						q[j] = r.float()
					}
					type sc struct {
						i int
						d float32
					}
					all := make([]sc, n)
					for i := range vecs {
						all[i] = sc{i, sp.Distance(q, vecs[i])}
					}
					sort.Slice(all, func(a, b int) bool { return all[a].d < all[b].d })
					truth := map[uuid.UUID]bool{}
					for _, s := range all[:10] {
						truth[ids[s.i]] = true
					}
					res, _ := ix.Search(context.Background(), q, 10)
					for _, it := range res {
						if truth[it.Id] {
							hit++
						}
					}
					tot += 10
				}
				out = append(out, recallRes{dim, n, st, float64(hit) / float64(tot)})
			}
		}
	}
	shard.Emit(out)
}
