#!/bin/bash
set -u
cd "$(dirname "$0")/../.."
export GOFLAGS=-mod=mod GOPROXY=off GOSUMDB=off GOTOOLCHAIN=local
w="${VERIF_WORK:-$PWD/.work/c07.$$}"; mkdir -p "$w"
if ! lib/instr_build.sh harness/c07 "$w/bin" 2> "$w/build.log"; then
  cat "$w/build.log" >&2; echo "TOOL-ERROR: instrumented build failed" >&2; exit 2
fi
# the recall family runs on the un-instrumented build (plain map order, full speed)
if ! go build -tags verif -o "$w/bin-plain" ./harness/c07 2> "$w/build2.log"; then
  cat "$w/build2.log" >&2; echo "TOOL-ERROR: plain build failed" >&2; exit 2
fi
[ "${1:-}" = "--warm" ] && exit 0
{ flock -u 9 && exec 9>&-; } 2>/dev/null  # the build is done: release the shared lock on /repo's working tree (.work/repo.lock)
VERIF_C07_PLAIN="$w/bin-plain" exec "$w/bin" "$@"
