// C02 — a partition is a faithful map id -> (vector, metadata) with exact errors and counters.
//
// E3: explicit-state BFS over replicated log entries (all six change kinds, single and batch,
// duplicates inside batches, metadata absent / overriding with empty values / changing size)
// applied to the REAL partition state machine through its apply function; after every entry
// the reported outcome, Get/Len/metadata for the whole id universe, the exact data-byte
// counter, the bounds on BytesSize and the C01 search clauses are compared with a Go map.
package main

import (
	"encoding/json"
	"fmt"
	"os"
	"time"

	"anndbverif/idxlib"
	"anndbverif/lib/ev"
	"anndbverif/partlib"
	"anndbverif/seq"
	"anndbverif/world"
)

type wld struct {
	r   *partlib.Replica
	ref idxlib.Ref
}

var alphabet []partlib.Op

func build(path []partlib.Op) (*wld, string, string) {
	w := &wld{r: partlib.NewReplica(), ref: idxlib.Ref{}}
	for i, o := range path {
		want, got := partlib.Outcome(""), partlib.Outcome("")
		var aerr error
		var pan interface{}
		if partlib.IsRestore(o) {
			// not an entry: the replica hands its state to another one through a snapshot; nothing may change
			nr, err := partlib.DoRestore(w.r, o)
			if err != nil {
				return w, "restore-error", fmt.Sprintf("%v: %v", o, err)
			}
			w.r = nr
		} else {
			want = partlib.RefApply(w.ref, o)
			got, aerr, pan = w.r.Apply(i, partlib.Entry(o, partlib.NotifID(i)), partlib.IsBatch(o))
		}
		if pan != nil {
			return w, "apply-panic", fmt.Sprintf("applying %v panicked: %v", o, pan)
		}
		if aerr != nil {
			return w, "apply-returns-error", fmt.Sprintf("applying %v returned %v (the raft loop treats this as fatal)", o, aerr)
		}
		if got != want {
			return w, "wrong-outcome", fmt.Sprintf("entry %v reported %q, a sequential map reports %q", o, got, want)
		}
		if k, d := idxlib.CheckContents(w.r.P.Index(), w.ref, idxlib.IDs[:4]); k != "" {
			return w, k, fmt.Sprintf("after %v: %s", o, d)
		}
		if k, d := partlib.CheckCounters(w.r, w.ref); k != "" {
			return w, k, fmt.Sprintf("after %v: %s", o, d)
		}
		if k, d := idxlib.CheckSearch(w.r.P.Index(), w.ref, idxlib.Space("euclidean"), idxlib.Queries[:2], []uint{1, 5}); k != "" {
			return w, "search-" + k, fmt.Sprintf("after %v: %s", o, d)
		}
	}
	return w, "", ""
}

func main() {
	world.Quiet()
	if len(os.Args) > 2 && os.Args[1] == "--replay" {
		var f struct {
			Replay struct {
				Ops []partlib.Op `json:"ops"`
			} `json:"replay"`
		}
		b, err := os.ReadFile(os.Args[2])
		if err != nil {
			ev.Tool("%v", err)
		}
		json.Unmarshal(b, &f)
		alphabet = append(partlib.Alphabet(true), partlib.RestoreOps()...)
		partlib.MBMetas()
		_, k, d := build(f.Replay.Ops)
		if k != "" {
			fmt.Printf("VIOLATION property=%s replay=%s\n  %s: %s\n", ev.As("C02"), os.Args[2], k, d)
			os.Exit(1)
		}
		fmt.Println("replay: property held")
		return
	}
	run := ev.Start("C02", "model_checking")
	depth, budget := 4, 120*time.Second
	if run.Thorough() {
		depth, budget = 6, 25*time.Minute
	}
	// directed sequences on the merge boundary: an update whose own metadata is fine but whose union with the stored
	// keys reaches / exceeds the 65535 entries a snapshot can count; single and batch forms, then ordinary follow-ups
	partlib.MBMetas()
	boundary := 0
	for _, seqn := range [][]partlib.Op{
		// multi-byte keys and values on both sides of the byte limits (a character count would let the over-long ones through);
		// every step followed by a hand-over through a snapshot
		{{"ins", []partlib.ItemSpec{{0, 0, 9}}}, {"ins", []partlib.ItemSpec{{1, 1, 8}}}, {"restore-used", nil}, {"upd", []partlib.ItemSpec{{0, 1, 8}}}, {"upd", []partlib.ItemSpec{{0, 1, 11}}}, {"restore-fresh", nil}, {"upd", []partlib.ItemSpec{{0, 0, 10}}}, {"rem", []partlib.ItemSpec{{0, 0, 0}}}},
		{{"bins", []partlib.ItemSpec{{0, 0, 8}, {1, 1, 9}, {2, 0, 10}}}, {"restore-fresh", nil}, {"bupd", []partlib.ItemSpec{{1, 0, 10}, {1, 1, 11}, {2, 0, 9}}}, {"restore-used", nil}, {"brem", []partlib.ItemSpec{{1, 0, 0}, {2, 0, 0}}}},
		{{"ins", []partlib.ItemSpec{{0, 0, 5}}}, {"upd", []partlib.ItemSpec{{0, 1, 7}}}, {"upd", []partlib.ItemSpec{{0, 0, 4}}}, {"upd", []partlib.ItemSpec{{0, 1, 1}}}},
		{{"ins", []partlib.ItemSpec{{0, 0, 5}}}, {"upd", []partlib.ItemSpec{{0, 1, 6}}}, {"upd", []partlib.ItemSpec{{0, 1, 1}}}, {"rem", []partlib.ItemSpec{{0, 0, 0}}}},
		{{"ins", []partlib.ItemSpec{{0, 0, 5}}}, {"ins", []partlib.ItemSpec{{1, 1, 1}}}, {"bupd", []partlib.ItemSpec{{1, 0, 2}, {0, 1, 6}}}, {"bupd", []partlib.ItemSpec{{0, 1, 7}, {1, 1, 0}}}, {"bupd", []partlib.ItemSpec{{0, 0, 4}}}},
		{{"bins", []partlib.ItemSpec{{0, 0, 6}, {1, 1, 5}}}, {"bupd", []partlib.ItemSpec{{0, 1, 5}, {1, 0, 6}}}, {"brem", []partlib.ItemSpec{{0, 0, 0}, {1, 0, 0}}}},
	} {
		boundary += len(seqn)
		if _, k, d := build(seqn); k != "" {
			run.Violation(k+":merge-boundary", fmt.Sprintf("%v: %s", seqn, d), map[string]interface{}{"ops": seqn})
		}
	}
	alphabet = append(partlib.Alphabet(run.Thorough()), partlib.RestoreOps()...)
	samples := &ev.Samples{N: 5}
	st := seq.BFS(seq.Config[*wld, partlib.Op]{
		Depth: depth, Workers: 16, Deadline: time.Now().Add(budget), HangCPU: 20 * time.Second,
		Build:   func(wi int, path []partlib.Op) (*wld, string, string) { return build(path) },
		Enabled: func(w *wld) []partlib.Op { return alphabet },
		Canon:   func(w *wld) string { return idxlib.DumpKey(w.r.P.Index().VerifDump()) },
		OnViolation: func(key, desc string, path []partlib.Op) {
			run.Violation(key, desc, map[string]interface{}{"ops": path})
		},
		OnNew: func(path []partlib.Op) {
			if len(path) == depth {
				samples.Add(fmt.Sprint(path))
			}
		},
	})
	run.Assumptions = []string{
		"ids {a,b,c}, 3 vectors in R^2, metadata shapes {absent, {k:v1}, {k:'',j:xx}, {k:longer-value}, {n:1}}; an empty metadata map is indistinguishable from an absent one on the wire; directed sequences add 32768/32767-key maps and multi-byte keys/values on both sides of the 255 / 65535 byte limits",
		"snapshot->restore steps (into a fresh and into a used replica) are enabled in every state: the hand-over must change neither contents nor counters",
		"entries are marshalled PartitionChange messages fed to the partition's apply function (what the raft loop calls); the level is part of the entry",
		"BytesSize() is only required to lie in [D, D + Len*4096] where D is the exact data byte count",
	}
	run.Finish(ev.Coverage{
		"merge_boundary_entries":        boundary,
		"states":                        st.States,
		"transitions":                   st.Transitions,
		"traces_validated_against_impl": st.Transitions,
		"evaluations":                   st.Transitions,
		"distinct_nontrivial":           st.States,
		"rule":                          fmt.Sprintf("BFS over log entries (%d operations enabled in every state) on the real partition state machine; distinct = canonical index dump (contents, counters, graph)", len(alphabet)),
		"depth":                         depth,
		"depth_completed":               st.DepthCompleted,
		"outcome_classes":               st.Outcomes,
		"samples":                       samples.List(),
		"exhaustive":                    st.Complete,
	})
}
