#!/bin/bash
# usage: lib/snaprun.sh <out-file> <command...>  — runs the command in a throw-away git worktree of /verif's HEAD (so that
# edits in /verif do not disturb a long sweep), sharing /verif's lock on /repo's working tree. Output goes to <out-file>.
set -u
root="$(cd "$(dirname "$0")/.." && pwd)"
out="$1"; shift
snap="/tmp/vsnap.$$"
git -C "$root" worktree add -q --detach "$snap" HEAD || exit 3
mkdir -p "$snap/.work" "$root/.work"; : >> "$root/.work/repo.lock"
ln -sf "$root/.work/repo.lock" "$snap/.work/repo.lock"
( cd "$snap" && VERIF_ROOT="$snap" "$@" ) > "$out" 2>&1
rc=$?
git -C "$root" worktree remove --force "$snap"
exit $rc
