#!/bin/bash
# usage: lib/rebase_seed.sh <ID-n>  — re-creates a stored patch that no longer applies on /repo's HEAD (3-way), re-confirms it
# with its demonstration (the meta.json "demo" line names package dir and -run regex) and replaces patch.diff.
set -u
cd "$(dirname "$0")/.."
name="$1"; d="$PWD/seeded/$name"
wt=/tmp/rebase_$$
git -C /repo worktree add -q "$wt" HEAD || exit 3
trap 'git -C /repo worktree remove --force "$wt"' EXIT
if ! git -C "$wt" apply -3 "$d/patch.diff" 2>/tmp/rebase_$$.log; then echo "$name: 3-way apply failed: $(tail -2 /tmp/rebase_$$.log | tr '\n' ' ')"; rm -f /tmp/rebase_$$.log; exit 1; fi
rm -f /tmp/rebase_$$.log
if git -C "$wt" diff --name-only --diff-filter=U | grep -q .; then echo "$name: conflicts"; exit 1; fi
git -C "$wt" reset -q
git -C "$wt" diff > /tmp/rebased_$name.diff
read pkg rx <<<"$(python3 - "$d/meta.json" <<'PY'
import json,re,sys
m=json.load(open(sys.argv[1]))
demo=m.get('demo','')
pkg=re.search(r'into (\S+?)/,',demo).group(1) if re.search(r'into (\S+?)/,',demo) else '.'
rx=re.search(r"-run '([^']+)'",demo).group(1)
print(pkg,rx)
PY
)"
out=$(lib/confirm_seed.sh /tmp/rebased_$name.diff "$d/demo_test.go" "$pkg" "$rx" 2>&1)
if echo "$out" | grep -q "demo without change: exit 0; with change: exit [1-9]"; then
  cp /tmp/rebased_$name.diff "$d/patch.diff"
  python3 - "$d/meta.json" <<'PY'
import json,sys
m=json.load(open(sys.argv[1])); m['rebased']=(m.get('rebased','')+' | re-created (3-way) on the tree after fix e682663 and re-confirmed with lib/confirm_seed.sh').strip(' |')
json.dump(m,open(sys.argv[1],'w'),indent=1)
PY
  echo "$name: rebased and re-confirmed"
else
  echo "$name: rebased patch NOT confirmed: $(echo "$out" | tail -3 | tr '\n' ' ')"
fi
rm -f /tmp/rebased_$name.diff
