#!/bin/bash
# usage: lib/instr_build.sh <harness-dir> <out-binary> [extra go build flags]
# Instruments /repo's CURRENT working tree and builds the harness against it with -overlay.
set -eu
cd "$(dirname "$0")/.."
export GOFLAGS=-mod=mod GOPROXY=off GOSUMDB=off GOTOOLCHAIN=local GODEBUG=goindex=0
h="$1"; out="$2"; shift 2
w="${VERIF_WORK:-$PWD/.work/adhoc.$$}"; mkdir -p "$w/gen"
go build -o "$w/instr" ./instr
"$w/instr" -config instr/owned.json -out "$w/gen" -overlay "$w/overlay.json"
go build -tags verif -overlay "$w/overlay.json" "$@" -o "$out" "./$h"
