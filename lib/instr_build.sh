#!/bin/bash
# usage: lib/instr_build.sh <harness-dir> <out-binary> [extra go build flags]
# Instruments /repo's CURRENT working tree and builds the harness against it with -overlay.
set -eu
cd "$(dirname "$0")/.."
export GOFLAGS=-mod=mod GOPROXY=off GOSUMDB=off GOTOOLCHAIN=local GODEBUG=goindex=0
h="$1"; out="$2"; shift 2
# INSTR_FLAGS=-wire-only: only the in-memory wire replaces the gRPC clients (free-running -race twins)
w="${VERIF_WORK:-$PWD/.work/adhoc.$$}"; g="gen${INSTR_FLAGS:+.wire}"; mkdir -p "$w/$g"
# INSTR_REUSE=1: a second harness of the same check invocation builds against the overlay generated a moment ago
if [ -z "${INSTR_REUSE:-}" ] || [ ! -f "$w/overlay.$g.json" ]; then
  go build -o "$w/instr" ./instr
  "$w/instr" ${INSTR_FLAGS:-} -config instr/owned.json -out "$w/$g" -overlay "$w/overlay.$g.json"
fi
go build -tags verif -overlay "$w/overlay.$g.json" "$@" -o "$out" "./$h"
