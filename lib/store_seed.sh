#!/bin/bash
# usage: lib/store_seed.sh <ID-n> <srcdir> <mutN> <pkgdir> <run-regex> <caught_by text> [extra go test flags...]
# Confirms <srcdir>/<mutN>.diff with its demo in a scratch worktree and, if confirmed, stores it as seeded/<ID-n>/.
set -u
cd "$(dirname "$0")/.."
name="$1"; src="$2"; mut="$3"; pkg="$4"; rx="$5"; caught="$6"; shift 6
out=$(lib/confirm_seed.sh "$src/$mut.diff" "$src/${mut}_demo_test.go" "$pkg" "$rx" "$@" 2>&1)
echo "$out" | tail -4
echo "$out" | grep -q "demo without change: exit 0; with change: exit [1-9]" || { echo "NOT CONFIRMED: $name"; exit 1; }
if echo "$out" | grep -A20 "suite failures" | grep -qE "^(--- FAIL|FAIL|panic)"; then echo "NOT CONFIRMED (suite fails): $name"; exit 1; fi
d=seeded/$name; mkdir -p $d
cp "$src/$mut.diff" $d/patch.diff; cp "$src/${mut}_demo_test.go" $d/demo_test.go; cp "$src/$mut.md" $d/notes.md
python3 - "$name" "$pkg" "$rx" "$caught" "$d" "$*" <<'PY'
import json,sys,re
name,pkg,rx,caught,d,flags=sys.argv[1:7]
notes=open(d+'/notes.md').read()
title=notes.strip().splitlines()[0].lstrip('# ').strip()
json.dump({"property":name.split('-')[0],"breaks":title,"needs":"see notes.md",
 "demo":"copy demo_test.go into %s/, go test -vet=off %s -run '%s' ./%s/"%(pkg,flags,rx,pkg),
 "confirmed":"lib/confirm_seed.sh: demo passes without / fails with the change; suite passes with the change",
 "caught_by":caught},open(d+'/meta.json','w'),indent=1)
PY
echo "STORED $d"
