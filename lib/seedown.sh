#!/bin/bash
# usage: lib/seedown.sh <ID-n>...   — runs each stored seed against its OWN property's quick check; one line per seed
cd "$(dirname "$0")/.."
for name in "$@"; do
  d=seeded/$name; id=${name%%-*}
  if ! git -C /repo apply --check "$PWD/$d/patch.diff" 2>/dev/null; then echo "$name: STALE"; continue; fi
  out=$(lib/seedrun.sh "$id" "$d/patch.diff" 2>&1)
  rc=$(echo "$out" | grep -o '^exit=[0-9]*')
  echo "$name: $rc $(echo "$out" | grep '^  ' | head -1 | cut -c1-220)$(echo "$out" | grep '^TOOL-ERROR' | head -1)"
done
