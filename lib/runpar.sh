#!/bin/bash
# usage: lib/runpar.sh <tier> <streams> [ID...]  — runs every registered check (or the given ones) of the tier in <streams> parallel streams; one summary line each
cd "$(dirname "$0")/.."
tier="${1:-thorough}"; n="${2:-3}"
ids=($(python3 -c "import json; print(' '.join(c['property_id'] for c in json.load(open('MANIFEST.json'))['checks']))"))
[ $# -gt 2 ] && ids=("${@:3}")
mkdir -p .work
for s in $(seq 0 $((n-1))); do
  (
    i=0
    for id in "${ids[@]}"; do
      if [ $((i % n)) -eq $s ]; then
        st=$(date +%s)
        ./check "$id" --tier "$tier" > ".work/runpar.$tier.$id.out" 2>&1; rc=$?
        e=$(date +%s)
        echo "$id exit=$rc wall=$((e-st))s known_findings=$(grep -c '^KNOWN-FINDING' .work/runpar.$tier.$id.out) $(grep -E '^(VIOLATION|TOOL-ERROR)' -A1 .work/runpar.$tier.$id.out | head -4 | cut -c1-300 | tr '\n' ' ')"
      fi
      i=$((i+1))
    done
  ) &
done
wait
