// Package hang turns "this call never returns" into an observation without a wall-clock oracle: a call is given up
// only after the PROCESS has burnt the given amount of CPU time since the call started (a starved process burns none,
// a spinning call burns it at full speed) and at least as much wall time has passed.
package hang

import (
	"syscall"
	"time"
)

func cpu() time.Duration {
	var ru syscall.Rusage
	if err := syscall.Getrusage(syscall.RUSAGE_SELF, &ru); err != nil {
		return 0
	}
	return time.Duration(ru.Utime.Nano() + ru.Stime.Nano())
}

// Run calls f on a goroutine of its own and reports whether it returned. A false result leaks the goroutine (still
// spinning): the caller should report and leave soon.
func Run(limit time.Duration, f func()) bool {
	done := make(chan struct{})
	var pv interface{}
	go func() {
		defer func() {
			pv = recover()
			close(done)
		}()
		f()
	}()
	select {
	case <-done:
		if pv != nil {
			panic(pv)
		}
		return true
	case <-time.After(2 * time.Second):
	}
	start, c0 := time.Now(), cpu()
	tick := time.NewTicker(time.Second)
	defer tick.Stop()
	for {
		select {
		case <-done:
			if pv != nil {
				panic(pv)
			}
			return true
		case <-tick.C:
			if time.Since(start) > limit && cpu()-c0 > limit {
				return false
			}
		}
	}
}
