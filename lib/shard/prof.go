package shard

import (
	"fmt"
	"os"
	"runtime"
	"runtime/pprof"
	"time"
)

// VERIF_HEAPPROF=<file>:<seconds> makes any process that links this package write a heap profile (and its goroutine
// count, to stderr) after that many seconds: the way to look for what a long-running worker accumulates.
func init() {
	spec := os.Getenv("VERIF_HEAPPROF")
	if spec == "" {
		return
	}
	var file string
	var sec int
	for i := len(spec) - 1; i >= 0; i-- {
		if spec[i] == ':' {
			file = spec[:i]
			fmt.Sscanf(spec[i+1:], "%d", &sec)
			break
		}
	}
	if file == "" || sec <= 0 {
		return
	}
	go func() {
		time.Sleep(time.Duration(sec) * time.Second)
		runtime.GC()
		f, err := os.Create(file)
		if err != nil {
			return
		}
		pprof.Lookup("heap").WriteTo(f, 0)
		f.Close()
		var ms runtime.MemStats
		runtime.ReadMemStats(&ms)
		fmt.Fprintf(os.Stderr, "heapprof: %d goroutines; HeapSys=%dMB HeapInuse=%dMB HeapReleased=%dMB HeapIdle=%dMB Sys=%dMB NumGC=%d\n", runtime.NumGoroutine(), ms.HeapSys>>20, ms.HeapInuse>>20, ms.HeapReleased>>20, ms.HeapIdle>>20, ms.Sys>>20, ms.NumGC)
		g, _ := os.Create(file + ".goroutines")
		pprof.Lookup("goroutine").WriteTo(g, 1)
		g.Close()
	}()
}
