// Package shard runs the harness binary itself as N worker processes and collects one JSON
// result line from each.
package shard

import (
	"bufio"
	"encoding/json"
	"fmt"
	"os"
	"os/exec"
	"strings"
	"sync"

	"anndbverif/lib/ev"
)

// MemLimitKB is the address-space limit of every worker process.
var MemLimitKB = 6 << 20

// RunOne runs the harness binary itself with args under the memory limit and returns its
// RESULT line (nil if the process died without one) and its combined tail of stderr.
func RunOne(args ...string) ([]byte, string, error) {
	self, _ := os.Executable()
	a := append([]string{"-c", fmt.Sprintf("ulimit -v %d; exec \"$0\" \"$@\"", MemLimitKB), self}, args...)
	cmd := exec.Command("bash", a...)
	cmd.Env = append(os.Environ(), fmt.Sprintf("GOMEMLIMIT=%dKiB", MemLimitKB/2))
	var errb strings.Builder
	cmd.Stderr = &errb
	out, err := cmd.Output()
	var res []byte
	for _, l := range strings.Split(string(out), "\n") {
		if strings.HasPrefix(l, "RESULT ") {
			res = []byte(l[7:])
		}
	}
	tail := errb.String()
	if len(tail) > 600 {
		tail = tail[:600]
	}
	return res, tail, err
}

// Child reports whether this process is a worker and which one.
func Child() (i, n int, ok bool) {
	for k, a := range os.Args {
		if a == "--shard" && k+1 < len(os.Args) {
			if _, err := fmt.Sscanf(os.Args[k+1], "%d/%d", &i, &n); err == nil {
				return i, n, true
			}
		}
	}
	return 0, 1, false
}

// Emit prints the worker's result.
func Emit(v interface{}) {
	b, _ := json.Marshal(v)
	fmt.Printf("RESULT %s\n", b)
}

// OnDeath, when set, is told about a worker that died without a result (with the tail of its
// stderr) instead of the run ending as a tool failure.
var OnDeath func(i int, tail string)

// Run starts n workers (at most par at a time) and decodes their results into out[i].
func Run(n, par int, extraEnv []string, decode func(i int, raw []byte) error) {
	self, _ := os.Executable()
	var wg sync.WaitGroup
	sem := make(chan struct{}, par)
	var mu sync.Mutex
	fail := ""
	for i := 0; i < n; i++ {
		wg.Add(1)
		go func(i int) {
			defer wg.Done()
			sem <- struct{}{}
			defer func() { <-sem }()
			// address-space limit: a runaway allocation must kill the worker, not the sandbox
			cmd := exec.Command("bash", "-c", fmt.Sprintf("ulimit -v %d; exec \"$0\" \"$@\"", MemLimitKB), self, "--shard", fmt.Sprintf("%d/%d", i, n))
			// soft heap limit at half the address-space limit: the collector works harder before the hard limit is near
			// (a starved machine lets garbage pile up; one runaway allocation still dies at once)
			cmd.Env = append(append(os.Environ(), fmt.Sprintf("GOMEMLIMIT=%dKiB", MemLimitKB/2)), extraEnv...)
			var errb tailBuf
			cmd.Stderr = &errb
			out, err := cmd.StdoutPipe()
			if err != nil {
				ev.Tool("%v", err)
			}
			if err := cmd.Start(); err != nil {
				ev.Tool("%v", err)
			}
			got := false
			sc := bufio.NewScanner(out)
			sc.Buffer(make([]byte, 1<<20), 1<<28)
			for sc.Scan() {
				l := sc.Text()
				if strings.HasPrefix(l, "RESULT ") {
					mu.Lock()
					if err := decode(i, []byte(l[7:])); err == nil {
						got = true
					}
					mu.Unlock()
				}
			}
			if err := cmd.Wait(); err != nil || !got {
				mu.Lock()
				if OnDeath != nil {
					OnDeath(i, errb.String())
				} else {
					os.Stderr.WriteString(errb.String())
					fail = fmt.Sprintf("worker %d/%d failed: %v", i, n, err)
				}
				mu.Unlock()
			}
		}(i)
	}
	wg.Wait()
	if fail != "" {
		ev.Tool("%s", fail)
	}
}

// tailBuf keeps the first 1500 bytes written to it (VERIF_SHARD_STDERR=<n>: the first n).
type tailBuf struct{ b []byte }

var tailMax = func() int {
	n := 1500
	fmt.Sscanf(os.Getenv("VERIF_SHARD_STDERR"), "%d", &n)
	return n
}()

func (t *tailBuf) Write(p []byte) (int, error) {
	if len(t.b) < tailMax {
		n := tailMax - len(t.b)
		if n > len(p) {
			n = len(p)
		}
		t.b = append(t.b, p[:n]...)
	}
	return len(p), nil
}
func (t *tailBuf) String() string { return string(t.b) }
