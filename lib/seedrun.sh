#!/bin/bash
# usage: lib/seedrun.sh <PROPERTY> <diff> [tier]  — applies the diff to /repo, runs the check, reverts.
set -u
cd "$(dirname "$0")/.."
id="$1"; diff="$(realpath "$2")"; tier="${3:-quick}"
mkdir -p .work; exec 8>"$PWD/.work/repo.lock"; flock -x 8; export VERIF_REPO_LOCKED=1
if ! git -C /repo diff --quiet; then echo "/repo working tree is dirty" >&2; exit 3; fi
git -C /repo apply "$diff" || { echo "diff does not apply" >&2; exit 3; }
mkdir -p .work
VERIF_ROOT_EVIDENCE_SAVE=1 cp -f "evidence/$id.json" ".work/evidence.$id.save" 2>/dev/null
./check "$id" --tier "$tier" > ".work/seedrun.$id.out" 2>&1; rc=$?
git -C /repo checkout -- . ; git -C /repo clean -fdq
cp -f ".work/evidence.$id.save" "evidence/$id.json" 2>/dev/null
grep -E "^(VIOLATION|OK|TOOL-ERROR)" ".work/seedrun.$id.out" | head -6; grep -A1 "^VIOLATION" ".work/seedrun.$id.out" | grep "^  " | head -3 | cut -c1-200
echo "exit=$rc"
