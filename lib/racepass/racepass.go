// Package racepass runs a harness's free-running, race-detector-instrumented twin (same scenario
// bodies, real goroutines, no controlled scheduler) and turns what it prints into findings.
// It is sampling and reported as such: under the cooperative scheduler every hand-off is a
// happens-before edge, so unsynchronised accesses can only be seen by a separate pass.
package racepass

import (
	"context"
	"fmt"
	"os"
	"os/exec"
	"strings"
	"time"

	"anndbverif/lib/ev"
)

func head(s string, n int) string {
	if len(s) > n {
		return s[:n]
	}
	return s
}

// Run executes `bin --race-pass` (bin built with -race from /repo's working tree). The twin must
// print a line containing RACEPASS when it finishes. Returns the coverage entry for the evidence.
func Run(run *ev.Run, bin string) ev.Coverage {
	if bin == "" {
		return ev.Coverage{"race_pass": "not run"}
	}
	// bounded: if the free-running bodies hang (a deadlock the runtime cannot see) the pass is abandoned without a
	// verdict - no wall-clock oracle - and the exploration decides
	ctx, cancel := context.WithTimeout(context.Background(), 3*time.Minute)
	defer cancel()
	cmd := exec.CommandContext(ctx, bin, "--race-pass")
	cmd.Env = append(os.Environ(), "GORACE=halt_on_error=0")
	out, err := cmd.CombinedOutput()
	text := string(out)
	if ctx.Err() != nil {
		fmt.Println("race pass abandoned after 3 minutes (no verdict from it)")
		return ev.Coverage{"race_pass": map[string]interface{}{"exhaustive": false, "note": "abandoned after 3 minutes without finishing; no verdict"}}
	}
	reports := strings.Count(text, "WARNING: DATA RACE")
	// what the twin's own oracle found in the free-running executions (lines FREE-RUNNING-VIOLATION key: desc)
	own := 0
	for _, l := range strings.Split(text, "\n") {
		if strings.HasPrefix(l, "FREE-RUNNING-VIOLATION ") {
			own++
			kv := strings.SplitN(strings.TrimPrefix(l, "FREE-RUNNING-VIOLATION "), ": ", 2)
			desc := ""
			if len(kv) == 2 {
				desc = kv[1]
			}
			run.Violation("free-running:"+kv[0], "in the free-running pass (real goroutines): "+desc, map[string]interface{}{"line": l})
		}
	}
	if reports == 0 && own == 0 && (err != nil || !strings.Contains(text, "RACEPASS")) {
		// the free-running bodies died: a panic or a runtime-detected deadlock inside the repository's code is a
		// finding about the code (the exploration looks for the same thing exhaustively); anything else is ours
		frame := ""
		if strings.Contains(text, "panic:") || strings.Contains(text, "fatal error:") {
			for _, l := range strings.Split(text, "\n") {
				l = strings.TrimSpace(l)
				if strings.HasPrefix(l, "/repo/") && !strings.Contains(l, "verif_hooks") {
					frame = strings.TrimPrefix(strings.Fields(l)[0], "/repo/")
					break
				}
			}
		}
		if frame == "" {
			ev.Tool("race pass failed: %v\n%s", err, head(text, 2000))
		}
		run.Violation("free-running-pass-died:"+frame, "the free-running pass over the scenario bodies died:\n"+head(text, 1500), map[string]interface{}{"output": head(text, 3000)})
		return ev.Coverage{"race_pass": "died at " + frame}
	}
	// one finding per distinct pair of access sites inside /repo
	seen := map[string]bool{}
	for _, blk := range strings.Split(text, "WARNING: DATA RACE")[1:] {
		var sites []string
		for _, l := range strings.Split(blk, "\n") {
			l = strings.TrimSpace(l)
			if strings.HasPrefix(l, "/repo/") && len(sites) < 2 {
				if i := strings.Index(l, " "); i > 0 {
					l = l[:i]
				}
				sites = append(sites, strings.TrimPrefix(l, "/repo/"))
			}
			if strings.HasPrefix(l, "Previous") && len(sites) == 1 {
				sites = append(sites, "|")
			}
		}
		key := "data-race:" + strings.Join(sites, "")
		if !seen[key] {
			seen[key] = true
			run.Violation(key, "race detector report (free-running pass):\n"+head(blk, 1500), map[string]interface{}{"race_report": head(blk, 3000)})
		}
	}
	return ev.Coverage{"race_pass": map[string]interface{}{"exhaustive": false, "reports": reports, "distinct": len(seen), "own_oracle_violations": own, "note": "sampling: free-running -race pass over the same scenario bodies"}}
}
