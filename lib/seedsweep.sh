#!/bin/bash
# usage: lib/seedsweep.sh [ID-prefix]   — re-runs every stored seed against the check(s) its meta.json names in "caught_by"
# (every "./check Cnn" mentioned there, in order, until one reports it). Prints one line per seed; exit 1 if any is missed.
set -u
cd "$(dirname "$0")/.."
miss=0
for d in seeded/${1:-}*/; do
  name=$(basename "$d")
  [ -f "$d/patch.diff" ] || continue
  checks=$(python3 -c "
import json,re,sys
m=json.load(open('$d/meta.json'))
c=re.findall(r'\./check (C\d\d)', m.get('caught_by',''))
seen=[]
for x in c:
    if x not in seen: seen.append(x)
print(' '.join(seen) if seen else m['property'])")
  if grep -q "\"status\": \"moot" "$d/meta.json"; then echo "$name: moot (see meta.json)"; continue; fi
  if ! git -C /repo apply --check "$PWD/$d/patch.diff" 2>/dev/null; then echo "$name: STALE (patch does not apply to the current tree)"; continue; fi
  res="MISSED"
  for c in $checks; do
    out=$(lib/seedrun.sh "$c" "$d/patch.diff" 2>&1)
    if echo "$out" | grep -q "^exit=1"; then res="caught by $c: $(echo "$out" | grep '^  ' | head -1 | cut -c1-120)"; break; fi
    if echo "$out" | grep -q "^exit=2"; then res="TOOL-ERROR in $c"; fi
    if echo "$out" | grep -q "working tree is dirty"; then res="SKIPPED (/repo working tree is dirty)"; fi
  done
  echo "$name: $res"
  case "$res" in MISSED*|TOOL*|SKIPPED*) miss=1;; esac
done
exit $miss
