#!/bin/bash
# usage: lib/confirm_seed.sh <diff> <demo_test.go> <pkgdir-relative> <-run regex> [extra go test flags...]
# Confirms in a scratch worktree: diff applies, suite passes with it, demo fails with / passes without.
set -u
export GOFLAGS=-mod=mod GOPROXY=off GOSUMDB=off GOTOOLCHAIN=local
diff="$1"; demo="$2"; pkg="$3"; rx="$4"; shift 4
wt=/tmp/confirm_$$
git -C /repo worktree add -q "$wt" HEAD || exit 3
trap 'git -C /repo worktree remove --force "$wt"' EXIT
cd "$wt"
cp "$demo" "$pkg/zz_seed_demo_test.go"
go test -vet=off -count=1 "$@" -run "$rx" "./$pkg/" > /tmp/confirm_$$.without 2>&1; r0=$?
git apply "$diff" || { echo "diff does not apply"; exit 3; }
go build ./... || { echo "does not compile"; exit 3; }
go test -vet=off -count=1 "$@" -run "$rx" "./$pkg/" > /tmp/confirm_$$.with 2>&1; r1=$?
rm "$pkg/zz_seed_demo_test.go"
go test -vet=off -count=1 ./... 2>&1 | grep -v "no test files" | grep -v "^ok" > /tmp/confirm_$$.suite
echo "demo without change: exit $r0; with change: exit $r1"
echo "suite failures with change (flaky TestHnswSearchLevel* ignored):"; grep -E "^(--- FAIL|panic|FAIL.*build failed)" /tmp/confirm_$$.suite | grep -v "TestHnswSearchLevel" | head -10
rm -f /tmp/confirm_$$.*
