// Package ev is the shared reporting layer of every check: evidence files,
// violation lines, replay artefacts and the known-findings file.
package ev

import (
	"crypto/sha1"
	"encoding/hex"
	"encoding/json"
	"fmt"
	"os"
	"path/filepath"
	"sort"
	"strconv"
	"sync"
	"time"
)

// Root is /verif (overridable for tests).
var Root = func() string {
	if r := os.Getenv("VERIF_ROOT"); r != "" {
		return r
	}
	return "/verif"
}()

// Finding is one entry of known_findings.json.
type Finding struct {
	Property string `json:"property"`
	Key      string `json:"key"`  // witness class computed structurally by the check
	What     string `json:"what"` // human description printed on the KNOWN-FINDING line
	Minimal  string `json:"minimal,omitempty"`
}

type findingsFile struct {
	Findings []Finding `json:"findings"`
	Fixed    []string  `json:"fixed"`
}

// Run is the state of one check invocation.
type Run struct {
	ID    string
	Tier  string
	Seed  int64
	Level string
	start time.Time

	mu          sync.Mutex
	known       map[string]Finding
	knownSeen   map[string]int
	violations  []violation
	Assumptions []string
}

type violation struct {
	Key    string
	Replay string
	Desc   string
}

// Start reads tier/seed from the environment and loads the known findings.
func Start(id, level string) *Run {
	tier := os.Getenv("VERIF_TIER")
	if tier != "thorough" {
		tier = "quick"
	}
	seed, _ := strconv.ParseInt(os.Getenv("VERIF_SEED"), 10, 64)
	r := &Run{ID: id, Tier: tier, Seed: seed, Level: level, start: time.Now(),
		known: map[string]Finding{}, knownSeen: map[string]int{}}
	var ff findingsFile
	if b, err := os.ReadFile(filepath.Join(Root, "known_findings.json")); err == nil {
		if err := json.Unmarshal(b, &ff); err != nil {
			Tool("known_findings.json unreadable: %v", err)
		}
	}
	for _, f := range ff.Findings {
		if f.Property == id {
			r.known[f.Key] = f
		}
	}
	return r
}

func (r *Run) Thorough() bool { return r.Tier == "thorough" }

// Elapsed wall-clock seconds since Start.
func (r *Run) Elapsed() float64 { return time.Since(r.start).Seconds() }

// Tool reports a tool failure (not a verdict) and exits 2.
func Tool(format string, a ...interface{}) {
	fmt.Fprintf(os.Stderr, "TOOL-ERROR: "+format+"\n", a...)
	os.Exit(2)
}

// Violation records one violating execution. key is the structural witness class; if it
// matches a known finding it is attributed to it, otherwise it becomes a VIOLATION.
// replay is any JSON-serialisable description sufficient to re-run the case.
// It returns true when the violation is new (unlisted).
func (r *Run) Violation(key, desc string, replay interface{}) bool {
	r.mu.Lock()
	defer r.mu.Unlock()
	if _, ok := r.known[key]; ok {
		r.knownSeen[key]++
		return false
	}
	for _, v := range r.violations {
		if v.Key == key {
			return true // one replay per witness class is enough
		}
	}
	b, _ := json.MarshalIndent(map[string]interface{}{
		"property": r.ID, "key": key, "description": desc, "replay": replay,
	}, "", " ")
	h := sha1.Sum(b)
	dir := filepath.Join(Root, "replays", r.ID)
	os.MkdirAll(dir, 0o755)
	p := filepath.Join(dir, hex.EncodeToString(h[:6])+".json")
	if err := os.WriteFile(p, b, 0o644); err != nil {
		Tool("cannot write replay: %v", err)
	}
	r.violations = append(r.violations, violation{key, p, desc})
	return true
}

// NewViolations is the number of distinct unlisted witness classes so far.
func (r *Run) NewViolations() int {
	r.mu.Lock()
	defer r.mu.Unlock()
	return len(r.violations)
}

// Coverage is the free-form coverage object of the evidence schema.
type Coverage map[string]interface{}

// Finish writes the evidence file, prints KNOWN-FINDING / VIOLATION lines and exits.
func (r *Run) Finish(cov Coverage) {
	wall := time.Since(r.start).Seconds()
	keys := make([]string, 0, len(r.knownSeen))
	for k := range r.knownSeen {
		keys = append(keys, k)
	}
	sort.Strings(keys)
	kf := []map[string]interface{}{}
	for _, k := range keys {
		f := r.known[k]
		fmt.Printf("KNOWN-FINDING: property=%s %s [key=%s, %d violating cases]\n", r.ID, f.What, k, r.knownSeen[k])
		kf = append(kf, map[string]interface{}{"key": k, "cases": r.knownSeen[k]})
	}
	cov["known_findings_hit"] = kf
	vs := []map[string]string{}
	for _, v := range r.violations {
		vs = append(vs, map[string]string{"key": v.Key, "replay": v.Replay, "desc": v.Desc})
	}
	cov["new_violation_classes"] = vs
	out := map[string]interface{}{
		"property_id": r.ID,
		"tier":        r.Tier,
		"seed":        r.Seed,
		"level":       r.Level,
		"coverage":    cov,
		"assumptions": r.Assumptions,
		"wall_s":      wall,
		"violations":  len(r.violations),
	}
	if r.Assumptions == nil {
		out["assumptions"] = []string{}
	}
	b, err := json.MarshalIndent(out, "", " ")
	if err != nil {
		Tool("evidence marshal: %v", err)
	}
	os.MkdirAll(filepath.Join(Root, "evidence"), 0o755)
	if err := os.WriteFile(filepath.Join(Root, "evidence", r.ID+".json"), b, 0o644); err != nil {
		Tool("evidence write: %v", err)
	}
	for _, v := range r.violations {
		fmt.Printf("VIOLATION property=%s replay=%s\n", r.ID, v.Replay)
		fmt.Printf("  %s: %s\n", v.Key, v.Desc)
	}
	if len(r.violations) > 0 {
		os.Exit(1)
	}
	fmt.Printf("OK property=%s tier=%s wall=%.1fs\n", r.ID, r.Tier, wall)
	os.Exit(0)
}

// Samples keeps the first n distinct samples offered.
type Samples struct {
	N    int
	list []interface{}
}

func (s *Samples) Add(v interface{}) {
	if len(s.list) < s.N {
		s.list = append(s.list, v)
	}
}
func (s *Samples) List() []interface{} {
	if s.list == nil {
		return []interface{}{}
	}
	return s.list
}
