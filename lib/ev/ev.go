// Package ev is the shared reporting layer of every check: evidence files,
// violation lines, replay artefacts and the known-findings file.
package ev

import (
	"crypto/sha1"
	"encoding/hex"
	"encoding/json"
	"fmt"
	"os"
	"os/exec"
	"path/filepath"
	"regexp"
	"sort"
	"strconv"
	"sync"
	"time"
)

// Root is /verif (overridable for tests).
var Root = func() string {
	if r := os.Getenv("VERIF_ROOT"); r != "" {
		return r
	}
	return "/verif"
}()

// Finding is one entry of known_findings.json.
type Finding struct {
	Property string `json:"property"`
	Key      string `json:"key"`  // witness class computed structurally by the check
	What     string `json:"what"` // human description printed on the KNOWN-FINDING line
	Minimal  string `json:"minimal,omitempty"`
}

type findingsFile struct {
	Findings []Finding `json:"findings"`
	Fixed    []string  `json:"fixed"`
}

// Run is the state of one check invocation.
type Run struct {
	ID    string
	Tier  string
	Seed  int64
	Level string
	start time.Time

	mu          sync.Mutex
	known       map[string]Finding
	knownSeen   map[string]int
	violations  []violation
	Assumptions []string

	// part mode (see RunPart): this binary runs as a borrowed phase of another property's check
	partFile string
	partKeys *regexp.Regexp
	partName string
	ignored  map[string]int
	parts    map[string]interface{}
}

type violation struct {
	Key    string `json:"key"`
	Replay string `json:"replay"`
	Desc   string `json:"desc"`
}

// Start reads tier/seed from the environment and loads the known findings.
func Start(id, level string) *Run {
	tier := os.Getenv("VERIF_TIER")
	if tier != "thorough" {
		tier = "quick"
	}
	seed, _ := strconv.ParseInt(os.Getenv("VERIF_SEED"), 10, 64)
	r := &Run{ID: id, Tier: tier, Seed: seed, Level: level, start: time.Now(),
		known: map[string]Finding{}, knownSeen: map[string]int{}, ignored: map[string]int{}, parts: map[string]interface{}{}}
	current = r
	if as := os.Getenv("VERIF_AS"); as != "" {
		// borrowed phase: the harness of property `id` runs for property `as`; only violations whose key
		// matches VERIF_PART_KEYS are clauses of `as` (everything else is this harness's own business)
		r.partName = id
		r.ID = as
		id = as
		r.partFile = os.Getenv("VERIF_PART")
		if r.partFile == "" {
			Tool("VERIF_AS without VERIF_PART")
		}
		rx, err := regexp.Compile(os.Getenv("VERIF_PART_KEYS"))
		if err != nil {
			Tool("VERIF_PART_KEYS: %v", err)
		}
		r.partKeys = rx
	}
	var ff findingsFile
	if b, err := os.ReadFile(filepath.Join(Root, "known_findings.json")); err == nil {
		if err := json.Unmarshal(b, &ff); err != nil {
			Tool("known_findings.json unreadable: %v", err)
		}
	}
	for _, f := range ff.Findings {
		if f.Property == id {
			r.known[f.Key] = f
		}
	}
	return r
}

func (r *Run) Thorough() bool { return r.Tier == "thorough" }

// Elapsed wall-clock seconds since Start.
func (r *Run) Elapsed() float64 { return time.Since(r.start).Seconds() }

// Tool reports a tool failure (not a verdict) and exits 2.
func Tool(format string, a ...interface{}) {
	fmt.Fprintf(os.Stderr, "TOOL-ERROR: "+format+"\n", a...)
	// a part of the check broke - but what another part has already found (and confirmed) is still reported: a change
	// that makes one phase unable to run (its workers die) and is caught by another phase is a caught change
	if r := current; r != nil && !inTool && r.partFile == "" {
		inTool = true
		r.mu.Lock()
		n := len(r.violations)
		var keys []interface{}
		for _, v := range r.violations {
			keys = append(keys, v.Key)
		}
		r.mu.Unlock()
		if n > 0 {
			r.Finish(Coverage{"exhaustive": false, "tool_failure": fmt.Sprintf(format, a...), "evaluations": n, "distinct_nontrivial": n, "samples": keys,
				"rule":        "only the violating cases recorded before the failure are counted here",
				"explanation": "a later phase of this check failed as a tool; the violations recorded before it are reported"})
		}
	}
	os.Exit(2)
}

var (
	current *Run
	inTool  bool
)

// Violation records one violating execution. key is the structural witness class; if it
// matches a known finding it is attributed to it, otherwise it becomes a VIOLATION.
// replay is any JSON-serialisable description sufficient to re-run the case.
// It returns true when the violation is new (unlisted).
func (r *Run) Violation(key, desc string, replay interface{}) bool {
	r.mu.Lock()
	defer r.mu.Unlock()
	if r.partKeys != nil {
		if !r.partKeys.MatchString(key) {
			r.ignored[key]++
			return false
		}
		key = r.partName + ":" + key
	}
	if _, ok := r.known[key]; ok {
		r.knownSeen[key]++
		return false
	}
	for _, v := range r.violations {
		if v.Key == key {
			return true // one replay per witness class is enough
		}
	}
	b, _ := json.MarshalIndent(map[string]interface{}{
		"property": r.ID, "key": key, "description": desc, "replay": replay, "part": r.partName,
	}, "", " ")
	h := sha1.Sum(b)
	dir := filepath.Join(Root, "replays", r.ID)
	os.MkdirAll(dir, 0o755)
	p := filepath.Join(dir, hex.EncodeToString(h[:6])+".json")
	if err := os.WriteFile(p, b, 0o644); err != nil {
		Tool("cannot write replay: %v", err)
	}
	r.violations = append(r.violations, violation{key, p, desc})
	return true
}

// NewViolations is the number of distinct unlisted witness classes so far.
func (r *Run) NewViolations() int {
	r.mu.Lock()
	defer r.mu.Unlock()
	return len(r.violations)
}

// Coverage is the free-form coverage object of the evidence schema.
type Coverage map[string]interface{}

// Finish writes the evidence file, prints KNOWN-FINDING / VIOLATION lines and exits.
func (r *Run) Finish(cov Coverage) {
	wall := time.Since(r.start).Seconds()
	keys := make([]string, 0, len(r.knownSeen))
	for k := range r.knownSeen {
		keys = append(keys, k)
	}
	sort.Strings(keys)
	kf := []map[string]interface{}{}
	for _, k := range keys {
		f := r.known[k]
		fmt.Printf("KNOWN-FINDING: property=%s %s [key=%s, %d violating cases]\n", r.ID, f.What, k, r.knownSeen[k])
		kf = append(kf, map[string]interface{}{"key": k, "cases": r.knownSeen[k]})
	}
	cov["known_findings_hit"] = kf
	vs := []map[string]string{}
	for _, v := range r.violations {
		vs = append(vs, map[string]string{"key": v.Key, "replay": v.Replay, "desc": v.Desc})
	}
	cov["new_violation_classes"] = vs
	if r.partFile != "" {
		r.finishPart(cov, wall)
	}
	if len(r.parts) > 0 {
		cov["borrowed_phases"] = r.parts
	}
	out := map[string]interface{}{
		"property_id": r.ID,
		"tier":        r.Tier,
		"seed":        r.Seed,
		"level":       r.Level,
		"coverage":    cov,
		"assumptions": r.Assumptions,
		"wall_s":      wall,
		"violations":  len(r.violations),
	}
	if r.Assumptions == nil {
		out["assumptions"] = []string{}
	}
	b, err := json.MarshalIndent(out, "", " ")
	if err != nil {
		Tool("evidence marshal: %v", err)
	}
	os.MkdirAll(filepath.Join(Root, "evidence"), 0o755)
	if err := os.WriteFile(filepath.Join(Root, "evidence", r.ID+".json"), b, 0o644); err != nil {
		Tool("evidence write: %v", err)
	}
	for _, v := range r.violations {
		fmt.Printf("VIOLATION property=%s replay=%s\n", r.ID, v.Replay)
		fmt.Printf("  %s: %s\n", v.Key, v.Desc)
	}
	if len(r.violations) > 0 {
		os.Exit(1)
	}
	fmt.Printf("OK property=%s tier=%s wall=%.1fs\n", r.ID, r.Tier, wall)
	os.Exit(0)
}

// finishPart ends a borrowed phase: the coverage and the violations go to the part file, the VIOLATION lines
// are left to the borrowing check.
func (r *Run) finishPart(cov Coverage, wall float64) {
	ign := map[string]int{}
	for k, v := range r.ignored {
		ign[k] = v
	}
	cov["keys_that_count_here"] = r.partKeys.String()
	cov["violations_of_other_clauses_ignored"] = ign
	cov["wall_s"] = wall
	vs := []violation{}
	vs = append(vs, r.violations...)
	b, err := json.MarshalIndent(map[string]interface{}{"coverage": cov, "violations": vs, "assumptions": r.Assumptions}, "", " ")
	if err != nil {
		Tool("part marshal: %v", err)
	}
	if err := os.WriteFile(r.partFile, b, 0o644); err != nil {
		Tool("part write: %v", err)
	}
	if len(r.violations) > 0 {
		os.Exit(1)
	}
	os.Exit(0)
}

// RunPart runs another property's harness binary as a phase of this check: the binary explores what it always
// explores (in the mode the caller selects through env), but reports under this property and only for the
// violation keys matching keys - the clauses this property's statement shares with the other one. Its coverage is
// recorded under coverage.borrowed_phases[name]; its violations become this run's violations.
func (r *Run) RunPart(name, binary, keys string, env ...string) {
	if binary == "" {
		Tool("borrowed phase %s: no binary", name)
	}
	part := filepath.Join(os.Getenv("VERIF_WORK"), "part."+name+".json")
	if os.Getenv("VERIF_WORK") == "" {
		part = filepath.Join(os.TempDir(), fmt.Sprintf("verif.part.%d.%s.json", os.Getpid(), name))
	}
	os.Remove(part)
	cmd := exec.Command(binary)
	cmd.Env = append(os.Environ(), "VERIF_AS="+r.ID, "VERIF_PART="+part, "VERIF_PART_KEYS="+keys)
	cmd.Env = append(cmd.Env, env...)
	cmd.Stdout, cmd.Stderr = os.Stderr, os.Stderr
	err := cmd.Run()
	b, rerr := os.ReadFile(part)
	if rerr != nil {
		Tool("borrowed phase %s ended without a result (%v)", name, err)
	}
	defer os.Remove(part)
	var pf struct {
		Coverage    map[string]interface{} `json:"coverage"`
		Violations  []violation            `json:"violations"`
		Assumptions []string               `json:"assumptions"`
	}
	if err := json.Unmarshal(b, &pf); err != nil {
		Tool("borrowed phase %s: %v", name, err)
	}
	r.mu.Lock()
	defer r.mu.Unlock()
	r.parts[name] = pf.Coverage
	r.violations = append(r.violations, pf.Violations...)
	for _, a := range pf.Assumptions {
		r.Assumptions = append(r.Assumptions, "["+name+"] "+a)
	}
}

// PartOf returns the name of the borrowed phase a replay file belongs to ("" = this harness's own).
func PartOf(replayPath string) string {
	b, err := os.ReadFile(replayPath)
	if err != nil {
		Tool("%v", err)
	}
	var f struct {
		Part string `json:"part"`
	}
	json.Unmarshal(b, &f)
	return f.Part
}

// ReplayPart hands a replay file to the borrowed phase's binary (same filter, same property) and exits with its code.
func ReplayPart(id, binary, keys, path string, env ...string) {
	cmd := exec.Command(binary, "--replay", path)
	cmd.Env = append(os.Environ(), "VERIF_AS="+id, "VERIF_PART_KEYS="+keys, "VERIF_PART=/dev/null")
	cmd.Env = append(cmd.Env, env...)
	cmd.Stdout, cmd.Stderr = os.Stdout, os.Stderr
	if err := cmd.Run(); err != nil {
		if ee, ok := err.(*exec.ExitError); ok {
			os.Exit(ee.ExitCode())
		}
		Tool("%v", err)
	}
	os.Exit(0)
}

// As returns the property a harness reports under (its own id unless it runs as a borrowed phase).
func As(own string) string {
	if as := os.Getenv("VERIF_AS"); as != "" {
		return as
	}
	return own
}

// Samples keeps the first n distinct samples offered.
type Samples struct {
	N    int
	list []interface{}
}

func (s *Samples) Add(v interface{}) {
	if len(s.list) < s.N {
		s.list = append(s.list, v)
	}
}
func (s *Samples) List() []interface{} {
	if s.list == nil {
		return []interface{}{}
	}
	return s.list
}

// Counts reports whether a violation key is a clause of the property this binary reports under (always true
// outside a borrowed phase). Replay paths use it, since they print their verdict without a Run.
func Counts(key string) bool {
	if os.Getenv("VERIF_AS") == "" {
		return true
	}
	rx, err := regexp.Compile(os.Getenv("VERIF_PART_KEYS"))
	if err != nil {
		Tool("VERIF_PART_KEYS: %v", err)
	}
	return rx.MatchString(key)
}
