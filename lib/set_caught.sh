#!/bin/bash
# usage: lib/set_caught.sh <ID-n> <text>   — records which check reports a stored seed (meta.json caught_by)
cd "$(dirname "$0")/.."
python3 - "$1" "$2" <<'PY'
import json,sys
p='seeded/%s/meta.json'%sys.argv[1]
m=json.load(open(p)); m['caught_by']=sys.argv[2]
json.dump(m,open(p,'w'),indent=1)
PY
