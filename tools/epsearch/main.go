// epsearch looks (breadth-first, shortest first) for histories that reach a state whose entry point is a live vertex
// BELOW the highest stored level - a state shape the directed part of C08 keeps as fixed cases.
package main

import (
	"fmt"

	"anndbverif/idxbfs"
	"anndbverif/idxlib"
	"anndbverif/vrt"
)

func main() {
	vrt.InactiveMapPolicy = 0
	for _, cfg := range []idxbfs.Config{{Space: "euclidean", M: 1, Ef: 1, EfC: 1}, {Space: "euclidean", M: 1, Ef: 2, EfC: 3}, {Space: "manhattan", M: 1, Ef: 2, EfC: 2}} {
		var alphabet []idxbfs.Op
		for id := 0; id < 4; id++ {
			for v := 0; v < 6; v++ {
				for l := 0; l < 2; l++ {
					alphabet = append(alphabet, idxbfs.Op{Kind: "ins", ID: id, Vec: v, Level: l})
				}
			}
			alphabet = append(alphabet, idxbfs.Op{Kind: "rem", ID: id})
		}
		seen := map[string]bool{}
		frontier := [][]idxbfs.Op{{}}
		found := 0
		for depth := 0; depth < 7 && found == 0; depth++ {
			var next [][]idxbfs.Op
			for _, p := range frontier {
				for _, o := range alphabet {
					np := append(append([]idxbfs.Op{}, p...), o)
					w, k, _ := idxbfs.Build(cfg, np)
					if k != "" {
						continue
					}
					d := w.Ix.VerifDump()
					key := idxlib.DumpKey(d)
					if seen[key] {
						continue
					}
					seen[key] = true
					next = append(next, np)
					top := 0
					for _, v := range d.Vertices {
						if v.Level > top {
							top = v.Level
						}
					}
					if !d.EntrypointNil && d.EntrypointLive && !d.EntrypointDel && d.EntrypointLevel < top && found < 3 {
						found++
						fmt.Printf("%+v %v\n", cfg, np)
					}
				}
			}
			frontier = next
			fmt.Println(cfg.Space, cfg.Ef, "depth", depth+1, "states", len(seen))
		}
	}
}
