// Package serverenv replaces the two operating-system resources anndb.Server.setup() acquires
// (the on-disk Badger and the TCP listener) so that the REAL setup() can run inside the
// simulation: the data directory names a per-node in-memory Badger that survives node crashes,
// the listener is a dummy (the gRPC server is never served; calls go through vrt/fakes).
package serverenv

import (
	"errors"
	"net"

	badger "github.com/dgraph-io/badger/v2"
)

// Disks maps a data directory to the node's surviving database.
var Disks = map[string]*badger.DB{}

// OpenDB is what setup() calls instead of badger.Open(path).
func OpenDB(dir string) (*badger.DB, error) {
	if db, ok := Disks[dir]; ok {
		return db, nil
	}
	return nil, errors.New("serverenv: no disk registered for " + dir)
}

type listener struct{ addr string }

func (l *listener) Accept() (net.Conn, error) { select {} }
func (l *listener) Close() error              { return nil }
func (l *listener) Addr() net.Addr            { return addr(l.addr) }

type addr string

func (a addr) Network() string { return "sim" }
func (a addr) String() string  { return string(a) }

// Listen is what setup() calls instead of net.Listen.
func Listen(network, address string) (net.Listener, error) { return &listener{address}, nil }
