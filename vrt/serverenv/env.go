// Package serverenv replaces the two operating-system resources anndb.Server.setup() acquires
// (the on-disk Badger and the TCP listener) so that the REAL setup() can run inside the
// simulation: the data directory names a per-node in-memory Badger that survives node crashes,
// the listener is a dummy (the gRPC server is never served; calls go through vrt/fakes).
package serverenv

import (
	"errors"
	"net"

	badger "github.com/dgraph-io/badger/v2"
)

// Disks maps a data directory to the node's surviving database (nil until the node's first start opens it).
var Disks = map[string]*badger.DB{}

// TableSize is the memtable size of the simulated disks (1 MiB unless a harness needs room for large log entries).
var TableSize int64 = 1 << 20

// OpenDB is what setup() calls instead of badger.Open(options): the options are the ones the server passes (whatever
// it tunes - size limits, thresholds - applies), only the place changes: the directory names a per-node in-memory
// database that is opened at the node's first start and survives its crashes.
func OpenDB(opts badger.Options) (*badger.DB, error) {
	dir := opts.Dir
	db, ok := Disks[dir]
	if !ok {
		return nil, errors.New("serverenv: no disk registered for " + dir)
	}
	if db != nil {
		return db, nil
	}
	// the simulated disk is the in-memory database the harness has always used (small tables keep thousands of them cheap;
	// a write batch may be 15% of a table, so histories with multi-megabyte log entries ask for bigger ones: TableSize);
	// from the server's own options it takes what decides whether a write is ACCEPTED: the largest value it admits
	// (ValueLogFileSize) and read-only mode. Everything else about the server's options concerns files that do not exist here.
	mem := badger.DefaultOptions("").WithInMemory(true).WithEventLogging(false).WithLogger(nil).WithMaxTableSize(TableSize).WithNumMemtables(2)
	mem = mem.WithValueLogFileSize(opts.ValueLogFileSize).WithReadOnly(opts.ReadOnly)
	opts = mem
	db, err := badger.Open(opts)
	if err != nil {
		return nil, err
	}
	Disks[dir] = db
	return db, nil
}

type listener struct{ addr string }

func (l *listener) Accept() (net.Conn, error) { select {} }
func (l *listener) Close() error              { return nil }
func (l *listener) Addr() net.Addr            { return addr(l.addr) }

type addr string

func (a addr) Network() string { return "sim" }
func (a addr) String() string  { return string(a) }

// Listen is what setup() calls instead of net.Listen.
func Listen(network, address string) (net.Listener, error) { return &listener{address}, nil }
