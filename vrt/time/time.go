// Package time is the drop-in replacement for "time" in instrumented files: timers are
// virtual, Now passes through (allow-listed: used for log lines and durations only).
package time

import (
	std "time"

	"anndbverif/vrt"
)

type Duration = std.Duration
type Time = std.Time
type Month = std.Month
type Location = std.Location

const (
	Nanosecond  = std.Nanosecond
	Microsecond = std.Microsecond
	Millisecond = std.Millisecond
	Second      = std.Second
	Minute      = std.Minute
	Hour        = std.Hour
	RFC3339     = std.RFC3339
)

var UTC = std.UTC

func Now() Time                                { return std.Now() }
func Since(t Time) Duration                    { return std.Since(t) }
func Unix(s, n int64) Time                     { return std.Unix(s, n) }
func ParseDuration(s string) (Duration, error) { return std.ParseDuration(s) }

type Ticker struct {
	C <-chan Time
	t *vrt.Timer
}

func NewTicker(d Duration) *Ticker {
	t := vrt.NewTimer("ticker", d, "ticker")
	return &Ticker{C: t.C, t: t}
}
func (t *Ticker) Stop() { t.t.Stop() }

func Tick(d Duration) <-chan Time { return NewTicker(d).C }

type Timer struct {
	C <-chan Time
	t *vrt.Timer
}

func NewTimer(d Duration) *Timer {
	t := vrt.NewTimer("timer", d, "timer")
	return &Timer{C: t.C, t: t}
}
func (t *Timer) Stop() bool            { return t.t.Stop() }
func (t *Timer) Reset(d Duration) bool { was := t.t.Armed(); t.t.Reset(); return was }

func After(d Duration) <-chan Time { return NewTimer(d).C }

// Sleep is a scheduling point; virtual time does not advance.
func Sleep(d Duration) { vrt.Yield() }
