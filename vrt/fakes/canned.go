package fakes

import (
	"github.com/marekgalovic/anndb/index"
	pb "github.com/marekgalovic/anndb/protobuf"
)

func reflectItems(items interface{}) []*pb.SearchResultItem {
	var out []*pb.SearchResultItem
	for _, it := range items.(index.SearchResult) {
		out = append(out, &pb.SearchResultItem{Id: it.Id.Bytes(), Metadata: it.Metadata, Score: it.Score})
	}
	return out
}
