// Package fakes replaces the wire: the generated gRPC client constructors are redirected
// here by the instrumenter, so the production path Conn.Dial(id) -> address book -> lazy
// grpc.Dial stays real and only the transport below the generated client is in-memory.
// A client is bound to the simulated node whose address is conn.Target(); a call runs the
// target node's real service handler synchronously on the calling thread.
package fakes

import (
	"context"
	"fmt"
	"io"
	"os"
	gosync "sync"

	"anndbverif/vrt"

	pb "github.com/marekgalovic/anndb/protobuf"
	"google.golang.org/grpc"
	"google.golang.org/grpc/codes"
	"google.golang.org/grpc/connectivity"
	"google.golang.org/grpc/status"
)

// Node is the set of real service objects registered for one simulated node.
type Node struct {
	Raft     pb.RaftTransportServer
	Search   pb.SearchServer
	Data     pb.DataManagerServer
	Nodes    pb.NodesManagerServer
	Datasets pb.DatasetManagerServer
	Down     bool
}

var (
	// Registry maps address (conn.Target()) to node.
	Registry = map[string]*Node{}
	// Intercept, when set, sees every call first. handled=true short-circuits the call.
	Intercept func(target, method string, ctx context.Context, req interface{}) (handled bool, resp interface{}, err error)
	// Calls counts calls per "target method".
	Calls = map[string]int{}

	// YieldBeforeCall makes every call a scheduling point BEFORE the request message is looked at: the real client
	// goes through locks and atomics (stream set-up) before it serialises the message, so another goroutine can run
	// between the statement that filled the message in and the moment it is read. Off by default (it multiplies the
	// schedules of every scenario that makes calls); scenarios about request messages switch it on.
	YieldBeforeCall bool

	// what the real client returns for a peer that is down or cut off: a gRPC status error with code Unavailable
	// (callers may and do look at the code)
	ErrUnavailable = status.Error(codes.Unavailable, "simulated node unreachable")
)

// The connection objects the code under test dials are real (never connected: the fake clients only use them as
// handles). A world that is abandoned - crashed servers, killed threads - never closes them, and each keeps two
// goroutines and a trace log alive: over a 25-minute search that was gigabytes. Reset closes what the previous
// execution left open.
var (
	connsMu gosync.Mutex
	conns   = map[*grpc.ClientConn]struct{}{}
)

func init() { grpc.EnableTracing = false }

// Reset clears registry, interceptor and counters (per execution).
func Reset() {
	connsMu.Lock()
	old := conns
	conns = map[*grpc.ClientConn]struct{}{}
	connsMu.Unlock()
	for c := range old {
		c.Close()
	}
	Registry = map[string]*Node{}
	Intercept = nil
	Calls = map[string]int{}
	YieldBeforeCall = false
}

// tgt is what a fake client is bound to: the target address and the connection object it was built on (a client built
// on a connection that has been closed since fails like the real one: "the client connection is closing").
type tgt struct {
	addr string
	cc   *grpc.ClientConn
}

func target(cc grpc.ClientConnInterface) tgt {
	if c, ok := cc.(*grpc.ClientConn); ok && c != nil {
		connsMu.Lock()
		conns[c] = struct{}{}
		connsMu.Unlock()
		return tgt{c.Target(), c}
	}
	if t, ok := cc.(interface{ Target() string }); ok {
		return tgt{t.Target(), nil}
	}
	return tgt{}
}

// ErrConnClosing is what a call on a closed connection returns.
var ErrConnClosing = status.Error(codes.Canceled, "grpc: the client connection is closing")

var debugNet = os.Getenv("VERIF_DEBUG_NET") != ""

// callsMu only matters in free-running (race pass) use; under the cooperative scheduler it is never contended.
var callsMu gosync.Mutex

func pre(tg tgt, method string, ctx context.Context, req interface{}) (*Node, bool, interface{}, error) {
	t := tg.addr
	if YieldBeforeCall {
		vrt.Yield()
	}
	if tg.cc != nil && tg.cc.GetState() == connectivity.Shutdown {
		if debugNet {
			fmt.Fprintf(os.Stderr, "    call %s on %s: the client's connection is closed\n", method, t)
		}
		return nil, true, nil, ErrConnClosing
	}
	callsMu.Lock()
	Calls[t+" "+method]++
	callsMu.Unlock()
	if Intercept != nil {
		if h, r, err := Intercept(t, method, ctx, req); h {
			return nil, true, r, err
		}
	}
	if err := ctx.Err(); err != nil {
		return nil, true, nil, err
	}
	n := Registry[t]
	if n == nil || n.Down {
		return nil, true, nil, ErrUnavailable
	}
	return n, false, nil, nil
}

// ---- raft transport ----

type raftClient struct{ t tgt }

func NewRaftTransportClient(cc grpc.ClientConnInterface) pb.RaftTransportClient {
	return &raftClient{target(cc)}
}

func (c *raftClient) Receive(ctx context.Context, in *pb.RaftMessage, opts ...grpc.CallOption) (*pb.EmptyMessage, error) {
	n, h, r, err := pre(c.t, "Receive", ctx, in)
	if h {
		if r == nil {
			return nil, err
		}
		return r.(*pb.EmptyMessage), err
	}
	if n.Raft == nil {
		return nil, ErrUnavailable
	}
	return n.Raft.Receive(ctx, in)
}

// ---- search ----

type searchClient struct{ t tgt }

func NewSearchClient(cc grpc.ClientConnInterface) pb.SearchClient { return &searchClient{target(cc)} }

type itemStream struct {
	grpc.ClientStream
	items []*pb.SearchResultItem
	err   error
}

func (s *itemStream) Recv() (*pb.SearchResultItem, error) {
	if len(s.items) == 0 {
		if s.err != nil {
			return nil, s.err
		}
		return nil, io.EOF
	}
	it := s.items[0]
	s.items = s.items[1:]
	return it, nil
}

type itemServerStream struct {
	grpc.ServerStream
	ctx   context.Context
	items []*pb.SearchResultItem
}

func (s *itemServerStream) Send(m *pb.SearchResultItem) error {
	s.items = append(s.items, m)
	return nil
}
func (s *itemServerStream) Context() context.Context { return s.ctx }

func (c *searchClient) Search(ctx context.Context, in *pb.SearchRequest, opts ...grpc.CallOption) (pb.Search_SearchClient, error) {
	n, h, _, err := pre(c.t, "Search", ctx, in)
	if h {
		return nil, err
	}
	ss := &itemServerStream{ctx: ctx}
	// gRPC reports a handler error on the first Recv, after whatever was sent
	herr := n.Search.Search(in, ss)
	return &itemStream{items: ss.items, err: herr}, nil
}

// Canned is a ready-made stream answer an interceptor may return.
type Canned struct {
	Items []*pb.SearchResultItem
	Err   error // reported by Recv after the items (nil = clean EOF)
}

func (c *searchClient) SearchPartitions(ctx context.Context, in *pb.SearchPartitionsRequest, opts ...grpc.CallOption) (pb.Search_SearchPartitionsClient, error) {
	n, h, r, err := pre(c.t, "SearchPartitions", ctx, in)
	if h {
		if cn, ok := r.(*Canned); ok && err == nil {
			return &itemStream{items: cn.Items, err: cn.Err}, nil
		}
		return nil, err
	}
	ss := &itemServerStream{ctx: ctx}
	herr := n.Search.SearchPartitions(in, ss)
	return &itemStream{items: ss.items, err: herr}, nil
}

// ---- data manager ----

type dataClient struct{ t tgt }

func NewDataManagerClient(cc grpc.ClientConnInterface) pb.DataManagerClient {
	return &dataClient{target(cc)}
}

func (c *dataClient) Insert(ctx context.Context, in *pb.InsertRequest, opts ...grpc.CallOption) (*pb.EmptyMessage, error) {
	n, h, _, err := pre(c.t, "Insert", ctx, in)
	if h {
		return nil, err
	}
	return n.Data.Insert(ctx, in)
}
func (c *dataClient) Update(ctx context.Context, in *pb.UpdateRequest, opts ...grpc.CallOption) (*pb.EmptyMessage, error) {
	n, h, _, err := pre(c.t, "Update", ctx, in)
	if h {
		return nil, err
	}
	return n.Data.Update(ctx, in)
}
func (c *dataClient) Remove(ctx context.Context, in *pb.RemoveRequest, opts ...grpc.CallOption) (*pb.EmptyMessage, error) {
	n, h, _, err := pre(c.t, "Remove", ctx, in)
	if h {
		return nil, err
	}
	return n.Data.Remove(ctx, in)
}
func (c *dataClient) BatchInsert(ctx context.Context, in *pb.BatchRequest, opts ...grpc.CallOption) (*pb.BatchResponse, error) {
	n, h, _, err := pre(c.t, "BatchInsert", ctx, in)
	if h {
		return nil, err
	}
	return n.Data.BatchInsert(ctx, in)
}
func (c *dataClient) BatchUpdate(ctx context.Context, in *pb.BatchRequest, opts ...grpc.CallOption) (*pb.BatchResponse, error) {
	n, h, _, err := pre(c.t, "BatchUpdate", ctx, in)
	if h {
		return nil, err
	}
	return n.Data.BatchUpdate(ctx, in)
}
func (c *dataClient) BatchRemove(ctx context.Context, in *pb.BatchRequest, opts ...grpc.CallOption) (*pb.BatchResponse, error) {
	n, h, _, err := pre(c.t, "BatchRemove", ctx, in)
	if h {
		return nil, err
	}
	return n.Data.BatchRemove(ctx, in)
}
func (c *dataClient) PartitionBatchInsert(ctx context.Context, in *pb.PartitionBatchRequest, opts ...grpc.CallOption) (*pb.BatchResponse, error) {
	n, h, r, err := pre(c.t, "PartitionBatchInsert", ctx, in)
	if h {
		if r != nil {
			return r.(*pb.BatchResponse), err
		}
		return nil, err
	}
	return n.Data.PartitionBatchInsert(ctx, in)
}
func (c *dataClient) PartitionBatchUpdate(ctx context.Context, in *pb.PartitionBatchRequest, opts ...grpc.CallOption) (*pb.BatchResponse, error) {
	n, h, r, err := pre(c.t, "PartitionBatchUpdate", ctx, in)
	if h {
		if r != nil {
			return r.(*pb.BatchResponse), err
		}
		return nil, err
	}
	return n.Data.PartitionBatchUpdate(ctx, in)
}
func (c *dataClient) PartitionBatchRemove(ctx context.Context, in *pb.PartitionBatchRequest, opts ...grpc.CallOption) (*pb.BatchResponse, error) {
	n, h, r, err := pre(c.t, "PartitionBatchRemove", ctx, in)
	if h {
		if r != nil {
			return r.(*pb.BatchResponse), err
		}
		return nil, err
	}
	return n.Data.PartitionBatchRemove(ctx, in)
}
func (c *dataClient) PartitionInfo(ctx context.Context, in *pb.PartitionInfoRequest, opts ...grpc.CallOption) (*pb.PartitionInfoResponse, error) {
	n, h, r, err := pre(c.t, "PartitionInfo", ctx, in)
	if h {
		if r != nil {
			return r.(*pb.PartitionInfoResponse), err
		}
		return nil, err
	}
	return n.Data.PartitionInfo(ctx, in)
}

// ---- nodes manager ----

type nodesClient struct{ t tgt }

func NewNodesManagerClient(cc grpc.ClientConnInterface) pb.NodesManagerClient {
	return &nodesClient{target(cc)}
}

type nodeStream struct {
	grpc.ClientStream
	items []*pb.Node
	err   error
}

func (s *nodeStream) Recv() (*pb.Node, error) {
	if len(s.items) == 0 {
		if s.err != nil {
			return nil, s.err
		}
		return nil, io.EOF
	}
	it := s.items[0]
	s.items = s.items[1:]
	return it, nil
}

type nodeServerStream struct {
	grpc.ServerStream
	ctx   context.Context
	items []*pb.Node
}

func (s *nodeServerStream) Send(m *pb.Node) error    { s.items = append(s.items, m); return nil }
func (s *nodeServerStream) Context() context.Context { return s.ctx }

// TruncateStream, when set, may cut a streamed response (message loss during the join handshake).
var TruncateStream func(target, method string, n int) (keep int, err error)

func (c *nodesClient) ListNodes(ctx context.Context, in *pb.EmptyMessage, opts ...grpc.CallOption) (pb.NodesManager_ListNodesClient, error) {
	n, h, _, err := pre(c.t, "ListNodes", ctx, in)
	if h {
		return nil, err
	}
	ss := &nodeServerStream{ctx: ctx}
	herr := n.Nodes.ListNodes(in, ss)
	return &nodeStream{items: ss.items, err: herr}, nil
}
func (c *nodesClient) AddNode(ctx context.Context, in *pb.Node, opts ...grpc.CallOption) (pb.NodesManager_AddNodeClient, error) {
	n, h, _, err := pre(c.t, "AddNode", ctx, in)
	if h {
		return nil, err
	}
	ss := &nodeServerStream{ctx: ctx}
	herr := n.Nodes.AddNode(in, ss)
	st := &nodeStream{items: ss.items, err: herr}
	if TruncateStream != nil && herr == nil {
		keep, terr := TruncateStream(c.t.addr, "AddNode", len(st.items))
		if keep < len(st.items) {
			st.items = st.items[:keep]
			st.err = terr
		}
	}
	return st, nil
}
func (c *nodesClient) RemoveNode(ctx context.Context, in *pb.Node, opts ...grpc.CallOption) (*pb.EmptyMessage, error) {
	n, h, _, err := pre(c.t, "RemoveNode", ctx, in)
	if h {
		return nil, err
	}
	return n.Nodes.RemoveNode(ctx, in)
}
func (c *nodesClient) LoadInfo(ctx context.Context, in *pb.EmptyMessage, opts ...grpc.CallOption) (*pb.NodeLoadInfo, error) {
	n, h, _, err := pre(c.t, "LoadInfo", ctx, in)
	if h {
		return nil, err
	}
	return n.Nodes.LoadInfo(ctx, in)
}

// ---- dataset manager (only used by tools; provided for completeness) ----

type datasetsClient struct{ t tgt }

func NewDatasetManagerClient(cc grpc.ClientConnInterface) pb.DatasetManagerClient {
	return &datasetsClient{target(cc)}
}

type datasetStream struct {
	grpc.ClientStream
	items []*pb.Dataset
	err   error
}

func (s *datasetStream) Recv() (*pb.Dataset, error) {
	if len(s.items) == 0 {
		if s.err != nil {
			return nil, s.err
		}
		return nil, io.EOF
	}
	it := s.items[0]
	s.items = s.items[1:]
	return it, nil
}

// DatasetServerStream collects List responses (also used directly by harnesses).
type DatasetServerStream struct {
	grpc.ServerStream
	Ctx   context.Context
	Items []*pb.Dataset
}

func (s *DatasetServerStream) Send(m *pb.Dataset) error { s.Items = append(s.Items, m); return nil }
func (s *DatasetServerStream) Context() context.Context { return s.Ctx }

// ItemServerStream collects Search responses (used directly by harnesses).
type ItemServerStream struct {
	grpc.ServerStream
	Ctx   context.Context
	Items []*pb.SearchResultItem
}

func (s *ItemServerStream) Send(m *pb.SearchResultItem) error {
	s.Items = append(s.Items, m)
	return nil
}
func (s *ItemServerStream) Context() context.Context { return s.Ctx }

// NodeServerStream collects node lists (used directly by harnesses).
type NodeServerStream struct {
	grpc.ServerStream
	Ctx   context.Context
	Items []*pb.Node
}

func (s *NodeServerStream) Send(m *pb.Node) error    { s.Items = append(s.Items, m); return nil }
func (s *NodeServerStream) Context() context.Context { return s.Ctx }

func (c *datasetsClient) List(ctx context.Context, in *pb.ListDatasetsRequest, opts ...grpc.CallOption) (pb.DatasetManager_ListClient, error) {
	n, h, _, err := pre(c.t, "List", ctx, in)
	if h {
		return nil, err
	}
	ss := &DatasetServerStream{Ctx: ctx}
	herr := n.Datasets.List(in, ss)
	return &datasetStream{items: ss.Items, err: herr}, nil
}
func (c *datasetsClient) Get(ctx context.Context, in *pb.GetDatasetRequest, opts ...grpc.CallOption) (*pb.Dataset, error) {
	n, h, _, err := pre(c.t, "Get", ctx, in)
	if h {
		return nil, err
	}
	return n.Datasets.Get(ctx, in)
}
func (c *datasetsClient) Create(ctx context.Context, in *pb.Dataset, opts ...grpc.CallOption) (*pb.Dataset, error) {
	n, h, _, err := pre(c.t, "Create", ctx, in)
	if h {
		return nil, err
	}
	return n.Datasets.Create(ctx, in)
}
func (c *datasetsClient) Delete(ctx context.Context, in *pb.UUIDRequest, opts ...grpc.CallOption) (*pb.EmptyMessage, error) {
	n, h, _, err := pre(c.t, "Delete", ctx, in)
	if h {
		return nil, err
	}
	return n.Datasets.Delete(ctx, in)
}
func (c *datasetsClient) GetDatasetSize(ctx context.Context, in *pb.GetDatasetRequest, opts ...grpc.CallOption) (*pb.DatasetSize, error) {
	n, h, _, err := pre(c.t, "GetDatasetSize", ctx, in)
	if h {
		return nil, err
	}
	return n.Datasets.GetDatasetSize(ctx, in)
}

// CannedItems converts search results into a canned stream answer.
func CannedItems(items interface{}) *Canned {
	c := &Canned{}
	v := reflectItems(items)
	c.Items = v
	return c
}
