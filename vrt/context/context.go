// Package context is the drop-in replacement for "context" in instrumented files.
package context

import (
	std "context"
	"time"

	"anndbverif/vrt"
)

type Context = std.Context
type CancelFunc = std.CancelFunc

var Canceled = std.Canceled
var DeadlineExceeded = std.DeadlineExceeded

func Background() Context { return std.Background() }
func TODO() Context       { return std.TODO() }
func WithValue(parent Context, key, val interface{}) Context {
	return std.WithValue(parent, key, val)
}
func WithCancel(parent Context) (Context, CancelFunc) { return vrt.WithCancel(parent) }
func WithTimeout(parent Context, d time.Duration) (Context, CancelFunc) {
	return vrt.WithTimeout(parent, d)
}
func WithDeadline(parent Context, t time.Time) (Context, CancelFunc) {
	return vrt.WithTimeout(parent, time.Until(t))
}
