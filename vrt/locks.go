package vrt

// Shim lock types. They keep their state in the struct (no real mutex underneath): with
// one thread running at a time that is race-free and makes "who holds what" inspectable.

type Mutex struct {
	locked bool
	holder *Thread
}

func (m *Mutex) Lock() {
	if Unwinding() {
		return
	}
	s := S
	if s == nil || s.cur == nil {
		if m.locked {
			panic("vrt: Mutex.Lock would block in sequential mode at " + site(2))
		}
		m.locked = true
		return
	}
	s.park(pendingOp{kind: OpLock, where: site(2), mu: m})
}

func (m *Mutex) Unlock() {
	if Unwinding() {
		return
	}
	if !m.locked {
		panic("sync: unlock of unlocked mutex")
	}
	m.locked = false
	m.holder = nil
}

func (m *Mutex) TryLock() bool {
	if m.locked {
		return false
	}
	m.locked = true
	return true
}

type RWMutex struct {
	readers        int
	writer         bool
	writersWaiting int
	holder         *Thread
}

func (m *RWMutex) RLock() {
	if Unwinding() {
		return
	}
	s := S
	if s == nil || s.cur == nil {
		if m.writer {
			panic("vrt: RWMutex.RLock would block in sequential mode at " + site(2))
		}
		m.readers++
		return
	}
	s.park(pendingOp{kind: OpRLock, where: site(2), rw: m})
}

func (m *RWMutex) RUnlock() {
	if Unwinding() {
		return
	}
	if m.readers <= 0 {
		panic("sync: RUnlock of unlocked RWMutex")
	}
	m.readers--
}

func (m *RWMutex) Lock() {
	if Unwinding() {
		return
	}
	s := S
	if s == nil || s.cur == nil {
		if m.writer || m.readers > 0 {
			panic("vrt: RWMutex.Lock would block in sequential mode at " + site(2))
		}
		m.writer = true
		return
	}
	// A thread that is about to call Lock has not announced itself yet: readers may still get in.
	// (Without this point "parked at Lock" would always mean "announced", and interleavings in
	// which a reader slips in between this thread's previous operation and its Lock are lost.)
	s.park(pendingOp{kind: OpYield, where: site(2)})
	// Go's writer preference: a pending Lock excludes new readers.
	m.writersWaiting++
	defer func() {
		if r := recover(); r != nil {
			m.writersWaiting-- // killed while waiting
			panic(r)
		}
	}()
	s.park(pendingOp{kind: OpWLock, where: site(2), rw: m})
}

func (m *RWMutex) Unlock() {
	if Unwinding() {
		return
	}
	if !m.writer {
		panic("sync: Unlock of unlocked RWMutex")
	}
	m.writer = false
	m.holder = nil
}

func (m *RWMutex) RLocker() interface {
	Lock()
	Unlock()
} {
	return (*rlocker)(m)
}

type rlocker RWMutex

func (r *rlocker) Lock()   { (*RWMutex)(r).RLock() }
func (r *rlocker) Unlock() { (*RWMutex)(r).RUnlock() }

type WaitGroup struct {
	n int
}

func (w *WaitGroup) Add(d int) {
	if Unwinding() {
		return
	}
	w.n += d
	if w.n < 0 {
		panic("sync: negative WaitGroup counter")
	}
}

func (w *WaitGroup) Done() { w.Add(-1) }

func (w *WaitGroup) Wait() {
	if Unwinding() {
		return
	}
	s := S
	if s == nil || s.cur == nil {
		if w.n != 0 {
			panic("vrt: WaitGroup.Wait would block in sequential mode at " + site(2))
		}
		return
	}
	s.park(pendingOp{kind: OpWait, where: site(2), wg: w})
}

type Once struct {
	done bool
	m    Mutex
}

func (o *Once) Do(f func()) {
	if o.done {
		return
	}
	o.m.Lock()
	defer o.m.Unlock()
	if !o.done {
		defer func() { o.done = true }()
		f()
	}
}

// AtomicPoint is called by the atomic shim before every atomic operation.
func AtomicPoint() {
	s := S
	if s == nil || !s.AtomicPoints || s.cur == nil || s.cur.killed || s.aborting {
		return
	}
	s.park(pendingOp{kind: OpAtomic, where: site(3)})
}
