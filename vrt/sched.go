// Package vrt is the cooperative scheduler that owns every goroutine, lock, channel
// operation, timer and random choice of the instrumented anndb code.
//
// Exactly one owned goroutine ("thread") runs at a time. A thread stops at a point before
// every operation that can block or that makes another thread runnable in an observable
// way, publishes the pending operation and waits; the driver computes which pending
// operations are enabled against the REAL objects and asks a Strategy which one to run.
//
// When no execution is active (S == nil) every shim degrades to a plain single-threaded
// implementation so that instrumented packages can also be used by sequential harnesses.
package vrt

import (
	"fmt"
	"os"
	"reflect"
	"runtime"
	"runtime/debug"
	"sort"
	"strings"
	gosync "sync"
	"time"
)

type OpKind int

const (
	OpStart OpKind = iota
	OpYield        // always enabled (after a rendezvous, explicit yield)
	OpLock
	OpRLock
	OpWLock // RWMutex.Lock: announced first, enabled when no holder
	OpWait  // WaitGroup.Wait
	OpChan  // send / recv / select: cases
	OpAtomic
	OpChoose // environment / data choice with N alternatives
	OpLast   // enabled only while no other thread has anything enabled (lets everybody else run first)
)

func (k OpKind) String() string {
	return [...]string{"start", "yield", "lock", "rlock", "wlock", "wgwait", "chan", "atomic", "choose", "last"}[k]
}

type Dir int

const (
	DirRecv Dir = iota
	DirSend
)

// SelCase is one communication of a pending channel operation.
type SelCase struct {
	Dir Dir
	Ch  reflect.Value // invalid or nil channel => never ready
}

type pendingOp struct {
	kind       OpKind
	where      string
	mu         *Mutex
	rw         *RWMutex
	wg         *WaitGroup
	cases      []SelCase
	hasDefault bool
	n          int    // OpChoose
	chooseKind string // OpChoose

	// filled in by the driver when the op is performed
	chosen int  // case index, -1 = default; for OpChoose the answer
	paired bool // performed as a rendezvous: thread must re-park in After
}

type Thread struct {
	ID       int
	Name     string
	Main     bool
	resume   chan struct{}
	op       pendingOp
	finished bool
	killed   bool // crashed node / aborted execution: shim ops are no-ops, thread unwinds
	started  bool
	Panic    interface{}
	Stack    string
	holds    []string
}

// Alt is one enabled alternative at a point.
type Alt struct {
	T       *Thread
	Case    int // for OpChan: which case; for OpChoose: which answer
	Partner *Thread
	PCase   int
	Timer   *Timer // environment event: fire this timer
}

func (a Alt) String() string {
	if a.Timer != nil {
		return "fire(" + a.Timer.String() + ")"
	}
	s := fmt.Sprintf("%s:%s@%s", a.T.Name, a.T.op.kind, a.T.op.where)
	if a.T.op.kind == OpChan || a.T.op.kind == OpChoose {
		s += fmt.Sprintf("[%d]", a.Case)
	}
	if a.Partner != nil {
		s += "<->" + a.Partner.Name
	}
	return s
}

// Strategy decides which alternative runs. alts[0] is the default (the running thread if
// it is still enabled, else the lowest thread id). costs[i] is the deviation cost of alts[i].
type Strategy interface {
	Pick(s *Sched, alts []Alt, costs []int) int
}

// Sched is one execution.
type Sched struct {
	threads        []*Thread
	cur            *Thread
	last           *Thread
	yield          chan *Thread
	closed         map[uintptr]bool
	timers         []*Timer
	Points         int
	Horizon        int
	HitHorizon     bool
	aborting       bool
	Fatal          string // first log.Fatal / os.Exit inside owned code
	Trace          []string
	KeepTrace      bool
	AtomicPoints   bool // atomics are scheduling points
	OfferTimers    bool // E1: timer firings are offered as environment alternatives
	SelectCaseFree bool // choosing a non-first ready select case costs nothing (default: costs 1 deviation)
	SpawnPoints    bool // a `go` statement is a scheduling point (the child may run first)
	DelayBounding  bool // every non-default scheduling decision costs 1 (delay bounding) instead of preemption bounding
	ChooseFree     bool // Choose answers other than 0 cost nothing (default true: data choices are enumerated at every bound)
	RandChoose     bool // math/rand answers are Choose points (else fixed stream)
	randState      uint64
	uuidCounter    uint64
	MapPolicy      int // 0 ascending, 1 descending, >=2 rotate by (MapPolicy-1)
	seq            map[uintptr]int
	OnDurable      func(t *Thread, site string, after bool) bool // true => crash the thread's node
	// CrashGrace: see graceBeforeCrash.
	CrashGrace bool
	// FailDurable, when set, may make a durable write fail instead of happening: a non-nil error is returned to the
	// caller of the write and nothing is written.
	FailDurable  func(t *Thread, where string) error
	CrashPrefix  func(t *Thread) string
	DurableCount int
	Monitor      func(ev string, args ...interface{})
	Watchdog     time.Duration
	nextID       int
	pendingKill  string
	tunables     map[string]uint64
}

// S is the active execution (nil => inactive, shims are plain).
var S *Sched

func New() *Sched {
	return &Sched{
		yield:      make(chan *Thread, 4),
		closed:     map[uintptr]bool{},
		Horizon:    20000,
		seq:        map[uintptr]int{},
		ChooseFree: true,
		// a tool safeguard against a thread blocked outside the shims, never an oracle: long enough that a thread
		// which is merely starved on a loaded machine (seen: 20 s at load 90 on 16 cores) does not trip it
		Watchdog:  5 * time.Minute,
		randState: 0x9E3779B97F4A7C15,
	}
}

// Begin makes s the active execution.
func (s *Sched) Begin() {
	if S != nil {
		panic("vrt: execution already active")
	}
	S = s
}

// End aborts all leftover threads and deactivates.
func (s *Sched) End() {
	s.aborting = true
	for _, t := range s.threads {
		if !t.finished {
			s.kill(t)
		}
	}
	S = nil
}

// kill unwinds a parked thread (its deferred calls run with no-op shims).
func (s *Sched) kill(t *Thread) {
	if t.finished {
		return
	}
	t.killed = true
	if !t.started {
		t.finished = true
		t.started = true
		// never ran: just let the goroutine exit
		t.resume <- struct{}{}
		s.waitYield(1)
		return
	}
	prev := s.cur
	s.cur = t
	t.resume <- struct{}{}
	s.waitYield(1)
	s.cur = prev
}

// KillPrefix unwinds every thread whose name starts with prefix (node crash), except the caller.
func (s *Sched) KillPrefix(prefix string) {
	for _, t := range s.threads {
		if !t.finished && t != s.cur && strings.HasPrefix(t.Name, prefix) {
			s.kill(t)
		}
	}
}

func (s *Sched) Threads() []*Thread { return s.threads }

// Spawn registers a new thread; it starts parked.
func (s *Sched) Spawn(name string, main bool, fn func()) *Thread {
	t := &Thread{ID: s.nextID, Name: name, Main: main, resume: make(chan struct{})}
	s.nextID++
	t.op = pendingOp{kind: OpStart, where: name}
	s.threads = append(s.threads, t)
	go func() {
		<-t.resume
		t.started = true
		defer func() {
			if r := recover(); r != nil {
				if _, ok := r.(killSentinel); !ok {
					t.Panic = r
					t.Stack = string(debug.Stack())
				}
			}
			t.finished = true
			s.yield <- t
		}()
		if t.killed {
			return
		}
		fn()
	}()
	return t
}

type killSentinel struct{}

// FatalSentinel is the panic value used for log.Fatal inside owned code.
type FatalSentinel struct{ Msg string }

func (s *Sched) waitYield(n int) {
	for i := 0; i < n; i++ {
		select {
		case <-s.yield:
		case <-time.After(s.Watchdog):
			buf := make([]byte, 1<<20)
			buf = buf[:runtime.Stack(buf, true)]
			fmt.Fprintf(os.Stderr, "TOOL-ERROR: vrt watchdog: a thread did not reach a scheduling point within %v (blocked in native code?)\n%s\n", s.Watchdog, buf)
			os.Exit(2)
		}
	}
}

// park publishes op for the current thread and waits to be resumed. Returns the op as
// filled in by the driver.
func (s *Sched) park(op pendingOp) *pendingOp {
	t := s.cur
	if t == nil {
		panic("vrt: shim operation outside any owned thread while an execution is active (unowned nondeterminism) at " + op.where)
	}
	t.op = op
	s.yield <- t
	<-t.resume
	if t.killed {
		panic(killSentinel{})
	}
	return &t.op
}

// parkThread is park for a known thread (After of a rendezvous, where two threads run).
func (s *Sched) parkThread(t *Thread, op pendingOp) {
	t.op = op
	s.yield <- t
	<-t.resume
	if t.killed {
		panic(killSentinel{})
	}
}

func (s *Sched) isClosed(ch reflect.Value) bool {
	p := ch.Pointer()
	if !s.closed[p] {
		return false
	}
	// The closed set is keyed by address; a collected channel's address can be reused by a new
	// one (NewChan clears the entry; this is the safety net): an empty, receivable channel that
	// would block on a non-consuming TryRecv is open.
	if ch.Type().ChanDir()&reflect.RecvDir != 0 && ch.Len() == 0 {
		if x, _ := ch.TryRecv(); !x.IsValid() {
			delete(s.closed, p)
			return false
		}
	}
	return true
}

// caseReady reports whether a buffered/closed-channel case can complete alone.
func (s *Sched) caseReady(c SelCase) bool {
	if !c.Ch.IsValid() || c.Ch.IsNil() {
		return false
	}
	if c.Dir == DirRecv {
		if c.Ch.Len() > 0 || s.isClosed(c.Ch) {
			return true
		}
		return false
	}
	if s.isClosed(c.Ch) {
		return true // send on closed channel panics: it is "ready" and the native op panics
	}
	return c.Ch.Len() < c.Ch.Cap()
}

func (s *Sched) enabledOf(t *Thread) []Alt {
	op := &t.op
	switch op.kind {
	case OpStart, OpYield, OpAtomic:
		return []Alt{{T: t}}
	case OpChoose:
		out := make([]Alt, op.n)
		for i := range out {
			out[i] = Alt{T: t, Case: i}
		}
		return out
	case OpLock:
		if !op.mu.locked {
			return []Alt{{T: t}}
		}
	case OpRLock:
		if !op.rw.writer && op.rw.writersWaiting == 0 {
			return []Alt{{T: t}}
		}
	case OpWLock:
		if !op.rw.writer && op.rw.readers == 0 {
			return []Alt{{T: t}}
		}
	case OpWait:
		if op.wg.n == 0 {
			return []Alt{{T: t}}
		}
	case OpChan:
		var out []Alt
		for i, c := range op.cases {
			if s.caseReady(c) {
				out = append(out, Alt{T: t, Case: i})
				continue
			}
			if !c.Ch.IsValid() || c.Ch.IsNil() || c.Ch.Cap() != 0 && !(c.Dir == DirRecv) {
				continue
			}
			// rendezvous: a parked partner with the opposite direction on the same channel.
			// (for buffered channels a receiver can also pair with... no: buffered send
			// needs space, buffered recv needs an item; handled by caseReady.)
			if c.Ch.Cap() != 0 {
				continue
			}
			for _, u := range s.threads {
				if u == t || u.finished || u.op.kind != OpChan {
					continue
				}
				for j, d := range u.op.cases {
					if d.Dir != c.Dir && d.Ch.IsValid() && !d.Ch.IsNil() && d.Ch.Pointer() == c.Ch.Pointer() {
						out = append(out, Alt{T: t, Case: i, Partner: u, PCase: j})
					}
				}
			}
		}
		if len(out) == 0 && op.hasDefault {
			return []Alt{{T: t, Case: -1}}
		}
		return out
	}
	return nil
}

// Alternatives returns the enabled alternatives in canonical order.
func (s *Sched) Alternatives() ([]Alt, []int) {
	var alts []Alt
	var costs []int
	lastEnabled := false
	order := make([]*Thread, 0, len(s.threads))
	if s.last != nil && !s.last.finished {
		order = append(order, s.last)
	}
	for _, t := range s.threads {
		if t != s.last && !t.finished {
			order = append(order, t)
		}
	}
	seenPair := map[[2]int]bool{}
	var waitingLast []*Thread
	for _, t := range order {
		if t.op.kind == OpLast {
			waitingLast = append(waitingLast, t)
			continue
		}
		as := s.enabledOf(t)
		first := true
		for _, a := range as {
			if a.Partner != nil {
				// a rendezvous is one transition: list it once, under the lower thread in order
				k := [2]int{a.T.ID, a.Partner.ID}
				if a.T.ID > a.Partner.ID {
					k = [2]int{a.Partner.ID, a.T.ID}
				}
				kk := [2]int{k[0]*100000 + k[1], a.Case*1000 + a.PCase}
				if a.T.ID > a.Partner.ID {
					kk[1] = a.PCase*1000 + a.Case
				}
				if seenPair[kk] {
					continue
				}
				seenPair[kk] = true
			}
			c := 0
			if t == s.last {
				lastEnabled = true
			} else if lastEnabled {
				c = 1 // preemption
			}
			if !first {
				// another ready case of the same select / another answer of the same choice
				if t.op.kind == OpChoose && !s.ChooseFree || t.op.kind == OpChan && !s.SelectCaseFree {
					c++
				}
			}
			alts = append(alts, a)
			costs = append(costs, c)
			first = false
		}
	}
	if len(alts) == 0 {
		for _, t := range waitingLast {
			alts = append(alts, Alt{T: t})
			costs = append(costs, 0)
		}
	}
	if s.DelayBounding {
		for i := range costs {
			if i > 0 {
				costs[i] = 1
			}
		}
	}
	if s.OfferTimers {
		for _, tm := range s.timers {
			if tm.armed && s.timerWaited(tm) {
				alts = append(alts, Alt{Timer: tm})
				costs = append(costs, 1)
			}
		}
	}
	return alts, costs
}

// timerWaited: some parked thread has a receive case on the timer's channel.
func (s *Sched) timerWaited(tm *Timer) bool {
	p := tm.chanPtr()
	for _, u := range s.threads {
		if u.finished || u.op.kind != OpChan {
			continue
		}
		for _, d := range u.op.cases {
			if d.Dir == DirRecv && d.Ch.IsValid() && !d.Ch.IsNil() && d.Ch.Pointer() == p {
				return true
			}
		}
	}
	return false
}

// Perform executes one alternative and waits until the system is parked again.
func (s *Sched) Perform(a Alt) {
	s.Points++
	if s.KeepTrace {
		s.Trace = append(s.Trace, a.String())
	}
	if a.Timer != nil {
		a.Timer.fire(s)
		return
	}
	t := a.T
	op := &t.op
	switch op.kind {
	case OpLock:
		op.mu.locked = true
		op.mu.holder = t
	case OpRLock:
		op.rw.readers++
	case OpWLock:
		op.rw.writer = true
		op.rw.writersWaiting--
		op.rw.holder = t
	case OpChan, OpChoose:
		op.chosen = a.Case
	}
	op.paired = false
	s.last = t
	s.cur = t
	if a.Partner != nil {
		u := a.Partner
		op.paired = true
		u.op.paired = true
		u.op.chosen = a.PCase
		// receiver first so that it is already blocked in the runtime when the sender arrives
		recv, send := t, u
		if op.cases[a.Case].Dir == DirSend {
			recv, send = u, t
		}
		recv.resume <- struct{}{}
		send.resume <- struct{}{}
		s.waitYield(2)
		s.cur = nil
		return
	}
	t.resume <- struct{}{}
	s.waitYield(1)
	s.cur = nil
	if s.pendingKill != "" {
		p := s.pendingKill
		s.pendingKill = ""
		s.KillPrefix(p)
	}
}

type EndReason int

const (
	Quiescent EndReason = iota // no enabled alternative
	HorizonHit
	Stopped // strategy asked to stop
)

// Run drives the execution until no alternative is enabled, the horizon is hit, or stop()
// returns true (checked between points).
func (s *Sched) Run(strat Strategy, stop func() bool) EndReason {
	for {
		if stop != nil && stop() {
			return Stopped
		}
		for _, t := range s.threads {
			if t.Panic != nil {
				if f, ok := t.Panic.(FatalSentinel); ok {
					if s.Fatal == "" {
						s.Fatal = f.Msg
					}
					t.Panic = nil
					continue
				}
				return Stopped
			}
		}
		alts, costs := s.Alternatives()
		if len(alts) == 0 {
			return Quiescent
		}
		if s.Points >= s.Horizon {
			s.HitHorizon = true
			return HorizonHit
		}
		i := 0
		if len(alts) > 1 {
			i = strat.Pick(s, alts, costs)
			if i < 0 {
				return Stopped
			}
		}
		s.Perform(alts[i])
	}
}

// Panicked returns the first thread that panicked (not killed, not fatal).
func (s *Sched) Panicked() *Thread {
	for _, t := range s.threads {
		if t.Panic != nil {
			return t
		}
	}
	return nil
}

// Blocked describes every unfinished thread: name, pending op, site.
func (s *Sched) Blocked() []string {
	var out []string
	for _, t := range s.threads {
		if t.finished {
			continue
		}
		d := fmt.Sprintf("%s blocked at %s on %s", t.Name, t.op.where, t.op.kind)
		switch t.op.kind {
		case OpLock:
			if t.op.mu.holder != nil {
				d += " held by " + t.op.mu.holder.Name
			}
		case OpRLock:
			d += fmt.Sprintf(" (writer=%v writersWaiting=%d holder=%s)", t.op.rw.writer, t.op.rw.writersWaiting, tname(t.op.rw.holder))
		case OpWLock:
			d += fmt.Sprintf(" (readers=%d writer=%v holder=%s)", t.op.rw.readers, t.op.rw.writer, tname(t.op.rw.holder))
		case OpChan:
			for _, c := range t.op.cases {
				dir := "recv"
				if c.Dir == DirSend {
					dir = "send"
				}
				if c.Ch.IsValid() && !c.Ch.IsNil() {
					d += fmt.Sprintf(" %s(chan#%d cap%d len%d)", dir, s.seqOf(c.Ch.Pointer()), c.Ch.Cap(), c.Ch.Len())
				} else {
					d += " " + dir + "(nil)"
				}
			}
		}
		out = append(out, d)
	}
	return out
}

func tname(t *Thread) string {
	if t == nil {
		return "-"
	}
	return t.Name
}

func (s *Sched) seqOf(p uintptr) int {
	if v, ok := s.seq[p]; ok {
		return v
	}
	s.seq[p] = len(s.seq)
	return s.seq[p]
}

// MainUnfinished lists main threads that have not finished.
func (s *Sched) MainUnfinished() []*Thread {
	var out []*Thread
	for _, t := range s.threads {
		if t.Main && !t.finished {
			out = append(out, t)
		}
	}
	return out
}

func (t *Thread) Finished() bool { return t.finished }
func (t *Thread) Where() string  { return t.op.where }
func (t *Thread) Kind() OpKind   { return t.op.kind }

// ---- operations called by instrumented code -------------------------------------------

// site returns a cheap token for the caller's position; resolved lazily by siteString.
func site(skip int) string {
	var pcs [1]uintptr
	if runtime.Callers(skip+1, pcs[:]) == 0 {
		return "?"
	}
	pc := pcs[0]
	siteMu.Lock()
	s, ok := siteCache[pc]
	if !ok {
		fr, _ := runtime.CallersFrames(pcs[:]).Next()
		f := fr.File
		if i := strings.LastIndex(f, "/"); i >= 0 {
			if j := strings.LastIndex(f[:i], "/"); j >= 0 {
				f = f[j+1:]
			}
		}
		s = fmt.Sprintf("%s:%d", f, fr.Line-instrumented[fr.File])
		siteCache[pc] = s
		fn := fr.Function
		if i := strings.LastIndex(fn, "/"); i >= 0 {
			fn = fn[i+1:]
		}
		siteFunc[s] = fn
	}
	siteMu.Unlock()
	return s
}

var siteCache = map[uintptr]string{}
var siteFunc = map[string]string{}

// SiteFunc returns the function containing a site reported by the scheduler ("" if unknown).
func SiteFunc(site string) string {
	siteMu.Lock()
	defer siteMu.Unlock()
	return siteFunc[site]
}

// instrumented maps a source path to the number of header lines the instrumenter added.
var instrumented = map[string]int{}

// Instrumented is called from an init function appended to every instrumented file.
func Instrumented(headerLines int) {
	if _, f, _, ok := runtime.Caller(1); ok {
		instrumented[f] = headerLines
	}
}

// LineOffset is the number of lines the instrumenter added at the top of file.
func LineOffset(file string) int { return instrumented[file] }

var siteMu gosync.Mutex

func active() *Sched {
	s := S
	if s == nil {
		return nil
	}
	if s.cur != nil && s.cur.killed {
		return nil // unwinding: plain no-op semantics handled by callers via Unwinding()
	}
	return s
}

// Unwinding reports that the calling thread is being killed: shim ops must be no-ops.
func Unwinding() bool {
	s := S
	return s != nil && (s.aborting || s.cur != nil && s.cur.killed)
}

// Go spawns an owned thread.
func Go(where string, fn func()) {
	if Unwinding() {
		return
	}
	s := S
	if s == nil {
		go fn()
		return
	}
	name := where
	if s.cur != nil {
		name = nodePrefix(s.cur.Name) + where
	}
	n := 0
	for _, t := range s.threads {
		if strings.HasPrefix(t.Name, name) {
			n++
		}
	}
	s.Spawn(fmt.Sprintf("%s#%d", name, n), false, fn)
	// spawning is a visible operation: the new thread may run before the spawner's next step
	if s.cur != nil && !s.cur.killed && s.SpawnPoints {
		s.park(pendingOp{kind: OpYield, where: where})
	}
}

// nodePrefix: thread names are "<node>/<rest>"; children inherit "<node>/".
func nodePrefix(name string) string {
	if i := strings.Index(name, "/"); i >= 0 {
		return name[:i+1]
	}
	return ""
}

// Token is handed from Before* to After.
type Token struct {
	t      *Thread
	paired bool
	Idx    int
}

func chanOp(where string, cases []SelCase, hasDefault bool) (Token, int) {
	if Unwinding() {
		panic(killSentinel{})
	}
	s := S
	if s == nil {
		return Token{}, -2 // inactive: caller performs the native op
	}
	t := s.cur
	op := s.park(pendingOp{kind: OpChan, where: where, cases: cases, hasDefault: hasDefault})
	return Token{t: t, paired: op.paired, Idx: op.chosen}, op.chosen
}

func RecvOf(ch interface{}) SelCase { return SelCase{DirRecv, reflect.ValueOf(ch)} }
func SendOf(ch interface{}) SelCase { return SelCase{DirSend, reflect.ValueOf(ch)} }

// Select parks until one case is ready and returns its index (-1 = default).
// Inactive (sequential) mode: the first ready case, else default, else a panic.
func Select(where string, hasDefault bool, cases ...SelCase) Sel {
	if S == nil {
		for i, c := range cases {
			if !c.Ch.IsValid() || c.Ch.IsNil() {
				continue
			}
			if c.Dir == DirRecv && c.Ch.Len() > 0 || c.Dir == DirSend && c.Ch.Len() < c.Ch.Cap() {
				return Sel{Idx: i}
			}
		}
		if hasDefault {
			return Sel{Idx: -1}
		}
		panic("vrt: select would block in inactive (sequential) mode at " + where)
	}
	site(2) // registers the enclosing function for `where`-style sites (see SiteFunc)
	if rs := site(2); rs != where {
		siteMu.Lock()
		if _, ok := siteFunc[where]; !ok {
			siteFunc[where] = siteFunc[rs]
		}
		siteMu.Unlock()
	}
	tok, i := chanOp(where, cases, hasDefault)
	return Sel{Idx: i, tok: tok}
}

// After re-parks a thread that took part in a rendezvous so that one thread runs at a time.
func After(tok Token) {
	if !tok.paired || tok.t == nil {
		return
	}
	s := S
	if s == nil {
		return
	}
	s.parkThread(tok.t, pendingOp{kind: OpYield, where: "after-rendezvous"})
}

// Close closes a channel and records it.
func Close(ch interface{}) {
	if Unwinding() {
		return
	}
	v := reflect.ValueOf(ch)
	if s := S; s != nil {
		s.closed[v.Pointer()] = true
	}
	v.Close()
}

// Yield is an explicit always-enabled scheduling point.
func Yield() {
	if s := active(); s != nil && s.cur != nil {
		s.park(pendingOp{kind: OpYield, where: site(2)})
	}
}

// Choose is an environment/data choice with n alternatives (0 = default).
func Choose(n int, kind string) int {
	if n <= 1 {
		return 0
	}
	s := active()
	if s == nil || s.cur == nil {
		return 0
	}
	op := s.park(pendingOp{kind: OpChoose, where: kind, n: n, chooseKind: kind})
	return op.chosen
}

// Durable wraps a durable-write call: crash point before, the call, crash point after.
func Durable(where string, fn func() error) error {
	s := active()
	if s == nil || s.cur == nil || s.OnDurable == nil {
		return fn()
	}
	s.DurableCount++
	if s.OnDurable(s.cur, where, false) {
		s.graceBeforeCrash()
		s.crashCurrent()
	}
	if s.FailDurable != nil {
		if err := s.FailDurable(s.cur, where); err != nil {
			// the store refuses the write (disk full, batch too large, I/O error): nothing is written
			return err
		}
	}
	err := fn()
	if s.OnDurable(s.cur, where, true) {
		s.graceBeforeCrash()
		s.crashCurrent()
	}
	return err
}

// graceBeforeCrash (CrashGrace): the crash strikes when the writing thread is at its crash point AND every other thread
// has run as far as it can - the schedule in which the writer was the slow one. What the other threads of the node did
// meanwhile (hand an acknowledgement to a waiting caller, answer a request) has happened before the crash.
func (s *Sched) graceBeforeCrash() {
	if s.CrashGrace {
		s.park(pendingOp{kind: OpLast, where: "crash-point"})
	}
}

// crashCurrent crashes the current thread's node: the caller unwinds now; the driver kills the
// node's other threads as soon as the caller has yielded (killing from inside a thread would
// fight with the driver over the yield channel).
func (s *Sched) crashCurrent() {
	t := s.cur
	prefix := nodePrefix(t.Name)
	if s.CrashPrefix != nil {
		prefix = s.CrashPrefix(t)
	}
	if s.Monitor != nil {
		s.Monitor("crash", prefix)
	}
	s.pendingKill = prefix
	t.killed = true
	panic(killSentinel{})
}

// CurrentName is the running thread's name ("" outside threads).
func CurrentName() string {
	if s := S; s != nil && s.cur != nil {
		return s.cur.Name
	}
	return ""
}

// Tunable returns an overridable constant.
func Tunable(name string, def uint64) uint64 {
	if v, ok := Tunables[name]; ok {
		return v
	}
	// instrumented packages read their tunables while initialising, before any harness code
	// runs: the environment is the only channel that early
	if e := os.Getenv("VERIF_TUNABLE_" + name); e != "" {
		var v uint64
		if _, err := fmt.Sscan(e, &v); err == nil {
			return v
		}
	}
	return def
}

// Tunables are process-wide overrides read when an instrumented package initialises, and on
// every call of TunableNow.
var Tunables = map[string]uint64{}

// Exit is the replacement for os.Exit / logrus ExitFunc inside owned code.
func Exit(code int) {
	if S != nil && S.cur != nil {
		panic(FatalSentinel{Msg: fmt.Sprintf("exit(%d) in %s", code, S.cur.Name)})
	}
	panic(FatalSentinel{Msg: fmt.Sprintf("exit(%d)", code)})
}

// ---- map order -------------------------------------------------------------------------

// MapKeys returns the keys of map m in the order fixed by the active policy.
func MapKeys(m interface{}) []reflect.Value {
	v := reflect.ValueOf(m)
	keys := v.MapKeys()
	if len(keys) < 2 {
		return keys
	}
	type kk struct {
		k reflect.Value
		s string
	}
	ks := make([]kk, len(keys))
	for i, k := range keys {
		ks[i] = kk{k, canonKey(k)}
	}
	sort.SliceStable(ks, func(i, j int) bool {
		if ks[i].s != ks[j].s {
			return ks[i].s < ks[j].s
		}
		if ks[i].k.Kind() == reflect.Ptr { // same content: first-seen order
			return ptrSeq(ks[i].k.Pointer()) < ptrSeq(ks[j].k.Pointer())
		}
		return false
	})
	policy := 0
	if S != nil {
		policy = S.MapPolicy
	} else {
		policy = InactiveMapPolicy
	}
	out := make([]reflect.Value, len(ks))
	switch {
	case policy == 0:
		for i := range ks {
			out[i] = ks[i].k
		}
	case policy == 1:
		for i := range ks {
			out[len(ks)-1-i] = ks[i].k
		}
	default:
		r := (policy - 1) % len(ks)
		for i := range ks {
			out[i] = ks[(i+r)%len(ks)].k
		}
	}
	return out
}

// InactiveMapPolicy is the map-order policy used when no execution is active.
var InactiveMapPolicy = 0

// canonKey orders keys by content; pointers by the pointee's "id" field when it has one.
func canonKey(k reflect.Value) string {
	switch k.Kind() {
	case reflect.String:
		return k.String()
	case reflect.Uint, reflect.Uint8, reflect.Uint16, reflect.Uint32, reflect.Uint64:
		return fmt.Sprintf("%020d", k.Uint())
	case reflect.Int, reflect.Int8, reflect.Int16, reflect.Int32, reflect.Int64:
		return fmt.Sprintf("%020d", uint64(k.Int())+1<<63)
	case reflect.Array:
		b := make([]byte, 0, k.Len()*2)
		for i := 0; i < k.Len(); i++ {
			b = append(b, fmt.Sprintf("%02x", k.Index(i).Uint())...)
		}
		return string(b)
	case reflect.Ptr:
		if k.IsNil() {
			return ""
		}
		e := k.Elem()
		if e.Kind() == reflect.Struct {
			if f := e.FieldByName("id"); f.IsValid() {
				return canonKey(f)
			}
		}
		return ""
	}
	return fmt.Sprint(k)
}

var inactiveSeq = map[uintptr]int{}

var inactiveSeqMu gosync.Mutex

func ptrSeq(p uintptr) int {
	m := inactiveSeq
	if S != nil {
		m = S.seq
	} else {
		inactiveSeqMu.Lock()
		defer inactiveSeqMu.Unlock()
	}
	if v, ok := m[p]; ok {
		return v
	}
	m[p] = len(m)
	return m[p]
}
