// Package atomic is the drop-in replacement for "sync/atomic" in instrumented files.
// With one thread running at a time the operations are plain; each is an optional
// scheduling point (Sched.AtomicPoints).
package atomic

import (
	std "sync/atomic"
	"unsafe"

	"anndbverif/vrt"
)

type Value = std.Value

func AddInt32(addr *int32, delta int32) int32 { vrt.AtomicPoint(); return std.AddInt32(addr, delta) }
func AddInt64(addr *int64, delta int64) int64 { vrt.AtomicPoint(); return std.AddInt64(addr, delta) }
func AddUint32(addr *uint32, delta uint32) uint32 {
	vrt.AtomicPoint()
	return std.AddUint32(addr, delta)
}
func AddUint64(addr *uint64, delta uint64) uint64 {
	vrt.AtomicPoint()
	return std.AddUint64(addr, delta)
}
func LoadInt32(addr *int32) int32              { vrt.AtomicPoint(); return std.LoadInt32(addr) }
func LoadInt64(addr *int64) int64              { vrt.AtomicPoint(); return std.LoadInt64(addr) }
func LoadUint32(addr *uint32) uint32           { vrt.AtomicPoint(); return std.LoadUint32(addr) }
func LoadUint64(addr *uint64) uint64           { vrt.AtomicPoint(); return std.LoadUint64(addr) }
func StoreInt32(addr *int32, v int32)          { vrt.AtomicPoint(); std.StoreInt32(addr, v) }
func StoreInt64(addr *int64, v int64)          { vrt.AtomicPoint(); std.StoreInt64(addr, v) }
func StoreUint32(addr *uint32, v uint32)       { vrt.AtomicPoint(); std.StoreUint32(addr, v) }
func StoreUint64(addr *uint64, v uint64)       { vrt.AtomicPoint(); std.StoreUint64(addr, v) }
func SwapInt32(addr *int32, v int32) int32     { vrt.AtomicPoint(); return std.SwapInt32(addr, v) }
func SwapInt64(addr *int64, v int64) int64     { vrt.AtomicPoint(); return std.SwapInt64(addr, v) }
func SwapUint32(addr *uint32, v uint32) uint32 { vrt.AtomicPoint(); return std.SwapUint32(addr, v) }
func SwapUint64(addr *uint64, v uint64) uint64 { vrt.AtomicPoint(); return std.SwapUint64(addr, v) }
func CompareAndSwapInt32(addr *int32, o, n int32) bool {
	vrt.AtomicPoint()
	return std.CompareAndSwapInt32(addr, o, n)
}
func CompareAndSwapInt64(addr *int64, o, n int64) bool {
	vrt.AtomicPoint()
	return std.CompareAndSwapInt64(addr, o, n)
}
func CompareAndSwapUint32(addr *uint32, o, n uint32) bool {
	vrt.AtomicPoint()
	return std.CompareAndSwapUint32(addr, o, n)
}
func CompareAndSwapUint64(addr *uint64, o, n uint64) bool {
	vrt.AtomicPoint()
	return std.CompareAndSwapUint64(addr, o, n)
}
func LoadPointer(addr *unsafe.Pointer) unsafe.Pointer {
	vrt.AtomicPoint()
	return std.LoadPointer(addr)
}
func StorePointer(addr *unsafe.Pointer, v unsafe.Pointer) {
	vrt.AtomicPoint()
	std.StorePointer(addr, v)
}
func SwapPointer(addr *unsafe.Pointer, v unsafe.Pointer) unsafe.Pointer {
	vrt.AtomicPoint()
	return std.SwapPointer(addr, v)
}
func CompareAndSwapPointer(addr *unsafe.Pointer, o, n unsafe.Pointer) bool {
	vrt.AtomicPoint()
	return std.CompareAndSwapPointer(addr, o, n)
}
