// Package crand replaces "crypto/rand" inside satori/go.uuid: a deterministic counter
// stream, reset per execution (ids are only map keys and log fields).
package crand

import (
	"io"

	"anndbverif/vrt"
)

type reader struct{}

func (reader) Read(p []byte) (int, error) { vrt.FillEntropy(p); return len(p), nil }

var Reader io.Reader = reader{}

func Read(p []byte) (int, error) { return Reader.Read(p) }
