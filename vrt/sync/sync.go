// Package sync is the drop-in replacement for "sync" in instrumented files.
package sync

import (
	stdsync "sync"

	"anndbverif/vrt"
)

type Mutex = vrt.Mutex
type RWMutex = vrt.RWMutex
type WaitGroup = vrt.WaitGroup
type Once = vrt.Once
type Map = stdsync.Map
type Pool = stdsync.Pool
type Locker = stdsync.Locker
