package vrt

var inactiveRand uint64 = 0x9E3779B97F4A7C15
var inactiveUUID uint64

// SeedInactive reseeds the stream used outside executions.
func SeedInactive(seed uint64) {
	inactiveRand = seed*0x9E3779B97F4A7C15 + 1
	inactiveUUID = 0
}

func next(p *uint64) uint64 {
	*p += 0x9E3779B97F4A7C15
	z := *p
	z = (z ^ (z >> 30)) * 0xBF58476D1CE4E5B9
	z = (z ^ (z >> 27)) * 0x94D049BB133111EB
	return z ^ (z >> 31)
}

func RandUint64() uint64 {
	if s := S; s != nil {
		return next(&s.randState)
	}
	return next(&inactiveRand)
}

// RandIntn answers math/rand.Intn: a Choose point when the execution asks for it.
func RandIntn(n int) int {
	if s := S; s != nil && s.RandChoose && s.cur != nil && !s.cur.killed {
		return Choose(n, "rand.Intn")
	}
	return int(RandUint64() % uint64(n))
}

// FillEntropy is the deterministic crypto/rand stream.
func FillEntropy(p []byte) {
	c := &inactiveUUID
	if s := S; s != nil {
		c = &s.uuidCounter
	}
	*c++
	v := *c
	for i := range p {
		p[i] = byte(v >> (8 * (uint(i) % 8)))
		if i%8 == 7 {
			v = v*0x9E3779B97F4A7C15 + 1
		}
	}
}

// SetInactiveUUIDCounter positions the deterministic crypto/rand stream used outside
// executions, so that a harness can make uuid.NewV4 produce a chosen id again.
func SetInactiveUUIDCounter(n uint64) {
	inactiveUUID = n
	if s := S; s != nil {
		s.uuidCounter = n
	}
}

// UUIDCounter returns the current position of the deterministic uuid stream.
func UUIDCounter() uint64 {
	if s := S; s != nil {
		return s.uuidCounter
	}
	return inactiveUUID
}
