package vrt

import (
	"context"
	"fmt"
	"reflect"
	"time"
)

// Timer is a virtual timer: it fires only when the explorer or the harness says so.
type Timer struct {
	Kind    string // "ticker", "timer", "deadline"
	D       time.Duration
	Site    string
	Creator string
	C       chan time.Time
	ctx     *Ctx
	armed   bool
	Fired   int
}

func (t *Timer) String() string {
	return fmt.Sprintf("%s(%v)@%s by %s", t.Kind, t.D, t.Site, t.Creator)
}
func (t *Timer) Armed() bool { return t.armed }

func (t *Timer) chanPtr() uintptr {
	if t.Kind == "deadline" {
		return reflect.ValueOf(t.ctx.done).Pointer()
	}
	return reflect.ValueOf(t.C).Pointer()
}

func (t *Timer) fire(s *Sched) {
	t.Fired++
	switch t.Kind {
	case "ticker":
		select {
		case t.C <- time.Time{}:
		default:
		}
	case "timer":
		t.armed = false
		select {
		case t.C <- time.Time{}:
		default:
		}
	case "deadline":
		t.armed = false
		t.ctx.cancel(context.DeadlineExceeded)
	}
}

// Fire lets a harness fire a timer between transitions.
func (s *Sched) Fire(t *Timer) {
	if t.armed {
		t.fire(s)
	}
}

func (s *Sched) Timers() []*Timer { return s.timers }

// NewTimer registers a virtual timer.
func NewTimer(kind string, d time.Duration, where string) *Timer {
	t := &Timer{Kind: kind, D: d, Site: where, armed: true, Creator: CurrentName()}
	if kind != "deadline" {
		t.C = make(chan time.Time, 1)
	}
	if s := S; s != nil {
		s.timers = append(s.timers, t)
		if t.C != nil {
			delete(s.closed, reflect.ValueOf(t.C).Pointer())
		}
	}
	return t
}

func (t *Timer) Stop() bool {
	was := t.armed
	t.armed = false
	return was
}

func (t *Timer) Reset() { t.armed = true }

// Ctx is the owned implementation of context.Context used for every cancellable context.
type Ctx struct {
	parent   context.Context
	done     chan struct{}
	err      error
	children []*Ctx
	timer    *Timer
}

var ctxByDone = map[uintptr]*Ctx{}

func (c *Ctx) Deadline() (time.Time, bool)       { return time.Time{}, false }
func (c *Ctx) Done() <-chan struct{}             { return c.done }
func (c *Ctx) Err() error                        { return c.err }
func (c *Ctx) Value(key interface{}) interface{} { return c.parent.Value(key) }

func (c *Ctx) cancel(err error) {
	if c.err != nil {
		return
	}
	c.err = err
	if c.timer != nil {
		c.timer.armed = false
	}
	v := reflect.ValueOf(c.done)
	if s := S; s != nil {
		s.closed[v.Pointer()] = true
	}
	close(c.done)
	for _, ch := range c.children {
		ch.cancel(err)
	}
}

func ownerOf(parent context.Context) *Ctx {
	if p, ok := parent.(*Ctx); ok {
		return p
	}
	d := parent.Done()
	if d == nil {
		return nil
	}
	if p, ok := ctxByDone[reflect.ValueOf(d).Pointer()]; ok {
		return p
	}
	panic("vrt: context derived from a cancellable context that the scheduler does not own")
}

func newCtx(parent context.Context) *Ctx {
	c := &Ctx{parent: parent, done: make(chan struct{})}
	if S != nil {
		delete(S.closed, reflect.ValueOf(c.done).Pointer())
		// registry only needed to find owners through WithValue wrappers; per-execution
		ctxByDone[reflect.ValueOf(c.done).Pointer()] = c
	}
	if p := ownerOf(parent); p != nil {
		if p.err != nil {
			c.cancel(p.err)
		} else {
			p.children = append(p.children, c)
		}
	}
	return c
}

// ResetContexts drops the per-execution context registry.
func ResetContexts() { ctxByDone = map[uintptr]*Ctx{} }

func WithCancel(parent context.Context) (context.Context, context.CancelFunc) {
	c := newCtx(parent)
	return c, func() {
		if Unwinding() {
			return
		}
		c.cancel(context.Canceled)
	}
}

func WithTimeout(parent context.Context, d time.Duration) (context.Context, context.CancelFunc) {
	c := newCtx(parent)
	if c.err == nil {
		c.timer = NewTimer("deadline", d, site(3))
		c.timer.ctx = c
	}
	return c, func() {
		if Unwinding() {
			return
		}
		c.cancel(context.Canceled)
	}
}
