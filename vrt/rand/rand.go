// Package rand is the drop-in replacement for "math/rand" in instrumented files.
// Answers come from the scheduler: either Choose points (every outcome enumerated) or a
// fixed per-execution stream.
package rand

import (
	"math"
	std "math/rand"

	"anndbverif/vrt"
)

type Rand = std.Rand
type Source = std.Source

func New(src Source) *Rand        { return std.New(src) }
func NewSource(seed int64) Source { return std.NewSource(seed) }
func Seed(seed int64)             {}

func Intn(n int) int {
	if n <= 0 {
		panic("invalid argument to Intn")
	}
	return vrt.RandIntn(n)
}
func Int63() int64         { return int64(vrt.RandUint64() >> 1) }
func Int31() int32         { return int32(vrt.RandUint64() >> 33) }
func Int() int             { return int(uint(vrt.RandUint64()) >> 1) }
func Uint32() uint32       { return uint32(vrt.RandUint64() >> 32) }
func Uint64() uint64       { return vrt.RandUint64() }
func Int63n(n int64) int64 { return int64(Intn(int(n))) }
func Int31n(n int32) int32 { return int32(Intn(int(n))) }
func Float64() float64     { return float64(vrt.RandUint64()>>11) / (1 << 53) }
func Float32() float32 {
	f := float32(Float64())
	if f == 1 {
		return 0
	}
	return f
}
func NormFloat64() float64 {
	// Box-Muller on the deterministic stream
	u1, u2 := Float64(), Float64()
	if u1 < 1e-300 {
		u1 = 1e-300
	}
	return math.Sqrt(-2*math.Log(u1)) * math.Cos(2*math.Pi*u2)
}
func ExpFloat64() float64 { return -math.Log(1 - Float64()) }
func Perm(n int) []int {
	m := make([]int, n)
	for i := 0; i < n; i++ {
		j := Intn(i + 1)
		m[i] = m[j]
		m[j] = i
	}
	return m
}
func Shuffle(n int, swap func(i, j int)) {
	for i := n - 1; i > 0; i-- {
		j := Intn(i + 1)
		swap(i, j)
	}
}
