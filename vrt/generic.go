package vrt

import (
	"reflect"
	"sort"
	"unsafe"
)

// Generic helpers called by instrumented files (which are compiled with a file-level
// go1.21 language version: generics yes, per-iteration loop variables no).

// BeforeSend parks until `ch <- v` cannot block (the send itself stays native in the caller).
func BeforeSend(ch interface{}) Token {
	return beforeChan(SelCase{DirSend, reflect.ValueOf(ch)})
}

// Recv is `<-ch`.
func Recv[T any](ch <-chan T) T {
	tok := beforeChan(SelCase{DirRecv, reflect.ValueOf(ch)})
	v := <-ch
	After(tok)
	return v
}

// Recv2 is `v, ok := <-ch`.
func Recv2[T any](ch <-chan T) (T, bool) {
	tok := beforeChan(SelCase{DirRecv, reflect.ValueOf(ch)})
	v, ok := <-ch
	After(tok)
	return v, ok
}

func beforeChan(c SelCase) Token {
	if S == nil {
		return Token{}
	}
	tok, _ := chanOp(site(3), []SelCase{c}, false)
	return tok
}

// NewChan registers a channel created by instrumented code (`make(chan T, n)`): whatever was
// known about a previous channel at the same address is forgotten.
func NewChan[C any](ch C) C {
	if s := S; s != nil {
		v := reflect.ValueOf(ch)
		if v.Kind() == reflect.Chan && !v.IsNil() {
			delete(s.closed, v.Pointer())
		}
	}
	return ch
}

// Sel is the result of Select.
type Sel struct {
	Idx int
	tok Token
}

func SelRecv[T any](s Sel, ch <-chan T) T {
	v := <-ch
	After(s.tok)
	return v
}

func SelRecv2[T any](s Sel, ch <-chan T) (T, bool) {
	v, ok := <-ch
	After(s.tok)
	return v, ok
}

// After re-parks after a rendezvous performed by a select case.
func (s Sel) After() { After(s.tok) }

// ZeroKV returns zero values of the map's key and value types (to declare per-loop variables).
func ZeroKV[M ~map[K]V, K comparable, V any](m M) (K, V) {
	var k K
	var v V
	return k, v
}

// Keys returns the keys of m in the order fixed by the active map-order policy.
func Keys[M ~map[K]V, K comparable, V any](m M) []K {
	n := len(m)
	if n == 0 {
		return nil
	}
	keys := make([]K, 0, n)
	for k := range m {
		keys = append(keys, k)
	}
	if n == 1 {
		return keys
	}
	less := lessFor[K](keys[0])
	sort.SliceStable(keys, func(i, j int) bool { return less(keys[i], keys[j]) })
	policy := InactiveMapPolicy
	if S != nil {
		policy = S.MapPolicy
	}
	switch {
	case policy == 0:
	case policy == 1:
		for i, j := 0, n-1; i < j; i, j = i+1, j-1 {
			keys[i], keys[j] = keys[j], keys[i]
		}
	default:
		r := (policy - 1) % n
		out := make([]K, n)
		for i := range keys {
			out[i] = keys[(i+r)%n]
		}
		keys = out
	}
	return keys
}

type idLayout struct {
	off  uintptr
	size uintptr
	ok   bool
}

var idLayouts = map[reflect.Type]idLayout{}

func lessFor[K comparable](sample K) func(a, b K) bool {
	var k K
	switch any(k).(type) {
	case string:
		return func(a, b K) bool { return any(a).(string) < any(b).(string) }
	case uint64:
		return func(a, b K) bool { return any(a).(uint64) < any(b).(uint64) }
	case int:
		return func(a, b K) bool { return any(a).(int) < any(b).(int) }
	}
	t := reflect.TypeOf(sample)
	switch t.Kind() {
	case reflect.Array:
		if t.Elem().Kind() == reflect.Uint8 {
			n := t.Len()
			return func(a, b K) bool {
				pa := unsafe.Slice((*byte)(unsafe.Pointer(&a)), n)
				pb := unsafe.Slice((*byte)(unsafe.Pointer(&b)), n)
				return string(pa) < string(pb)
			}
		}
	case reflect.Ptr:
		lay, ok := idLayouts[t]
		if !ok {
			if t.Elem().Kind() == reflect.Struct {
				if f, found := t.Elem().FieldByName("id"); found && f.Type.Kind() == reflect.Array && f.Type.Elem().Kind() == reflect.Uint8 {
					lay = idLayout{off: f.Offset, size: uintptr(f.Type.Len()), ok: true}
				}
			}
			idLayouts[t] = lay
		}
		if lay.ok {
			return func(a, b K) bool {
				pa := *(*unsafe.Pointer)(unsafe.Pointer(&a))
				pb := *(*unsafe.Pointer)(unsafe.Pointer(&b))
				if pa == nil || pb == nil {
					return pa == nil && pb != nil
				}
				sa := unsafe.Slice((*byte)(unsafe.Add(pa, lay.off)), lay.size)
				sb := unsafe.Slice((*byte)(unsafe.Add(pb, lay.off)), lay.size)
				if string(sa) != string(sb) {
					return string(sa) < string(sb)
				}
				return ptrSeq(uintptr(pa)) < ptrSeq(uintptr(pb))
			}
		}
		return func(a, b K) bool {
			pa := *(*unsafe.Pointer)(unsafe.Pointer(&a))
			pb := *(*unsafe.Pointer)(unsafe.Pointer(&b))
			return ptrSeq(uintptr(pa)) < ptrSeq(uintptr(pb))
		}
	}
	return func(a, b K) bool {
		return canonKey(reflect.ValueOf(a)) < canonKey(reflect.ValueOf(b))
	}
}
