// Package idxbfs is the shared state space of the index checks: operation alphabet, world and
// reference model for BFS over insert / remove / update / save-and-load histories on the real
// index.Hnsw (used by C01 and C08).
package idxbfs

import (
	"bytes"
	"fmt"

	"anndbverif/idxlib"

	"github.com/marekgalovic/anndb/index"
)

type Op struct {
	Kind  string `json:"op"` // ins rem upd saveload
	ID    int    `json:"id"`
	Vec   int    `json:"vec,omitempty"`
	Level int    `json:"level,omitempty"`
	Meta  int    `json:"meta,omitempty"` // 0 nil, 1 {k:v1}, 2 {k:v2}
	Used  bool   `json:"used,omitempty"` // saveload: load into an index that already holds other items
}

func (o Op) String() string {
	n := string(rune('a' + o.ID))
	switch o.Kind {
	case "ins":
		return fmt.Sprintf("I %s%v@%d m%d", n, idxlib.Grid[o.Vec], o.Level, o.Meta)
	case "rem":
		return "R " + n
	case "upd":
		return fmt.Sprintf("U %s%v m%d", n, idxlib.Grid[o.Vec], o.Meta)
	}
	if o.Used {
		return "saveload-into-used"
	}
	return "saveload"
}

type Config struct {
	Space      string `json:"space"`
	M, Ef, EfC int
	Heuristic  bool
	Extend     bool
	KeepPruned bool
	Policy     int `json:"map_policy"`
}

func (c Config) Options() []index.HnswOption {
	o := []index.HnswOption{index.HnswM(c.M), index.HnswEf(c.Ef), index.HnswEfConstruction(c.EfC)}
	if c.Heuristic {
		o = append(o, index.HnswSearchAlgorithm(index.HnswSearchHeuristic), index.HnswHeuristicExtendCandidates(c.Extend), index.HnswHeuristicKeepPruned(c.KeepPruned))
	}
	return o
}

type World struct {
	Cfg Config
	Ix  *index.Hnsw
	Ref idxlib.Ref
}

func meta(i int) index.Metadata {
	switch i {
	case 1:
		return index.Metadata{"k": "v1"}
	case 2:
		return index.Metadata{"k": "v2", "j": "w"}
	}
	return nil
}

// vectors each id may take: collisions between ids on purpose (ties)
var vecsOf = [][]int{{0, 4}, {1, 4}, {2, 3}, {3, 5}}

func (w *World) Apply(o Op) (key, desc string) {
	defer func() {
		if r := recover(); r != nil {
			key, desc = "panic", fmt.Sprintf("%v panicked: %v", o, r)
		}
	}()
	id := idxlib.IDs[o.ID]
	switch o.Kind {
	case "ins":
		m := meta(o.Meta)
		err := w.Ix.Insert(id, append([]float32{}, idxlib.Grid[o.Vec]...), m, o.Level)
		if _, exists := w.Ref[id]; exists {
			if err != index.ItemAlreadyExistsError {
				return "insert-existing-not-rejected", fmt.Sprintf("%v on a stored id returned %v", o, err)
			}
		} else {
			if err != nil {
				return "insert-error", fmt.Sprintf("%v returned %v", o, err)
			}
			w.Ref[id] = &idxlib.Item{Vec: idxlib.Grid[o.Vec], Meta: m, Level: o.Level}
		}
	case "rem":
		err := w.Ix.Remove(id)
		if _, exists := w.Ref[id]; exists {
			if err != nil {
				return "remove-error", fmt.Sprintf("%v returned %v", o, err)
			}
			delete(w.Ref, id)
		} else if err != index.ItemNotFoundError {
			return "remove-absent-not-rejected", fmt.Sprintf("%v on an absent id returned %v", o, err)
		}
	case "upd":
		// exactly what partition.updateValue does, through the public API
		vertex, err := w.Ix.GetVertex(id)
		if err != nil {
			if _, exists := w.Ref[id]; exists {
				return "update-lookup-error", fmt.Sprintf("%v: %v", o, err)
			}
			return "", ""
		}
		if err := w.Ix.Remove(id); err != nil {
			return "update-remove-error", fmt.Sprintf("%v: %v", o, err)
		}
		m := meta(o.Meta)
		if m == nil {
			m = index.Metadata{}
		}
		for k, v := range vertex.Metadata() {
			if _, exists := m[k]; !exists {
				m[k] = v
			}
		}
		if err := w.Ix.Insert(id, append([]float32{}, idxlib.Grid[o.Vec]...), m, vertex.Level()); err != nil {
			return "update-insert-error", fmt.Sprintf("%v: %v", o, err)
		}
		w.Ref[id] = &idxlib.Item{Vec: idxlib.Grid[o.Vec], Meta: m, Level: w.Ref[id].Level}
	case "saveload":
		var buf bytes.Buffer
		if err := w.Ix.Save(&buf, false); err != nil {
			return "save-error", fmt.Sprintf("Save: %v", err)
		}
		nx := index.NewHnsw(2, idxlib.Space(w.Cfg.Space), w.Cfg.Options()...)
		if o.Used {
			// a lagging replica: holds different items (other vectors, one extra id, one stale id)
			nx.Insert(idxlib.IDs[0], []float32{4, 1}, index.Metadata{"k": "old"}, 1)
			nx.Insert(idxlib.IDs[1], []float32{3, 3}, nil, 0)
			nx.Insert(idxlib.IDs[4], []float32{2, 2}, nil, 0)
			nx.Remove(idxlib.IDs[1])
		}
		if err := nx.Load(bytes.NewReader(buf.Bytes()), false); err != nil {
			if len(w.Ref) == 0 {
				return "load-empty-snapshot-fails", fmt.Sprintf("Load of the %d bytes Save wrote for an empty index: %v", buf.Len(), err)
			}
			return "load-error", fmt.Sprintf("Load of own Save output: %v", err)
		}
		w.Ix = nx
	}
	return w.Check(o)
}

var Ks = []uint{0, 1, 2, 5}

func (w *World) Check(after Op) (string, string) {
	if k, d := idxlib.CheckContents(w.Ix, w.Ref, idxlib.IDs[:5]); k != "" {
		return "contents-" + k, fmt.Sprintf("after %v: %s", after, d)
	}
	if k, d := idxlib.CheckSearch(w.Ix, w.Ref, idxlib.Space(w.Cfg.Space), idxlib.Queries, Ks); k != "" {
		return k + ":" + idxlib.Cause(w.Ix.VerifDump()), fmt.Sprintf("after %v: %s", after, d)
	}
	return "", ""
}

func Build(cfg Config, path []Op) (*World, string, string) {
	w := &World{Cfg: cfg, Ix: index.NewHnsw(2, idxlib.Space(cfg.Space), cfg.Options()...), Ref: idxlib.Ref{}}
	for _, o := range path {
		if k, d := w.Apply(o); k != "" {
			return w, k, d
		}
	}
	return w, "", ""
}

func Enabled(w *World) []Op {
	var out []Op
	for id := 0; id < 4; id++ {
		if _, live := w.Ref[idxlib.IDs[id]]; live {
			out = append(out, Op{Kind: "rem", ID: id})
			for _, v := range vecsOf[id] {
				out = append(out, Op{Kind: "upd", ID: id, Vec: v})
			}
			if id == 0 {
				out = append(out, Op{Kind: "upd", ID: id, Vec: vecsOf[id][0], Meta: 2})
			}
			// an insert under a stored id is refused and must leave no trace (one representative: another vector, level 1)
			out = append(out, Op{Kind: "ins", ID: id, Vec: vecsOf[id][1], Level: 1})
		} else {
			for _, v := range vecsOf[id] {
				for lvl := 0; lvl <= 1; lvl++ {
					out = append(out, Op{Kind: "ins", ID: id, Vec: v, Level: lvl})
				}
			}
			if id == 0 {
				out = append(out, Op{Kind: "ins", ID: id, Vec: vecsOf[id][0], Level: 2, Meta: 1})
			}
		}
	}
	// error paths (no state change): one representative each
	out = append(out, Op{Kind: "saveload"})
	out = append(out, Op{Kind: "saveload", Used: true})
	return out
}
