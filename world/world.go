// Package world builds small simulated clusters out of the real anndb objects, the way the
// production callers build them, with the wire replaced by vrt/fakes.
package world

import (
	"fmt"
	"io"
	"sync"

	"anndbverif/vrt"
	"anndbverif/vrt/fakes"

	"github.com/marekgalovic/anndb/cluster"
	pb "github.com/marekgalovic/anndb/protobuf"
	"github.com/marekgalovic/anndb/services"
	"github.com/marekgalovic/anndb/storage"
	"github.com/marekgalovic/anndb/storage/raft"

	badger "github.com/dgraph-io/badger/v2"
	"github.com/golang/protobuf/proto"
	uuid "github.com/satori/go.uuid"
	log "github.com/sirupsen/logrus"
)

var quietOnce sync.Once

// Quiet silences logrus and routes log.Fatal to the scheduler.
func Quiet() {
	quietOnce.Do(func() {
		log.SetOutput(io.Discard)
		log.SetLevel(log.FatalLevel)
		log.StandardLogger().ExitFunc = vrt.Exit
	})
}

// MemDB opens a fresh in-memory Badger.
func MemDB() *badger.DB {
	Quiet()
	opt := badger.DefaultOptions("").WithInMemory(true).WithEventLogging(false).WithLogger(nil).WithMaxTableSize(1 << 20).WithNumMemtables(2)
	db, err := badger.Open(opt)
	if err != nil {
		panic(err)
	}
	return db
}

var sharedDB *badger.DB

// SharedDB is one process-wide in-memory Badger for scenarios that never write the raft log.
func SharedDB() *badger.DB {
	if sharedDB == nil {
		sharedDB = MemDB()
	}
	return sharedDB
}

// ID returns a fixed uuid whose two little-endian halves are (lo, hi).
func ID(lo, hi uint64) uuid.UUID {
	var u uuid.UUID
	for i := 0; i < 8; i++ {
		u[i] = byte(lo >> (8 * uint(i)))
		u[8+i] = byte(hi >> (8 * uint(i)))
	}
	return u
}

// PartitionID is the id of the p-th partition of the test dataset: deliberately NOT in ascending
// order (production ids are random), so that anything that re-orders partitions shows.
func PartitionID(p int) uuid.UUID {
	perm := []uint64{0xa7, 0xa2, 0xa9, 0xa1, 0xa5, 0xa3, 0xa8, 0xa4}
	return ID(perm[p%len(perm)]+uint64(p/len(perm))<<8, 0x77)
}

func Addr(node uint64) string { return fmt.Sprintf("passthrough:///n%d", node) }

// Lacks, when set, names nodes whose catalogue does not contain the dataset (a replica that has
// not applied the create entry yet). Reset by the caller.
var Lacks func(node uint64) bool

// OwnView, when set, gives the placement node `node` itself believes in (a node whose catalogue is ahead of or behind
// the others); nil result = the common placement. Reset by the caller.
var OwnView func(node uint64) [][]uint64

// WithTransport, when set, gives every node of the next NewDatasetCluster a raft transport object (no group is
// started): the catalogue entries that change a partition's replica list look at the transport's node id.
var WithTransport bool

// DNode is one simulated node holding one dataset object.
type DNode struct {
	ID   uint64
	Conn *cluster.Conn
	DM   *storage.DatasetManager
	DS   *storage.Dataset
}

type DCluster struct {
	Nodes []*DNode // index = node id - 1
	Meta  *pb.Dataset
	DSID  uuid.UUID
}

// NewDatasetCluster builds nNodes nodes that all know one dataset with the given placement
// (placement[p] = node ids of partition p). No raft is loaded.
func NewDatasetCluster(nNodes int, dim uint32, space pb.Space, placement [][]uint64, repl uint32, knows func(node, peer uint64) bool) *DCluster {
	Quiet()
	db := SharedDB()
	dsid := ID(0xd5, 0xd5)
	meta := &pb.Dataset{Id: dsid.Bytes(), Dimension: dim, Space: space, PartitionCount: uint32(len(placement)), ReplicationFactor: repl}
	for p, nodes := range placement {
		meta.Partitions = append(meta.Partitions, &pb.Partition{Id: PartitionID(p).Bytes(), NodeIds: append([]uint64{}, nodes...)})
	}
	c := &DCluster{Meta: meta, DSID: dsid}
	for i := 1; i <= nNodes; i++ {
		id := uint64(i)
		conn, err := cluster.NewConn(id, Addr(id), "")
		if err != nil {
			panic(err)
		}
		for j := 1; j <= nNodes; j++ {
			if knows == nil || knows(id, uint64(j)) {
				conn.AddNode(uint64(j), Addr(uint64(j)))
			}
		}
		var tr *raft.RaftTransport
		if WithTransport {
			tr = raft.NewTransport(id, Addr(id), conn)
		}
		dm := storage.VerifBareDatasetManager(db, tr, conn, nil)
		m := proto.Clone(meta).(*pb.Dataset)
		if OwnView != nil {
			if own := OwnView(id); own != nil {
				for p := range m.Partitions {
					m.Partitions[p].NodeIds = append([]uint64{}, own[p]...)
				}
			}
		}
		ds, err := storage.VerifNewDataset(dsid, *m, db, tr, conn, dm)
		if err != nil {
			panic(err)
		}
		if Lacks == nil || !Lacks(id) {
			dm.VerifPutDataset(ds)
		}
		fakes.Registry[Addr(id)] = &fakes.Node{Search: services.NewSearchServer(dm), Data: services.NewDataManagerServer(dm), Datasets: services.NewDatasetManagerServer(dm)}
		c.Nodes = append(c.Nodes, &DNode{ID: id, Conn: conn, DM: dm, DS: ds})
	}
	return c
}

// AddDataset gives every node a second dataset (id dsid, partitions numbered from firstPartition) with the given
// placement and returns the per-node objects (index = node id - 1).
func (c *DCluster) AddDataset(dsid uuid.UUID, dim uint32, space pb.Space, placement [][]uint64, repl uint32, firstPartition int) (*pb.Dataset, []*storage.Dataset) {
	meta := &pb.Dataset{Id: dsid.Bytes(), Dimension: dim, Space: space, PartitionCount: uint32(len(placement)), ReplicationFactor: repl}
	for p, nodes := range placement {
		meta.Partitions = append(meta.Partitions, &pb.Partition{Id: PartitionID(firstPartition + p).Bytes(), NodeIds: append([]uint64{}, nodes...)})
	}
	var out []*storage.Dataset
	for _, n := range c.Nodes {
		m := proto.Clone(meta).(*pb.Dataset)
		ds, err := storage.VerifNewDataset(dsid, *m, SharedDB(), nil, n.Conn, n.DM)
		if err != nil {
			panic(err)
		}
		n.DM.VerifPutDataset(ds)
		out = append(out, ds)
	}
	return meta, out
}

// Close releases the grpc client conns (lazy, never connected).
func (c *DCluster) Close() {
	for _, n := range c.Nodes {
		n.Conn.Close()
	}
}

// Hosts reports whether node hosts partition p.
func (c *DCluster) Hosts(node uint64, p int) bool {
	for _, id := range c.Meta.Partitions[p].NodeIds {
		if id == node {
			return true
		}
	}
	return false
}
