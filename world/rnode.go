package world

import (
	"context"
	"fmt"

	"anndbverif/vrt/fakes"

	"github.com/marekgalovic/anndb/cluster"
	pb "github.com/marekgalovic/anndb/protobuf"
	"github.com/marekgalovic/anndb/services"
	"github.com/marekgalovic/anndb/storage"
	"github.com/marekgalovic/anndb/storage/raft"

	badger "github.com/dgraph-io/badger/v2"
	"github.com/golang/protobuf/proto"
	uuid "github.com/satori/go.uuid"
)

// RNode is one simulated node with a real transport, allocator and dataset manager; partitions
// run real raft groups over a real badgerWAL on the node's own in-memory Badger ("the disk").
// Every constructor call below is what server.setup / DatasetManager do; it must run inside an
// owned thread whose name starts with "n<id>/".
type RNode struct {
	ID        uint64
	DB        *badger.DB
	Conn      *cluster.Conn
	Transport *raft.RaftTransport
	Allocator *storage.Allocator
	DM        *storage.DatasetManager
}

// NewRNode builds node id knowing the given peers.
func NewRNode(id uint64, db *badger.DB, peers []uint64) *RNode {
	Quiet()
	conn, err := cluster.NewConn(id, Addr(id), "")
	if err != nil {
		panic(err)
	}
	for _, p := range peers {
		if p != id {
			conn.AddNode(p, Addr(p))
		}
	}
	n := &RNode{ID: id, DB: db, Conn: conn}
	n.Allocator = storage.NewAllocator(conn)
	n.Transport = raft.NewTransport(id, Addr(id), conn)
	n.DM = storage.VerifBareDatasetManager(db, n.Transport, conn, n.Allocator)
	fakes.Registry[Addr(id)] = &fakes.Node{
		Raft:     n.Transport,
		Search:   services.NewSearchServer(n.DM),
		Data:     services.NewDataManagerServer(n.DM),
		Datasets: services.NewDatasetManagerServer(n.DM),
	}
	return n
}

// DatasetMeta builds a dataset descriptor with the given placement.
func DatasetMeta(dim uint32, space pb.Space, placement [][]uint64, repl uint32) *pb.Dataset {
	dsid := ID(0xd5, 0xd5)
	meta := &pb.Dataset{Id: dsid.Bytes(), Dimension: dim, Space: space, PartitionCount: uint32(len(placement)), ReplicationFactor: repl}
	for p, nodes := range placement {
		meta.Partitions = append(meta.Partitions, &pb.Partition{Id: PartitionID(p).Bytes(), NodeIds: append([]uint64{}, nodes...)})
	}
	return meta
}

// CreateEntry is the catalogue log entry that creates meta.
func CreateEntry(meta *pb.Dataset, notif uuid.UUID) []byte {
	data, err := proto.Marshal(meta)
	if err != nil {
		panic(err)
	}
	ch := &pb.DatasetManagerChange{Type: pb.DatasetManagerChangeType_DatasetManagerCreateDataset, NotificationId: notif.Bytes(), Data: data}
	b, err := proto.Marshal(ch)
	if err != nil {
		panic(err)
	}
	return b
}

// ApplyCreate feeds the create entry to the node's catalogue (the real createDataset path:
// newDataset, allocator.watch, and through the allocator loop loadRaft for hosted partitions).
func (n *RNode) ApplyCreate(meta *pb.Dataset) error {
	return n.DM.VerifApply(CreateEntry(proto.Clone(meta).(*pb.Dataset), ID(0x99, uint64(n.ID))))
}

// Dataset returns the node's dataset object.
func (n *RNode) Dataset(meta *pb.Dataset) *storage.Dataset {
	ds, err := n.DM.Get(uuid.FromBytesOrNil(meta.Id))
	if err != nil {
		panic(fmt.Sprintf("node %d: %v", n.ID, err))
	}
	return ds
}

// Campaign makes every loaded partition group of the node whose first replica is this node campaign.
func (n *RNode) Campaign(meta *pb.Dataset) {
	ds := n.Dataset(meta)
	for i := 0; i < ds.VerifPartitionCount(); i++ {
		p := ds.VerifPartition(i)
		if g := p.Raft(); g != nil && len(p.NodeIds()) > 0 && p.NodeIds()[0] == n.ID {
			g.VerifCampaign()
		}
	}
}

// Close releases connections and the disk.
func (n *RNode) Close() {
	n.Conn.Close()
	n.DB.Close()
}

var _ = context.Background
