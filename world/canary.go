package world

import "github.com/marekgalovic/anndb/storage"

// LoopVarPerLoop reports whether /repo's packages are compiled with per-loop loop variables
// (go <= 1.21 semantics, as go.mod's `go 1.14` demands). Decided by a canary in the storage
// hook file, which is instrumented and compiled like the rest of the package.
func LoopVarPerLoop() bool { return storage.VerifLoopVarCanary() }
