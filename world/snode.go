package world

import (
	"fmt"
	"path"

	"anndbverif/vrt/fakes"
	"anndbverif/vrt/serverenv"

	anndb "github.com/marekgalovic/anndb"
	"github.com/marekgalovic/anndb/services"

	badger "github.com/dgraph-io/badger/v2"
)

// SNode is one simulated node running the REAL anndb.Server.setup() (instrumented build: only
// its Badger path and its TCP listener are replaced, see vrt/serverenv).
type SNode struct {
	ID      uint64
	Port    string
	DB      *badger.DB
	Srv     *anndb.Server
	Crashed bool
	Join    []string
	// DoNotJoin: started with -join=false (the operator attaches it to a cluster later): it must come up empty
	DoNotJoin bool
}

// ServerAddr is the address a server with this id announces (":<port>", as net.JoinHostPort("", port)).
func ServerAddr(id uint64) string { return fmt.Sprintf(":%d", 7000+id) }

// NewSNode allocates the node's disk. join = addresses of members to join ("" list = bootstrap node).
func NewSNode(id uint64, join []string) *SNode {
	Quiet()
	n := &SNode{ID: id, Port: fmt.Sprint(7000 + id), Join: join, Crashed: true}
	serverenv.Disks[path.Join(n.dir(), "anndb")] = nil // opened by the server's own badger.Open call (see serverenv.OpenDB)
	return n
}

func (n *SNode) dir() string { return fmt.Sprintf("/sim/n%d", n.ID) }

// Setup runs the real Server.setup() for this node (must run inside an owned thread named
// "n<id>/..."); used for the first start and for every restart.
func (n *SNode) Setup() error {
	cfg := &anndb.Config{RaftNodeId: n.ID, DataDir: n.dir(), Port: n.Port, JoinNodes: n.Join, DoNotJoinCluster: n.DoNotJoin}
	if n.DoNotJoin {
		cfg.JoinNodes = nil
	}
	n.Srv = anndb.NewServer(cfg)
	err := n.Srv.VerifSetup()
	n.DB = serverenv.Disks[path.Join(n.dir(), "anndb")]
	if err != nil {
		return err
	}
	n.Crashed = false
	n.Register()
	return nil
}

// Register publishes the node's service handlers on the simulated wire (what setup() registers
// on its gRPC server, built with the same constructors).
func (n *SNode) Register() {
	dm := n.Srv.VerifDatasetManager()
	fakes.Registry[ServerAddr(n.ID)] = &fakes.Node{
		Raft:     n.Srv.VerifZeroGroup().VerifTransport(),
		Nodes:    services.NewNodesManagerServer(n.Srv.VerifNodesManager()),
		Datasets: services.NewDatasetManagerServer(dm),
		Data:     services.NewDataManagerServer(dm),
		Search:   services.NewSearchServer(dm),
	}
}

// Close releases the disk.
func (n *SNode) Close() {
	if n.Srv != nil && n.Srv.VerifConn() != nil {
		n.Srv.VerifConn().Close()
	}
	if db := serverenv.Disks[path.Join(n.dir(), "anndb")]; db != nil {
		db.Close()
	}
	delete(serverenv.Disks, path.Join(n.dir(), "anndb"))
}
